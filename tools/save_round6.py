#!/usr/bin/env python3
# Stores the round-6 seeded changes (sub-agent output under /tmp/s6/out, confirmation and
# first-contact results under /tmp/s6/res) as /verif/seeded/Cnn-r6/.  One-off helper, kept for the record.
import json, os, re, shutil
change = {
 "C01": ("value-only fast path in itemLoc.read fills the cached, published Item in place (ItemValRead allocates Val before ReadAt)", "persisted item cached key-only, transient fault on exactly the value ReadAt; later Gets return NUL bytes"),
 "C02": ("readRoots truncates whatever follows the last valid root record on every open", "a second Store opened on the file while the owner has written data without a root record yet (Write() or a failed Flush); the owner's next Flush reports success over a hole"),
 "C03": ("one scratch collection map per backward scan, passed down to the validator; json.Unmarshal keeps entries of a rejected candidate", "crash before the root write with a value in the tail framed like a root record whose JSON fails after an earlier key"),
 "C04": ("nodeLoc.read / itemLoc.read reject locations beyond Store.size (ploc.within)", "snapshot over unflushed items, original flushes, items evicted, snapshot re-reads"),
 "C05": ("Flush skips when an atomic dirty flag is clear; the flag is cleared after writeRoots", "mutation published between a concurrent Flush's pinning and its end, then a solitary Flush"),
 "C06": ("value-only fetch into the shared cached Item (the C01-r6 idea, found independently)", "key-only cached item, short read on the value bytes or a second reader during the ReadAt"),
 "C07": ("new Store.appendLock around load-size/WriteAt/store-size; the ItemValWrite error path returns without unlocking", "write fault on the value WriteAt of an item, then any appending call hangs"),
 "C08": ("FlushRevert sets Store.size to 0 before Truncate when the restored root has no collections", "a Flush of a collection-less store with earlier flushes below it; the second revert loses them"),
 "C09": ("Flush truncates a torn tail (file longer than Store.size at open) through a helper shared with FlushRevert", "file physically longer than its last root record at open, then Flush on the writable store"),
 "C10": ("Delete allocates the next version handle before join and marks with its reclaimMark; on a join error the handle is recycled but its marks stay on live nodes", "re-opened store, Delete whose join hits a read fault after an inner level succeeded, then two Sets"),
 "C11": ("reads reject locations beyond Store.size (the C04-r6 idea, found independently)", "snapshot + owner Flush + eviction, then snapshot.CopyTo"),
 "C12": ("writeRoots builds the roots JSON by hand with %q quoting", "collection name with a control byte Go quotes differently from JSON"),
 "C13": ("numInfo refactored onto a helper; the right side's result overwrites the left side's read error", "uncached persisted left child + transient ReadAt fault on it during a mutation whose right part is non-empty"),
 "C14": ("all dirty node records of a collection appended with one WriteAt, locations assigned while rendering (the C07-r5 idea, found independently)", "failure of exactly the batched node write, retried Flush"),
 "C15": ("closeCollection of a snapshot holding the last reference sweeps the cached tree when the root node carries no reclaim mark", "snapshot, then an insert with the highest priority on the childless side of the root, then snapshot.Close()"),
 "C16": ("collecting pass of both block visits moved into a helper whose if-scoped err shadows the named result", "flushed store, transient ReadAt fault inside the collecting pass: the enumeration returns nil having presented a prefix"),
 "C17": ("MinItem + defer ItemDecRef + si.Key folded into a helper minKey(): the key slice outlives the reference", "recycling ItemAlloc/ItemDecRef pair, persisted items, eviction during the visit"),
 "C18": ("iterator gets a mutex held by Next()/Close() for their whole body; the producer records a failed visit through a locked setter", "a visit that fails (ReadAt fault): Next() blocks on the channel holding the mutex the producer needs"),
 "C19": ("Evict remembers that the value was resident; itemLoc.read then fetches the value on key-only reads too", "value op, eviction, then a key-only op on the same item"),
}
now = {
 "C02": ["[A-trunc] (*Store).readRoots › Truncate#1 › who"],
 "C03": ["[O5f] (*Store).validateAndSetCollections › json.Unmarshal#1 decodes into storage of this candidate only"],
 "C05": ["[O1] (*Store).Flush › success only through the root record, written last"],
 "C07": ["[L2] (*itemLoc).write › Lock Store.appendLock#1 › released on every path"],
 "C08": ["[T3] (*Store).FlushRevert › Truncate#1 › cursor untouched between scan and Truncate"],
 "C11": ["[Z4] (*itemLoc).read › consults Store.size in a role that may"],
 "C13": ["[E1m] numInfo › call (*nodeLoc).read#1 › error"],
 "C15": ["[F3] (*Collection).closeCollection › bulk mark#1 only under sole ownership"],
 "C17": ["[R7] (*Collection).minKey › ItemDecRef#1 › item bytes not used after the release"],
 "C18": ["[I6] (*iterator).Next › channel receive#2 › no lock held", "[I6] (*iterator).Next › channel send#1 › no lock held"],
}
head = os.popen("git -C /repo rev-parse --short HEAD").read().strip()
os.chdir("/verif")
for pid, (chg, needs) in sorted(change.items()):
    src = f"/tmp/s6/out/{pid}"; dst = f"seeded/{pid}-r6"; os.makedirs(dst, exist_ok=True)
    shutil.copy(f"{src}/patch.diff", f"{dst}/patch.diff")
    shutil.copy(f"{src}/zz_seed_demo_test.go", f"{dst}/zz_seed_demo_test.go.txt")
    shutil.copy(f"{src}/notes.md", f"{dst}/notes.md")
    res = open(f"/tmp/s6/res/{pid}.txt").read()
    conf, ev = res.split("---EVAL") if "---EVAL" in res else (res, "")
    fired = {}
    for l in ev.splitlines():
        m = re.match(r"\s+(VIOLATED|UNDECIDED|FLOOR) (C\d\d) (\[[^\]]+\][^@]*)", l)
        if m:
            fired.setdefault(m.group(2), []).append((m.group(1) + " " if m.group(1) != "VIOLATED" else "") + m.group(3).strip())
    own = pid in fired
    meta = {"id": f"{pid}-r6", "breaks_property": pid, "round": 6,
            "origin": "independent sub-agent given only the property text (plus the five earlier ideas to avoid) and a scratch worktree",
            "change": chg, "needs_to_manifest": needs,
            "confirmed": {"how": f"tools/confirm_seed.sh in a fresh scratch copy of /repo HEAD ({head})",
                          "demo_on_unmodified": "PASS" if "1 demo on unmodified: PASS" in conf else "FAIL",
                          "patch_applies": "2 patch applies: ok" in conf,
                          "existing_suite_with_change": "PASS" if "3 suite with change: PASS" in conf else "FAIL",
                          "demo_with_change": "FAIL" if "4 demo with change: FAIL" in conf else "PASS"},
            "checks_run": "all 19 quick checks against a scratch copy with the patch (tools/eval_seed.sh); thorough tier re-applies the patch as an overlay",
            "first_run": "nothing fired" if not fired else "fired in: " + ", ".join(sorted(fired)),
            "first_run_fired": {k: sorted(set(v))[:6] for k, v in fired.items()},
            "caught_by_own_property_check": own,
            "caught_by": {pid: (sorted(set(fired[pid]))[:4] if own else now.get(pid, []))},
            "caught_by_own_property_check_now": own or pid in now}
    json.dump(meta, open(f"{dst}/meta.json", "w"), indent=1, ensure_ascii=False)
    print(pid, "own-first" if own else ("none" if not fired else "other:" + ",".join(sorted(fired))), meta["confirmed"])

#!/usr/bin/env python3
"""usage: tools/seed_matrix.py [seed-id ...]
For every seeded change under /verif/seeded (or the listed ones): apply it to a fresh scratch
copy of /repo HEAD, run all 19 quick checks against the copy (no evidence, no controls), record
which obligations fired per property in the seed's meta.json ("caught_by") and print one
matrix line per seed.  Scratch copies are removed.  Never touches /repo."""
import json, os, re, subprocess, sys, tempfile, shutil

HERE = os.path.dirname(os.path.dirname(os.path.abspath(__file__)))
seeds = sys.argv[1:] or sorted(os.listdir(os.path.join(HERE, "seeded")))
for sid in seeds:
    d = os.path.join(HERE, "seeded", sid)
    if not os.path.isfile(os.path.join(d, "patch.diff")):
        continue
    s = tempfile.mkdtemp(prefix="seedmx.", dir="/tmp")
    try:
        tar = subprocess.Popen(["git", "-C", "/repo", "archive", "HEAD"], stdout=subprocess.PIPE)
        subprocess.check_call(["tar", "-x", "-C", s], stdin=tar.stdout)
        tar.wait()
        with open(os.path.join(d, "patch.diff")) as f:
            rc = subprocess.call(["patch", "-p1", "-s", "-f"], stdin=f, cwd=s)
        if rc != 0:
            print(f"{sid}: PATCH DOES NOT APPLY")
            continue
        out = subprocess.run([os.path.join(HERE, "tools", "run_all_on.sh"), s], capture_output=True, text=True).stdout
    finally:
        shutil.rmtree(s, ignore_errors=True)
    caught, cur = {}, None
    for line in out.splitlines():
        m = re.match(r"^(C\d\d) rc=(\d+) fired=(\d+)", line)
        if m:
            cur = m.group(1)
            continue
        m = re.match(r"^\s+(VIOLATED|UNDECIDED|FLOOR|LOAD-FAILURE) (C\d\d) \[([^\]]+)\]:? ?(.*?)( @ .*)?$", line)
        if m and cur:
            what = f"[{m.group(3)}] {m.group(4).split(' @ ')[0]}".strip()
            caught.setdefault(cur, [])
            if what not in caught[cur]:
                caught[cur].append(what)
    mp = os.path.join(d, "meta.json")
    meta = json.load(open(mp))
    meta["caught_by"] = caught
    own = meta["breaks_property"]
    meta["caught_by_own_property_check"] = own in caught
    json.dump(meta, open(mp, "w"), indent=1, ensure_ascii=False)
    rules = sorted({x.split("]")[0][1:] for x in caught.get(own, [])})
    others = sorted(p for p in caught if p != own)
    print(f"{sid}: own={'CAUGHT' if own in caught else 'MISSED'} by {','.join(rules) or '-'}; also fires in {','.join(others) or '-'}", flush=True)

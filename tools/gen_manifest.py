#!/usr/bin/env python3
"""Regenerates /verif/MANIFEST.json from the table below (kept in one place so the
manifest, DESIGN.md and the checker's registered properties stay in step)."""
import json, os, subprocess, sys

HERE = os.path.dirname(os.path.dirname(os.path.abspath(__file__)))

BASELINE = ("cd /repo && GOFLAGS=-mod=mod GOPROXY=off GOSUMDB=off go test -json -vet=off -count=1 -timeout 25m ./...")

# id -> (category, technique, level text, level note, design ref)
CLAIMED = {}

def claim(pid, category, technique, text, note, ref):
    CLAIMED[pid] = dict(category=category, technique=technique, text=text, note=note, ref=ref)

NOT_YET = {}

exec(open(os.path.join(HERE, "tools", "claims.py")).read())

def main():
    props = [json.loads(l) for l in open(os.path.join(HERE, "properties.jsonl"))]
    checks = []
    na = []
    for p in props:
        pid = p["id"]
        if pid in CLAIMED:
            c = CLAIMED[pid]
            checks.append({
                "property_id": pid,
                "quick_cmd": f"./check {pid} quick",
                "thorough_cmd": f"./check {pid} thorough",
                "evidence_file": f"/verif/evidence/{pid}.json",
                "replay_cmd_template": f"./check {pid} quick -replay {{path}}",
                "engine": "gkvcheck",
                "level_claimed": {"category": c["category"], "text": c["text"], "design_ref": c["ref"]},
                "level_note": c["note"],
                "technique": c["technique"],
            })
        else:
            na.append({"property_id": pid, "reason": NOT_YET.get(pid, "no check built yet in this revision")})
    m = {
        "version": 1,
        "setup_cmd": "./setup.sh",
        "hooks": {
            "guard": "verif",
            "enable": "none needed: the checks analyse /repo's source statically (go/packages + go/ssa); no instrumentation is compiled in",
            "baseline_off_cmd": BASELINE,
            "source_commits": [],
            "add_only": True,
        },
        "engines": [{
            "name": "gkvcheck",
            "path": "/verif/checker",
            "serves_properties": sorted(CLAIMED),
            "kind_free_text": "repository-specific static analyser over the type-checked SSA program and whole-program call graph of /repo (golang.org/x/tools v0.29.0): who-may-call, dominance/guard, must-pass-through, pairing, lock-region, error-flow, layout-table and order-typing rules; positive controls via in-memory overlays",
        }],
        "checks": checks,
        "not_applicable": na,
        "notes": "Technique family: static analysis only. Every verdict is computed from /repo's current source on every run; nothing in /repo is executed. See DESIGN.md.",
    }
    json.dump(m, open(os.path.join(HERE, "MANIFEST.json"), "w"), indent=1)
    print("MANIFEST.json:", len(checks), "checks,", len(na), "not_applicable")

main()

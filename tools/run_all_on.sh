#!/bin/bash
# usage: tools/run_all_on.sh <repo-dir> [props...]
# Runs the quick check of every property (or the listed ones) against <repo-dir> without
# touching evidence, 6 at a time, and prints one line per property: id, exit code, and the
# obligations that fired.  Used to evaluate seeded changes in scratch worktrees.
REPO="$1"; shift
HERE="$(cd "$(dirname "$0")/.." && pwd)"
PROPS="${*:-C01 C02 C03 C04 C05 C06 C07 C08 C09 C10 C11 C12 C13 C14 C15 C16 C17 C18 C19}"
TMP=$(mktemp -d)
for p in $PROPS; do
  ( VERIF_REPO="$REPO" "$HERE/check" $p quick -noevidence -nocontrols > "$TMP/$p.out" 2>&1; echo $? > "$TMP/$p.rc" ) &
  while [ "$(jobs -r | wc -l)" -ge 6 ]; do sleep 0.2; done
done
wait
for p in $PROPS; do
  rc=$(cat "$TMP/$p.rc")
  n=$(grep -c '^VIOLATED\|^UNDECIDED\|^FLOOR\|^LOAD-FAILURE' "$TMP/$p.out")
  echo "$p rc=$rc fired=$n"
  grep '^VIOLATED\|^UNDECIDED\|^FLOOR\|^LOAD-FAILURE' "$TMP/$p.out" | cut -c1-260 | sed 's/^/    /'
done
rm -rf "$TMP"

#!/bin/bash
# usage: tools/confirm_seed.sh <dir with patch.diff + zz_seed_demo_test.go>
# Confirms, in a fresh scratch checkout of /repo HEAD, that (1) the demo passes without
# the change, (2) the patch applies, (3) the existing suite (demo excluded) still passes,
# (4) the demo fails with the change.  Prints one line per step; removes the scratch copy.
D="$(cd "$1" && pwd)"
S=$(mktemp -d /tmp/confirm.XXXXXX)
export GOFLAGS=-mod=mod GOPROXY=off GOSUMDB=off
git -C /repo archive HEAD | tar -x -C "$S"
cp "$D/zz_seed_demo_test.go" "$S/"
cd "$S"
if timeout 300 go test -vet=off -count=1 -timeout 120s -run 'TestSeedDemo' . >"$S/.o1" 2>&1; then echo "1 demo on unmodified: PASS (ok)"; else echo "1 demo on unmodified: FAIL (bad)"; tail -5 "$S/.o1"; fi
if git apply --unsafe-paths --directory="$S" "$D/patch.diff" 2>"$S/.o2" || patch -p1 -s < "$D/patch.diff" 2>>"$S/.o2"; then echo "2 patch applies: ok"; else echo "2 patch applies: NO"; cat "$S/.o2"; fi
if timeout 600 go test -vet=off -count=1 -timeout 300s -skip 'TestSeedDemo' ./... >"$S/.o3" 2>&1; then echo "3 suite with change: PASS (ok)"; else echo "3 suite with change: FAIL (bad)"; tail -8 "$S/.o3"; fi
if timeout 300 go test -vet=off -count=1 -timeout 120s -run 'TestSeedDemo' . >"$S/.o4" 2>&1; then echo "4 demo with change: PASS (bad: not a breakage)"; else echo "4 demo with change: FAIL (ok)"; grep -m3 -- '--- FAIL\|panic\|zz_seed' "$S/.o4" | cut -c1-200; fi
cd /; rm -rf "$S"

#!/usr/bin/env python3
"""usage: tools/seed_meta_from_evidence.py
After `./check Cnn thorough` has been run for every property: copy, for every seeded change,
the obligation with which its own property's check caught it (from evidence/Cnn.json,
coverage.mutants) into seeded/<id>/meta.json ("caught_by"[own property]) and print the
matrix.  Cross-property catches recorded earlier (tools/seed_matrix.py) are kept."""
import json, os, re, sys

HERE = os.path.dirname(os.path.dirname(os.path.abspath(__file__)))
rows = []
for sid in sorted(os.listdir(os.path.join(HERE, "seeded"))):
    mp = os.path.join(HERE, "seeded", sid, "meta.json")
    if not os.path.isfile(mp):
        continue
    meta = json.load(open(mp))
    own = meta["breaks_property"]
    ev = os.path.join(HERE, "evidence", own + ".json")
    res = None
    try:
        cov = json.load(open(ev))["coverage"]
        for m in cov.get("mutants", []):
            if m.get("mutant") == "seeded/" + sid:
                res = m.get("result", "")
    except Exception as e:
        res = None
    if res is None:
        rows.append((sid, "no thorough evidence"))
        continue
    m = re.search(r"caught by (\[[^\]]+\] .*)$", res)
    cb = meta.get("caught_by") or {}
    if m:
        cb[own] = [m.group(1)]
        meta["caught_by_own_property_check"] = True
        rows.append((sid, "caught: " + m.group(1)[:110]))
    else:
        meta["caught_by_own_property_check"] = False
        rows.append((sid, "NOT caught: " + res[:110]))
    meta["caught_by"] = cb
    json.dump(meta, open(mp, "w"), indent=1, ensure_ascii=False)
for r in rows:
    print("%-8s %s" % r)

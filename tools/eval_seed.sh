#!/bin/bash
# usage: tools/eval_seed.sh <dir with patch.diff | patch file> [props]
# Applies the patch to a fresh scratch checkout of /repo HEAD and runs the quick checks
# against it (no evidence, no controls); prints the obligations that fired.  Scratch copy removed.
if [ -d "$1" ]; then P="$(cd "$1" && pwd)/patch.diff"; else P="$(cd "$(dirname "$1")" && pwd)/$(basename "$1")"; fi
shift
S=$(mktemp -d /tmp/evseed.XXXXXX)
git -C /repo archive HEAD | tar -x -C "$S"
( cd "$S" && patch -p1 -s -f < "$P" ) || echo "PATCH FAILED"
"$(dirname "$0")/run_all_on.sh" "$S" "$@"
rm -rf "$S"

# Claims table: executed by gen_manifest.py.  One claim(...) per property decided.

claim("C09", "proof", "who-may-call over whole-program call graph + offset provenance (go/ssa)",
      "Sound over-approximation of all call paths: no exported read-style API reaches a WriteAt/Truncate sink; Truncate only from FlushRevert, behind !readOnly and a successful scan, with the scanned size; CopyTo touches its source only through read-style functions; every WriteAt offset is an atomic load of Store.size plus non-negative terms and Store.size only grows on the write path. A proof of the call-path clause (the property's 'for all call paths' quantifier); the value-level premise that Store.size at open is the end of the last durable root record is cited from C03 (atom A9), not re-proved.",
      "Trusted: go/types+go/ssa; callbacks and StoreFile implementations are user code; function values flow only into calls (checked each run); reflection limited to ValueOf/Elem/IsValid (checked each run).",
      "DESIGN.md §4 C09")

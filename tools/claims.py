# Claims table: executed by gen_manifest.py.  One claim(...) per property decided.

claim("C09", "proof", "who-may-call over whole-program call graph + offset provenance (go/ssa)",
      "Sound over-approximation of all call paths: no exported read-style API reaches a WriteAt/Truncate sink; Truncate only from FlushRevert, behind !readOnly and a successful scan, with the scanned size; CopyTo touches its source only through read-style functions; every WriteAt offset is an atomic load of Store.size plus non-negative terms and Store.size only grows on the write path. A proof of the call-path clause (the property's 'for all call paths' quantifier); the value-level premise that Store.size at open is the end of the last durable root record is cited from C03 (atom A9), not re-proved.",
      "Trusted: go/types+go/ssa; callbacks and StoreFile implementations are user code; function values flow only into calls (checked each run); reflection limited to ValueOf/Elem/IsValid (checked each run).",
      "DESIGN.md §4 C09")

claim("C19", "proof", "call-path disjointness + context-sensitive value-demand reachability (go/ssa)",
      "The property is a statement about code paths and is decided as one: the file reads reachable from open are disjoint from node/item/value loading; every value-read site is guarded by a value-demand parameter and is unreachable from every key-only entry in every (function x flag-state) context; the remaining item/node reads have constant, guard-pinned or exactly-key-sized buffers. All call paths are covered by a sound over-approximation, hence proof level.",
      "Trusted: go/types+go/ssa; neutral callbacks (ItemAlloc returns a key of the requested length; values are read only through ItemValRead); closed-world premises checked by C09's A-closed.",
      "DESIGN.md §4 C19")

claim("C07", "other", "path-sensitive error-flow analysis over SSA (every fallible call site, sink and error-returning callback)",
      "Decides the 'reported, never swallowed' clause for every one of the ~116 fallible call sites: on each path where the error may be non-nil it must reach the caller before any publish / Store.size / file-write effect and without looping; plus mark hygiene of failed mutations (E3). This is a structural necessary condition, checked exhaustively over paths; it does not decide that later operations behave as if the failed call had never been made, nor hangs. Two sites (Exist, EvictSomeItems) genuinely drop an error because their signatures have no error result: listed as known findings.",
      "Trusted: go/ssa; io.ReaderAt/WriterAt contract (short transfer => non-nil error); cached nodes are never evicted (justifies the cached re-read idiom).",
      "DESIGN.md §4 C07")

claim("C15", "other", "acquire/release pairing with ownership transfer, path-sensitive over SSA",
      "Decides the structural pairing clauses on every path of every function: evicted items are released (R1), allocated items end installed or released and replaced cached items are released (R2), getters return only AddRef'd items and never an item with an error (R3), node adoption/free symmetry (R4), internal users of getters release exactly once or hand on (R5), every ItemDecRef releases a reference gkvlite holds (R6, 'never premature'). Necessary conditions of balance, checked exhaustively over paths; reference arithmetic over whole histories and fault paths are not decided. Get(key) genuinely leaks GetItem's reference (known finding, needs an API decision).",
      "Trusted: go/ssa; ItemAlloc returns an item with one reference; neutral AfterItemRead. One named exception (EvictSomeItems' walk result, dead release path) with its reason in the checker.",
      "DESIGN.md §4 C15")

claim("C16", "other", "nil-ness dominance check on results of may-return-(nil,nil) getters",
      "Narrow: decides only that Len and the block visits (and every other internal user of GetItem/MinItem/MaxItem/walk) test the item result against nil before any field access, i.e. the empty-collection clause. The 'exactly once at every size and block permutation' clause depends on block arithmetic over run-time counts and is not decided (DESIGN §5 D5 documents a duplicate visit in VisitItemsRandom that no sound static rule here sees).",
      "Trusted: go/ssa dominance; the may-return-(nil,nil) summary is computed from the getters' own returns.",
      "DESIGN.md §4 C16")

claim("C08", "other", "loop-variant discipline on Store.size (natural loops, abstract callee outcomes) + guard dominance",
      "Decides termination of the backward root scan structurally: every cursor-moving loop decrements on every cycle, re-tests the floor on every cycle, leaves the loop on the floor outcome (interprocedurally, by re-exploring the caller with the callee's abstract result tuple) and keeps no non-decrement cursor write inside the loop; plus memory-only rejection first, Truncate only behind !readOnly and a successful scan with the scanned size, collections dropped and cursor stepped back before the scan. A strictly decreasing, bounded integer variant is a termination proof of the scan given terminating file reads; that the state reached equals the previous Flush exactly is not decided.",
      "Trusted: go/ssa natural-loop structure; file reads return (errors exit the loops: C07 E1).",
      "DESIGN.md §4 C08")

claim("C05", "other", "lock-region dataflow (must/may held, interprocedural), lock-order graph, pin pairing, copy-on-write freshness, induction-order check of Flush",
      "Decides the synchronisation skeleton every schedule relies on (L1 lock-protects-field with callers included, L2 acyclic lock order / no re-acquisition / unlock on every path, L3 no lock across user callbacks or file I/O, P1 pin pairing with the two-release rule after a successful publish, RC1 chain threshold = collection's reference + caller pins, W1 copy-on-write freshness of every structural write, A1 atomics on Store.size, FL1 sorted-name pin order before any write, N1 nil checks). These are necessary conditions for 'readers see one consistent version, no panic, no deadlock, flusher captures versions in name order'; they are checked for all paths and call sites, not for sampled schedules. Not decided: linearizability of reads, absence of lost updates, refcount arithmetic over histories.",
      "Trusted: go/ssa; lock identity by field/variable (not instance); single mutator + single flusher as the property states.",
      "DESIGN.md §4 C05")

claim("C04", "other", "guard-dominance over call paths (read-only), snapshot-construction shape, sole-ownership guard of bulk marking, copy-on-write freshness, refcount protocol rules",
      "Decides the structural clauses snapshots rest on: every publish/file write/truncate lies behind a false-arm Store.readOnly test on every call path and the mutators refuse on its true arm (G1); Snapshot pins every version through rootAddRef, shares the lock, copies the map and is read-only (S1); nodes are never modified once published (W1); versions are reclaimed only at refs <= 0 (F2), the whole tree is marked reclaimable only under sole ownership of a writable store decided under the lock (F3 — this rule found defect D3, now fixed), per-node marks follow copies (F4/F5); chain threshold and pin pairing (RC1/P1). Necessary conditions of isolation/harmlessness for all histories; the contents a snapshot observes over histories and release orders are not decided.",
      "Trusted: go/ssa; lock identity by field; neutral callbacks.",
      "DESIGN.md §4 C04")

claim("C10", "other", "who-may-write (free lists), guard dominance (refs <= 0, sole ownership), mark-follows-copy path rule, re-target argument provenance",
      "Decides the structural preconditions of invisible recycling: F1 free lists written only by allocator routines; F2 reclaim only at refs <= 0; F3 bulk mark only under sole ownership (found D3); F4 every per-node mark follows the superseding mkNode and uses the caller's version mark; F5 re-targeting goes from the pinned old version to the fresh new one and temporaries are parked; E3 failed mutations clear their marks (found D7); W1, L1, RC1, P1 shared with C05. Unobservability over all histories and release orders, and refcount arithmetic, are not decided.",
      "Trusted: go/ssa; single mutator.",
      "DESIGN.md §4 C10")

claim("C12", "other", "copy-on-write check of the collection map, hand-over shape of SetCollection, close-after-swap ordering, no-file-effect reachability",
      "Decides: the collection map is never modified in place or after publication (M1); GetCollectionNames is sorted on every return (M2); an existing name hands its version to the new handle by a pinned reference under the same lock, old handles are closed only after a successful swap (M3); closing cannot recycle shared nodes (F3, found D3); management functions reach no file sink, so durability comes only from Flush, which pins the names of one map snapshot in sorted order (M5/FL1). Name-set bookkeeping across flush/reopen histories is not decided.",
      "Trusted: go/ssa.",
      "DESIGN.md §4 C12")

claim("C02", "other", "must-pass-through / ordering rules over the SSA of the write path, role resolution from sinks, version-agreement provenance",
      "Decides the commit protocol structurally: Flush reports success only through the single root-record write, which follows all data writes; items before nodes, children before parents, nothing skipped, both passes skip alike; the root record lists exactly the versions that were pinned and written; every iteration writes; size/location bookkeeping agrees with what was written; errors on the write path propagate (E1w) and pins are taken in sorted order before writing (FL1). These are necessary conditions of 'a nil Flush makes the whole state durable' for all histories; equality of re-opened with flushed contents additionally needs C14 (codec symmetry) and C13 (tree invariants) and is not decided here.",
      "Trusted: go/ssa; roles resolved structurally (sinks, magic constants, recursion).",
      "DESIGN.md §4 C02")

claim("C03", "other", "single-commit-point and write-order rules + reader/writer validation-atom agreement (guard polarity analysis)",
      "Decides the structural part of crash atomicity: one straight-line root-record write of a fully assembled buffer as the only commit point, after all data in dependency order; Store.size advanced only on success and to offset+length, with the recorded location equal to (write offset, advance length); and on open nine validation atoms (both magics twice, version, length agreement, offset bounds, A9 record-ends-at-cursor) each of whose failing arm leads only to rejection or re-test. Byte-granular torn writes and junk imitating a complete self-consistent record are not decided.",
      "Trusted: go/ssa; the atom recognisers match operand provenance (MagicBeg/MagicEnd globals, binary.Read targets, Store.size loads, rootsLen), not text.",
      "DESIGN.md §4 C03")

claim("C14", "other", "abstract evaluation of encoders/decoders over constants and symbolic lengths; extracted layout tables compared with an independent v4 table",
      "Decides byte-level conformance to the version-4 layout for all inputs: the layout evaluator replays every codec of the current source (item header, location, node record, root record writer and the three reader stages, item record placement) and the extracted (byte order, width, offset, field) tables must equal an independent v4 table kept in the checker, for both directions; plus Version == 4, the two magic strings assigned only by their initialisers, big-endian everywhere, keyPSize == 4, record-length constants, JSON form of locations, children-before-parent (O4) and the reader's validation atoms (O5). This catches exactly the symmetric edits (field order, width, endianness, magic, version) that round-trip tests cannot see. It does not decide that an independent decoder recovers the flushed state — that also needs C02 and C13.",
      "Trusted: go/ssa; the v4 table in rules_c14.go was written from the format description (README / property text), not derived from the code.",
      "DESIGN.md §4 C14")

claim("C18", "other", "channel typestate rules + exhaustive exploration of the consumer x producer automata interpreted from the SSA; lock-free-callback rule",
      "Decides: no gkvlite lock can be held at any visitor/comparator call or file sink and no mutex is re-acquired (the precondition of re-entrant use, L3/L2); the iterator's channel protocol (who may send/receive/close, close-once under the closed flag, ,ok on every receive with the closed outcome ending the conversation, deferred close-then-drain epilogue installed first, producer started with go, unbuffered channels); the producer's pin is released (P1); and I5 — the consumer (every sequence of Next/Close) and the producer goroutine are interpreted abstractly straight from their SSA and their finite product graph is explored completely: no deadlock, no send on a closed channel, no double close, producer always exits after Close or after Next answered false. The one modelled (not extracted) part is the visit machinery between the producer and its item callback (called any number of times, never after it returned false — C06 V2). Run-time goroutine exit under a real scheduler and abandonment without Close() are not decided.",
      "Trusted: go/ssa; Go channel semantics as encoded in the interpreter (rendezvous, closed receive yields !ok, send/close on closed panics); C06 V2 for the visit machinery.",
      "DESIGN.md §4 C18")

claim("C06", "other", "finite sign-domain evaluation of the choice functions + typestate path exploration of the recursive visitor + wrapper transparency checks",
      "Decides the structural clauses of range visits: the delivering sets of the two choice functions over the three signs of compare(target,key) and their near/far subtrees (V1), the in-order skeleton with early stop on every path of the recursive visitor (V2), the delivered item read with the caller's value mode from the node being visited (V3), depth = recursion depth (V4), wrapper/iterator transparency in the right direction (V5) and the transparent order guard (V6). Together with the search-tree order of C13 this gives 'exactly the requested range, in order'; the delivered sequence as data over all contents and cache states is not decided.",
      "Trusted: go/ssa; comparator is a strict weak order; C13 for tree order.",
      "DESIGN.md §4 C06")

claim("C17", "other", "who-may-touch rule on Item.Val, nil-guard dominance on every StoreCallbacks call, allocation-site rule, hook-result dataflow, comparator-default rule, symbolic size agreement",
      "Decides the structural reasons a behaviourally neutral callback cannot change a result: value bytes/length are touched only in the three dispatch wrappers (K1); every callback call is nil-guarded with a default path (K2); items come from ItemAlloc (K3); only the hooks' results are used after them (K4); every collection comparator is defaulted, copied or the load-time callback's result with nil replaced by bytes.Compare (K5); aggregate sizes use the same dispatched length as the encoder (K6, with C14 Y6). Identity of all results under every subset of callbacks over all histories is not decided.",
      "Trusted: go/ssa; callbacks are behaviourally neutral as the property defines.",
      "DESIGN.md §4 C17")

claim("C11", "other", "receiver-provenance who-may-call (source untouched), must-flush-before-success path rule, shape checks of the copy loop, error flow",
      "Decides: CopyTo touches its source only through functions that neither write the file nor publish (A-src); with flushEvery > 0 every success return follows a destination Flush with nothing written after it, and a Flush follows the copy loop (CP1); every source collection, empty ones included, is created on the new store with the same name and comparator (CP2); items are read with values from the smallest key on and the visited item itself is set into the destination, the copy visitor stopping only on a recorded error (CP3); every error in CopyTo propagates (E1c). Equivalence of contents, compaction and in-copy eviction effects are not decided.",
      "Trusted: go/ssa.",
      "DESIGN.md §4 C11")

claim("C13", "other", "assume/guarantee order-typing of union/split/join: symbolic tree terms from SSA + closure prover over order, priority, emptiness facts; structural aggregate rule",
      "An inductive argument (on tree height) checked per function: at every constructed node left < key < right (T-order) and priorities below <= the node's (T-heap, equal-key replacement exempt); at every success return the result bounds follow from the input bounds, split returns left < s < right with the middle carrying s, join is only called on key-separated trees (T-contract); the items/subtrees of the results are exactly those of the inputs (T-lin); every constructed node carries numInfo sums + 1 / + its own item's bytes for exactly its children (T-agg), stored by mkNode and persisted by the encoder; copy-on-write and byte-length dispatch shared with C05/C17; depth = recursion depth. All 7 node sites and 14 return shapes discharge; every semantic mutant in the corpus (swapped children, flipped priority test, wrong split key, lost/duplicated subtree, missing +1, wrong item's bytes) is refuted by the named rule. Given a strict-weak-order comparator and that nodes read back are the nodes written (C14/C02) this makes every published tree a search tree with exact aggregates and heap order for all inputs and histories. Canonical shape for distinct priorities is the standard corollary, not re-derived. Claimed at 'other' rather than 'proof' because the prover is bespoke and its rule set is part of the trusted base.",
      "Trusted: go/ssa; the prover's rules (treap.go: subset/bound/hull rules, three-way narrowing, ||-merge of emptiness); comparator strict weak order; C14/C02 for persistence.",
      "DESIGN.md §3.H, §4 C13")

claim("C01", "other", "interval evaluation of validation guards, order-fact check of the lookup descent, set-algebra shape of SetItem/Delete over the C13-proved operations",
      "Decides the structural clauses of sorted-map behaviour: exact argument validation before any effect (S-valid), lookup orientation and hit condition of GetItem, Min/Max choosers, walk (S-lookup), SetItem = publish(union(pinned root, leaf(new item))) with the new item winning on equal keys, Delete = publish(join(left,right of split)) reporting true only for a found key after a successful publish, GetTotals = pinned root aggregates (S-algebra), on top of C13's order/content/aggregate rules for union/split/join. Equality of every return value with a reference map over histories interleaved with Flush/eviction/reopen is not decided (its structural preconditions are W1, C14, C02).",
      "Trusted: go/ssa; comparator strict weak order; C13's prover.",
      "DESIGN.md §4 C01")

package main

// C13 — tree invariants by induction over the operations (DESIGN §3.H, §4 C13):
// T-order, T-heap, T-agg at every constructed node, T-lin and the bound contracts at
// every return of union / split / join.

import (
	"fmt"
	"go/token"
	"sort"
	"strings"

	"golang.org/x/tools/go/ssa"
)

var treapFns = []string{"(*Store).union", "(*Store).split", "(*Store).join"}

func baseFactsFor(fn string) *tfacts {
	f := newFacts()
	if fn == "(*Store).join" {
		f.sepHyp = append(f.sepHyp, [2]string{"this", "that"})
	}
	return f
}

// collectTrees lists every subterm of t.
func collectTrees(t *tterm, out *[]*tterm) {
	if t == nil {
		return
	}
	*out = append(*out, t)
	collectTrees(t.a, out)
	collectTrees(t.b, out)
}

// addHullHyp: assume every parameter tree is bounded by the fresh key κ (dir) / priority π,
// and derive the member facts for the subtrees mentioned.
func addHullHyp(f *tfacts, params []string, mentioned []*tterm, kappa string, dir int, pi string) {
	for _, p := range params {
		if dir < 0 {
			f.hypLT[[2]string{p, kappa}] = true
		} else if dir > 0 {
			f.hypGT[[2]string{p, kappa}] = true
		}
		if pi != "" {
			f.hypPLE[[2]string{p, pi}] = true
		}
	}
	for _, t := range mentioned {
		r := rootOf(t)
		if r == nil {
			continue
		}
		in := false
		for _, p := range params {
			if r.String() == p {
				in = true
			}
		}
		if !in {
			continue
		}
		if dir < 0 {
			f.keyLT[[2]string{keyOfTree(t), kappa}] = true
		} else if dir > 0 {
			f.keyLT[[2]string{kappa, keyOfTree(t)}] = true
		}
		if pi != "" {
			f.prioLE[[2]string{prioOfTree(t), pi}] = true
		}
	}
}

func treeParams(fn *ssa.Function) []string {
	var out []string
	for _, p := range fn.Params {
		if isLibType(p.Type(), "nodeLoc") {
			out = append(out, p.Name())
		}
	}
	return out
}

func ruleTOrderHeap(w *World, r *Report) {
	for _, name := range treapFns {
		fn := w.Fn(name)
		if fn == nil {
			r.Unknown("T-order", "anchor "+name, "-", "test-pinned treap function not found")
			continue
		}
		x := &textract{w: w, fn: fn}
		n := 0
		eachInstr(fn, func(in ssa.Instruction) {
			mk, ok := in.(*ssa.Call)
			if !ok || staticCalleeName(mk) != "(*Collection).mkNode" {
				return
			}
			n++
			// the node's item may be chosen on several paths (`it := a; if c { it = b }`): one
			// case per incoming value, each with what is known on that edge
			if ph, isPhi := mk.Common().Args[1].(*ssa.Phi); isPhi && !isLoopHeaderPhi(ph) {
				var keys []string
				bad := ""
				for i, e := range ph.Edges {
					if isNilConst(e) {
						continue
					}
					env := newEnv()
					env.vals[ph] = e
					xc := &textract{w: w, fn: fn, env: env}
					nt := xc.nodeTerm(mk)
					f := xc.factsAtBlock(mk.Block(), baseFactsFor(name))
					for _, cf := range edgeFacts(ph, i, 0) {
						xc.addFact(f, cf)
					}
					p := &tprover{f: f, busy: map[string]bool{}}
					keys = append(keys, nt.String())
					if !(p.bound(nt.a, nt.key, -1) && p.bound(nt.b, nt.key, +1)) {
						bad = fmt.Sprintf("case %s: cannot prove left < %s < right", nt, nt.key)
					}
					if !strings.HasPrefix(nt.item, "item(SM(") && !(p.ple(nt.a, nt.prio) && p.ple(nt.b, nt.prio)) {
						bad = fmt.Sprintf("case %s: cannot prove that the priorities below are <= %s", nt, nt.prio)
					}
				}
				key := fmt.Sprintf("%s › mkNode#%d %s", name, n, strings.Join(keys, " | "))
				if bad == "" {
					r.OK("T-order", key, w.InstrPos(mk), "order proved for every value the node's item can take here")
					r.OK("T-heap", key, w.InstrPos(mk), "heap order proved (or equal-key replacement) for every value the node's item can take here")
				} else {
					r.Bad("T-order", key, w.InstrPos(mk), bad+": the tree built here need not be a search tree / heap")
				}
				return
			}
			nt := x.nodeTerm(mk)
			f := x.factsAtBlock(mk.Block(), baseFactsFor(name))
			p := &tprover{f: f, busy: map[string]bool{}}
			key := fmt.Sprintf("%s › mkNode#%d %s", name, n, nt.String())
			okL, okR := p.bound(nt.a, nt.key, -1), p.bound(nt.b, nt.key, +1)
			switch {
			case okL && okR:
				r.OK("T-order", key, w.InstrPos(mk), fmt.Sprintf("left < %s < right proved from the guards and the callees' contracts", nt.key))
			case !okL:
				r.Bad("T-order", key, w.InstrPos(mk), fmt.Sprintf("cannot prove that every key of the left child %s is below the node's key %s: the tree built here need not be a search tree", nt.a, nt.key))
			default:
				r.Bad("T-order", key, w.InstrPos(mk), fmt.Sprintf("cannot prove that every key of the right child %s is above the node's key %s: the tree built here need not be a search tree", nt.b, nt.key))
			}
			// heap order (the equal-key replacement site is exempt by the property itself)
			if strings.HasPrefix(nt.item, "item(SM(") {
				r.OK("T-heap", key, w.InstrPos(mk), "equal-key replacement site: the property exempts overwriting with a lower priority")
				return
			}
			hl, hr := p.ple(nt.a, nt.prio), p.ple(nt.b, nt.prio)
			if hl && hr {
				r.OK("T-heap", key, w.InstrPos(mk), fmt.Sprintf("every priority below is <= %s", nt.prio))
			} else {
				side, ch := "left", nt.a
				if hl {
					side, ch = "right", nt.b
				}
				r.Bad("T-heap", key, w.InstrPos(mk), fmt.Sprintf("cannot prove that the priorities in the %s child %s are <= the node's priority %s: a child may outrank its parent", side, ch, nt.prio))
			}
		})
	}
	r.Floor("T-order", 6)
	r.Floor("T-heap", 6)
}

// successReturns enumerates (path-sensitively) the non-error returns of fn with the
// tree terms of their *nodeLoc results.
type tret struct {
	ret   *ssa.Return
	trees []*tterm
	facts *tfacts
	sig   string
}

func successReturns(w *World, fn *ssa.Function, base *tfacts) []tret {
	var out []tret
	seen := map[string]bool{}
	idx := errResultIndex(fn)
	wk := &Walker{Fn: fn}
	wk.OnInstr = func(env *Env, in ssa.Instruction, trail []*ssa.BasicBlock) bool {
		ret, ok := in.(*ssa.Return)
		if !ok {
			return false
		}
		if idx >= 0 && !isNilConst(env.Resolve(ret.Results[idx])) {
			return true
		}
		x := &textract{w: w, fn: fn, env: env}
		var trees []*tterm
		var parts []string
		for i, rv := range ret.Results {
			if i == idx {
				continue
			}
			if isLibType(rv.Type(), "nodeLoc") {
				t := x.tree(rv)
				trees = append(trees, t)
				parts = append(parts, t.String())
			}
		}
		// facts: of the return block, plus those of every block on the trail (path facts)
		f := base.clone()
		for i, b := range trail {
			bf := x.factsAtBlock(b, newFacts())
			mergeFacts(f, bf)
			// the arm taken out of b on this path (a merge point further on is not dominated by it)
			if i+1 < len(trail) && len(b.Instrs) > 0 {
				if ifi, isIf := b.Instrs[len(b.Instrs)-1].(*ssa.If); isIf && b.Succs[0] != b.Succs[1] {
					for _, cf := range condFacts(ifi.Cond, b.Succs[0] == trail[i+1], 0) {
						x.addFact(f, cf)
					}
				}
			}
		}
		sig := fmt.Sprintf("%d:%s", ret.Block().Index, strings.Join(parts, ";"))
		if seen[sig] {
			return true
		}
		seen[sig] = true
		out = append(out, tret{ret, trees, f, sig})
		return true
	}
	wk.Branch = func(env *Env, ifi *ssa.If) (bool, bool) {
		if x, trueMeansNil, ok := nilTest(ifi.Cond); ok && isErrorType(x.Type()) {
			return trueMeansNil, !trueMeansNil
		}
		return true, true
	}
	wk.Run(nil, nil)
	return out
}

func mergeFacts(dst, src *tfacts) {
	for k, v := range src.keyLT {
		dst.keyLT[k] = v
	}
	for k, v := range src.keyEQ {
		dst.keyEQ[k] = v
	}
	for k, v := range src.prioLE {
		dst.prioLE[k] = v
	}
	for k, v := range src.empty {
		dst.empty[k] = v
	}
	for k, v := range src.nonEmp {
		dst.nonEmp[k] = v
	}
}

func ruleTContracts(w *World, r *Report) {
	const rule = "T-contract"
	for _, name := range treapFns {
		fn := w.Fn(name)
		if fn == nil {
			continue
		}
		params := treeParams(fn)
		rets := successReturns(w, fn, baseFactsFor(name))
		for i, tr := range rets {
			key := fmt.Sprintf("%s › return#%d (%s)", name, i+1, func() string {
				var s []string
				for _, t := range tr.trees {
					s = append(s, t.String())
				}
				return strings.Join(s, ", ")
			}())
			var mentioned []*tterm
			for _, t := range tr.trees {
				collectTrees(t, &mentioned)
			}
			var fails []string
			// hull: whatever bounds all inputs bounds every output (keys from both sides, priorities)
			for _, dir := range []int{-1, +1} {
				f := tr.facts.clone()
				addHullHyp(f, params, mentioned, "κ", dir, "")
				p := &tprover{f: f, busy: map[string]bool{}}
				for j, t := range tr.trees {
					if !p.bound(t, "κ", dir) {
						fails = append(fails, fmt.Sprintf("result %d (%s) is not bounded %s by a key that bounds all inputs", j, t, map[int]string{-1: "above", 1: "below"}[dir]))
					}
				}
			}
			{
				f := tr.facts.clone()
				addHullHyp(f, params, mentioned, "", 0, "π")
				p := &tprover{f: f, busy: map[string]bool{}}
				for j, t := range tr.trees {
					exempt := false
					var sub []*tterm
					collectTrees(t, &sub)
					for _, s := range sub {
						if s.kind == "N" && strings.HasPrefix(s.item, "item(SM(") {
							exempt = true
						}
					}
					if !exempt && !p.ple(t, "π") {
						fails = append(fails, fmt.Sprintf("result %d (%s) is not bounded by a priority that bounds all inputs", j, t))
					}
				}
			}
			// split: left < s < right, middle carries s
			if name == "(*Store).split" && len(tr.trees) == 3 {
				s := "key:" + keyParamName(fn)
				p := &tprover{f: tr.facts, busy: map[string]bool{}}
				if !p.bound(tr.trees[0], s, -1) {
					fails = append(fails, fmt.Sprintf("left result %s is not proved < split key", tr.trees[0]))
				}
				if !p.bound(tr.trees[2], s, +1) {
					fails = append(fails, fmt.Sprintf("right result %s is not proved > split key", tr.trees[2]))
				}
				m := tr.trees[1]
				if !p.isEmpty(m) {
					mk := keyOfTree(m)
					if !(tr.facts.keyRel(mk, s, false) && tr.facts.keyRel(s, mk, false)) {
						fails = append(fails, fmt.Sprintf("middle result %s is not proved to carry exactly the split key", m))
					}
				}
			}
			if len(fails) == 0 {
				r.OK(rule, key, w.InstrPos(tr.ret), "bounds of the results follow from the bounds of the inputs (keys both ways, priorities); split: left < s < right, middle = s")
			} else {
				r.Bad(rule, key, w.InstrPos(tr.ret), strings.Join(fails, "; "))
			}
		}
	}
	// preconditions of join at its call sites
	for _, caller := range []string{"(*Store).join", "(*Collection).Delete"} {
		fn := w.Fn(caller)
		if fn == nil {
			continue
		}
		x := &textract{w: w, fn: fn}
		n := 0
		eachInstr(fn, func(in ssa.Instruction) {
			c, ok := in.(*ssa.Call)
			if !ok || staticCalleeName(c) != "(*Store).join" {
				return
			}
			n++
			a, b := x.tree(c.Common().Args[2]), x.tree(c.Common().Args[3])
			key := fmt.Sprintf("%s › call join#%d(%s, %s) › every key of the first < every key of the second", caller, n, a, b)
			f := x.factsAtBlock(c.Block(), baseFactsFor(caller))
			ok2 := false
			ra, rb := rootOf(a), rootOf(b)
			for _, s := range f.sepHyp {
				if ra != nil && rb != nil && ra.String() == s[0] && rb.String() == s[1] {
					ok2 = true
				}
			}
			if !ok2 {
				// separated by a key: a < k < b
				p := &tprover{f: f, busy: map[string]bool{}}
				var cands []string
				for _, t := range []*tterm{a, b} {
					var sub []*tterm
					collectTrees(t, &sub)
					for _, s := range sub {
						if s.key != "" {
							cands = append(cands, s.key)
						}
					}
				}
				for _, k := range cands {
					if p.bound(a, k, -1) && p.bound(b, k, +1) {
						ok2 = true
					}
				}
			}
			r.Check(ok2, rule, key, w.InstrPos(c), "both parts of ordered inputs / separated by the split key", "join is called on trees that are not proved key-separated: its result need not be a search tree")
		})
	}
	r.Floor(rule, 12)
}

func keyParamName(fn *ssa.Function) string {
	for _, p := range fn.Params {
		if p.Type().String() == "[]byte" {
			return p.Name()
		}
	}
	return "?"
}

// T-lin: nothing is lost or duplicated.
func ruleTLin(w *World, r *Report) {
	const rule = "T-lin"
	for _, name := range treapFns {
		fn := w.Fn(name)
		if fn == nil {
			continue
		}
		params := treeParams(fn)
		for i, tr := range successReturns(w, fn, baseFactsFor(name)) {
			out := map[string]int{}
			for j, t := range tr.trees {
				if name == "(*Store).split" && j == 1 {
					// the middle is a single item, not a subtree
					if t.kind != "E" && !tr.facts.empty[t.String()] {
						if t.kind == "SM" {
							out[t.String()]++
						} else {
							out["item("+t.String()+")"]++
						}
					}
					continue
				}
				atoms(t, out, tr.facts)
			}
			// item(SM(x,k)) is the middle itself
			for a, n := range out {
				if strings.HasPrefix(a, "item(SM(") {
					out[a[5:len(a)-1]] += n
					delete(out, a)
				}
			}
			// fold complete splits; a missing middle is a drop unless known empty
			dropped := map[string]int{}
			for changed := true; changed; {
				changed = false
				for a, n := range out {
					if n <= 0 || !strings.HasPrefix(a, "SL(") {
						continue
					}
					rest := a[3:]
					sm, sr := "SM("+rest, "SR("+rest
					if out[sr] <= 0 {
						continue
					}
					base := rest[:strings.LastIndex(rest, ",")]
					out[a]--
					out[sr]--
					if out[sm] > 0 {
						out[sm]--
					} else if !tr.facts.empty[sm] {
						dropped[sm]++
					}
					out[base]++
					changed = true
				}
			}
			in := map[string]int{}
			for _, p := range params {
				in[p]++
			}
			// expand inputs that the outputs take apart
			mentions := func(prefix string) bool {
				for a, n := range out {
					if n > 0 && strings.HasPrefix(a, prefix) {
						return true
					}
				}
				return false
			}
			for changed := true; changed; {
				changed = false
				for a, n := range in {
					if n > 0 && (out[a] == 0) && (mentions("item("+a+")") || mentions("L("+a+")") || mentions("R("+a+")")) {
						in[a] -= n
						in["item("+a+")"] += n
						in["L("+a+")"] += n
						in["R("+a+")"] += n
						changed = true
					}
				}
			}
			for a, n := range out {
				if n == 0 {
					delete(out, a)
				}
			}
			for a, n := range in {
				if n == 0 {
					delete(in, a)
				}
			}
			// empty parts do not count
			for a := range in {
				if tr.facts.empty[a] {
					delete(in, a)
				}
			}
			var missing, extra []string
			for a, n := range in {
				if out[a] < n {
					missing = append(missing, a)
				}
			}
			for a, n := range out {
				if in[a] < n {
					extra = append(extra, a)
				}
			}
			for a := range dropped {
				missing = append(missing, a)
			}
			sort.Strings(missing)
			sort.Strings(extra)
			// legitimate drops: the loser of an equal-key union
			var badMissing []string
			usesMiddleOfThat := false
			for _, t := range tr.trees {
				var sub []*tterm
				collectTrees(t, &sub)
				for _, s := range sub {
					if s.kind == "N" && strings.HasPrefix(s.item, "item(SM(that") {
						usesMiddleOfThat = true
					}
				}
			}
			for _, m := range missing {
				switch {
				case name == "(*Store).union" && m == "item(this)" && usesMiddleOfThat:
				case name == "(*Store).union" && strings.HasPrefix(m, "SM(this,"):
				default:
					badMissing = append(badMissing, m)
				}
			}
			key := fmt.Sprintf("%s › return#%d content", name, i+1)
			switch {
			case len(badMissing) > 0:
				r.Bad(rule, key, w.InstrPos(tr.ret), fmt.Sprintf("part of the input is not in the result: %v (inputs %s, outputs %s): items are lost", badMissing, atomString(in), atomString(out)))
			case len(extra) > 0:
				r.Bad(rule, key, w.InstrPos(tr.ret), fmt.Sprintf("the result contains %v more often than the input does (inputs %s, outputs %s): a subtree is used twice", extra, atomString(in), atomString(out)))
			default:
				r.OK(rule, key, w.InstrPos(tr.ret), fmt.Sprintf("outputs %s = inputs %s (legitimate drops: %v)", atomString(out), atomString(in), missing))
			}
		}
	}
	r.Floor(rule, 12)
}

// T-agg: exact aggregates at every constructed node.
func ruleTAgg(w *World, r *Report) {
	const rule = "T-agg"
	n := 0
	for _, fn := range w.Funcs {
		if !w.InLib(fn) {
			continue
		}
		eachInstr(fn, func(in ssa.Instruction) {
			mk, ok := in.(*ssa.Call)
			if !ok || staticCalleeName(mk) != "(*Collection).mkNode" {
				return
			}
			n++
			a := mk.Common().Args // t, item, left, right, num, bytes
			key := fmt.Sprintf("%s › mkNode#%d aggregates", w.Name(fn), n)
			if isNilConst(a[2]) && isNilConst(a[3]) {
				k, isK := constInt(a[4])
				r.Check(isK && k == 1, rule, key, w.InstrPos(mk), "leaf: count 1 (bytes checked by C17 K6)", "a leaf node is created with a count other than 1")
				return
			}
			// num = x + y + 1, bytes = xb + yb + uint64(item.NumBytes(t)) with (x,xb,y,yb) = numInfo(o, L, R)
			var info *ssa.Call
			numOK, bytesOK := false, false
			terms := sumTerms(a[4])
			var one int
			var exN []*ssa.Extract
			for _, t := range terms {
				if k, isK := constInt(t); isK && k == 1 {
					one++
				} else if ex, isEx := t.(*ssa.Extract); isEx {
					exN = append(exN, ex)
				}
			}
			if one == 1 && len(exN) == 2 && len(terms) == 3 && exN[0].Tuple == exN[1].Tuple {
				if c, isC := exN[0].Tuple.(*ssa.Call); isC && staticCalleeName(c) == "numInfo" {
					idx := map[int]bool{exN[0].Index: true, exN[1].Index: true}
					if idx[0] && idx[2] {
						info, numOK = c, true
					}
				}
			}
			bt := sumTerms(a[5])
			var exB []*ssa.Extract
			var nb *ssa.Call
			for _, t := range bt {
				if ex, isEx := t.(*ssa.Extract); isEx {
					exB = append(exB, ex)
				} else if cv, isCv := t.(*ssa.Convert); isCv {
					if c, isC := cv.X.(*ssa.Call); isC && staticCalleeName(c) == "(*itemLoc).NumBytes" {
						nb = c
					}
				}
			}
			if len(bt) == 3 && len(exB) == 2 && nb != nil && info != nil && exB[0].Tuple == ssa.Value(info) && exB[1].Tuple == ssa.Value(info) {
				idx := map[int]bool{exB[0].Index: true, exB[1].Index: true}
				if idx[1] && idx[3] && sameVal(nb.Common().Args[0], a[1]) {
					bytesOK = true
				}
			}
			childOK := info != nil && sameVal(info.Common().Args[1], a[2]) && sameVal(info.Common().Args[2], a[3])
			switch {
			case !numOK:
				r.Bad(rule, key, w.InstrPos(mk), "the item count is not leftNum + rightNum + 1 of one numInfo call")
			case !bytesOK:
				r.Bad(rule, key, w.InstrPos(mk), "the byte total is not leftBytes + rightBytes + NumBytes of the node's own item handle")
			case !childOK:
				r.Bad(rule, key, w.InstrPos(mk), "numInfo was asked about other children than the ones given to mkNode (or in the other order)")
			default:
				r.OK(rule, key, w.InstrPos(mk), "num = numInfo(L,R).leftNum + rightNum + 1; bytes = leftBytes + rightBytes + item.NumBytes; same L, R, item as the node")
			}
		})
	}
	// numInfo itself reads the aggregates of the nodes it is given
	if ni := w.Fn("numInfo"); ni != nil {
		ok := true
		var why string
		eachInstr(ni, func(in ssa.Instruction) {
			ret, isRet := in.(*ssa.Return)
			if !isRet || !isNilConst(ret.Results[4]) {
				return
			}
			want := []struct{ field, side string }{{"numNodes", "left"}, {"numBytes", "left"}, {"numNodes", "right"}, {"numBytes", "right"}}
			for i, wv := range want {
				if !numInfoResultOK(ret.Results[i], wv.field, ni, i/2) {
					ok, why = false, fmt.Sprintf("result %d is not (0 | %sNode.%s)", i, wv.side, wv.field)
				}
			}
		})
		r.Check(ok, rule, "numInfo › returns the children's stored aggregates", w.Pos(ni.Pos()), "(left.numNodes, left.numBytes, right.numNodes, right.numBytes), zero for an empty child", why)
	}
	// the node encoder persists exactly these two fields (C14 Y3) and mkNode stores its arguments
	if mk := w.Fn("(*Collection).mkNode"); mk != nil {
		okN, okB := false, false
		eachInstr(mk, func(in ssa.Instruction) {
			if st, _, ok := isStoreToField(in, "node", "numNodes"); ok && st.Val == ssa.Value(mk.Params[4]) {
				okN = true
			}
			if st, _, ok := isStoreToField(in, "node", "numBytes"); ok && st.Val == ssa.Value(mk.Params[5]) {
				okB = true
			}
		})
		r.Check(okN && okB, rule, "(*Collection).mkNode › stores the aggregates it is given", w.Pos(mk.Pos()), "n.numNodes = numNodesIn; n.numBytes = numBytesIn", "mkNode does not store the count/bytes arguments into the node")
	}
	r.Floor(rule, 9)
}

func sumTerms(v ssa.Value) []ssa.Value {
	// a term that was carried in a field of a local struct is the value stored there
	if r := resolveAgg(v, 0); r != v {
		return sumTerms(r)
	}
	if b, ok := v.(*ssa.BinOp); ok && b.Op == token.ADD {
		return append(sumTerms(b.X), sumTerms(b.Y)...)
	}
	if cv, ok := v.(*ssa.Convert); ok {
		if r := resolveAgg(cv.X, 0); r != cv.X {
			if _, isSum := r.(*ssa.BinOp); isSum {
				return sumTerms(r)
			}
		}
	}
	return []ssa.Value{v}
}

// numInfoResultOK: v is φ(0, load <side>Node.<field>) where <side>Node is the read of
// parameter #(1+side).
func numInfoResultOK(v ssa.Value, field string, ni *ssa.Function, side int) bool {
	ok := false
	var chk func(v ssa.Value, d int) bool
	chk = func(v ssa.Value, d int) bool {
		if d > 3 {
			return false
		}
		if k, isK := constInt(v); isK && k == 0 {
			return true
		}
		if base, isLd := isLoadOfField(v, "node", field); isLd {
			if c := callOfValue(base); c != nil && staticCalleeName(c) == "(*nodeLoc).read" && c.Common().Args[0] == ssa.Value(ni.Params[1+side]) {
				ok = true
				return true
			}
			return false
		}
		if ph, isPhi := v.(*ssa.Phi); isPhi {
			for _, e := range ph.Edges {
				if !chk(e, d+1) {
					return false
				}
			}
			return true
		}
		return false
	}
	return chk(v, 0) && ok
}

func init() {
	register(&Property{
		ID:    "C13",
		Level: "other",
		Rules: []Rule{{"T-order/T-heap", ruleTOrderHeap}, {"T-contract", ruleTContracts}, {"T-lin", ruleTLin}, {"T-agg", ruleTAgg}, {"V4", ruleV2}, {"Y3", ruleLayoutNode}, {"W1", ruleW1}, {"K1", ruleK1}, {"K6", ruleK6}, {"V8", ruleV8}, {"S1c", ruleS1c}, {"E3b", ruleE3b}},
		Explanation: "An assume/guarantee argument by induction on tree height, checked per function with a small closure prover over symbolic tree terms extracted from the SSA (parameter trees, L/R parts, the three results of split, results of union/join, constructed nodes) and order/priority/emptiness facts read off the dominating guards (three-way comparator dispatch, priority test, isEmpty/nil tests). T-order: at every mkNode site of union/split/join every key of the left child is below and every key of the right child above the node's key. T-heap: every priority below a constructed node is <= the node's (the equal-key replacement site is exempt, as the property says). T-contract: at every success return the results are bounded by whatever bounds the inputs (keys from both sides, priorities), split returns left < s < right with the middle carrying s, and every call of join is on key-separated trees. T-lin: the multiset of items/subtrees in the results equals that of the inputs (only the equal-key loser is dropped). T-agg: every constructed node carries numInfo(L,R) sums + 1 and + its own item's bytes for exactly its children and item; numInfo reads the children's stored aggregates; mkNode stores them; the encoder persists them (Y3). V4 reported depth = recursion depth. Hence every published tree is a search tree with exact aggregates and heap order, for all inputs and histories, GIVEN that nodes read back are the nodes written (C14, C02) and the comparator is a strict weak order. Uniqueness of shape for distinct priorities is the standard consequence and is not re-derived.",
		Assumptions: []string{"comparator is a strict weak order (documented contract of KeyCompare)", "nodes read back are the nodes written (C14/C02)", "eviction does not change structure (C05 W1)"},
		ControlSrc:   "package gkvlite\n",
		ControlEdits: []ControlEdit{{"Store.join", "if reclaimMark == nil { this, that = that, this }"}},
		Expect:       []Expect{{"T-order", "(*Store).join"}},
	})
}

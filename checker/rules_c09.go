package main

// C09 — the file is append-only and read paths never write (DESIGN §4 C09).

import (
	"fmt"
	"sort"
	"go/token"
	"strings"

	"golang.org/x/tools/go/ssa"
)

func family(fn *ssa.Function) []*ssa.Function {
	out := []*ssa.Function{fn}
	for _, a := range fn.AnonFuncs {
		out = append(out, family(a)...)
	}
	return out
}

// ruleAWho: no FILE-WRITE sink is reachable from any exported entry outside the writer set.
func ruleAWho(w *World, r *Report) {
	const rule = "A-who"
	nw, nt := 0, 0
	for _, s := range w.G.Sinks {
		if w.InLib(s.Fn) {
			switch s.Method {
			case "WriteAt":
				nw++
			case "Truncate":
				nt++
			}
		}
	}
	r.Info["write_sinks"] = func() []string {
		var l []string
		for _, s := range w.G.Sinks {
			if s.Method == "WriteAt" || s.Method == "Truncate" {
				l = append(l, fmt.Sprintf("%s (%s on %s) @ %s; reachable from API: %s", w.G.SinkName(s), s.Method, s.Recv, w.InstrPos(s.Instr), strings.Join(w.entriesReaching(s.Fn), ", ")))
			}
		}
		return l
	}()
	if nw == 0 {
		r.Unknown(rule, "no WriteAt sink found in the library", "-", "the sink recogniser matched nothing: a store that never writes cannot be what was analysed")
	}
	for _, e := range w.Exported() {
		name := w.Name(e)
		reach := w.entryReach()[e]
		_, isWriter := writerAPI[name]
		_, isTrunc := truncAPI[name]
		var badW, badT *Sink
		for _, s := range w.G.Sinks {
			if !reach.Set[s.Fn] {
				continue
			}
			if s.Method == "WriteAt" && badW == nil {
				badW = s
			}
			if s.Method == "Truncate" && badT == nil {
				badT = s
			}
		}
		switch {
		case isWriter:
			// writers may write; none may truncate
			if badT != nil {
				r.Bad(rule, name+" ↛ Truncate", w.Pos(e.Pos()), "writer API reaches a Truncate sink: "+w.G.SinkName(badT), append(reach.Path(badT.Fn), "sink "+w.G.SinkName(badT)+" @ "+w.InstrPos(badT.Instr))...)
			} else {
				r.OK(rule, name+" ↛ Truncate", w.Pos(e.Pos()), "writer API ("+writerAPI[name]+"); no Truncate reachable")
			}
		case mutatorAPI[name]:
			// not constrained by the property; reported for the record, and still never truncating
			if badT != nil {
				r.Bad(rule, name+" ↛ Truncate", w.Pos(e.Pos()), "in-memory mutator reaches a Truncate sink", append(reach.Path(badT.Fn), "sink "+w.G.SinkName(badT))...)
			} else {
				d := "in-memory mutator: no Truncate reachable"
				if badW != nil {
					d += "; NOTE reaches WriteAt " + w.G.SinkName(badW) + " (not forbidden by the property; offsets are decided by A-off)"
				}
				r.OK(rule, name+" ↛ Truncate", w.Pos(e.Pos()), d)
			}
		default:
			if badW != nil {
				r.Bad(rule, name+" ↛ WriteAt", w.Pos(e.Pos()), "read-style API reaches a file write: "+w.G.SinkName(badW), append(reach.Path(badW.Fn), "sink "+w.G.SinkName(badW)+" @ "+w.InstrPos(badW.Instr))...)
			} else {
				r.OK(rule, name+" ↛ WriteAt", w.Pos(e.Pos()), fmt.Sprintf("read-style API; %d functions reachable, none contains a WriteAt sink", len(reach.Set)))
			}
			if isTrunc {
				continue // Truncate is FlushRevert's job (A-trunc decides how)
			}
			if badT != nil {
				r.Bad(rule, name+" ↛ Truncate", w.Pos(e.Pos()), "API other than FlushRevert reaches a Truncate sink", append(reach.Path(badT.Fn), "sink "+w.G.SinkName(badT)+" @ "+w.InstrPos(badT.Instr))...)
			} else {
				r.OK(rule, name+" ↛ Truncate", w.Pos(e.Pos()), "no Truncate reachable")
			}
		}
	}
	r.Floor(rule, 60)
	// closed-world premises of the graph
	if len(w.G.Escapes) > 0 {
		sort.Strings(w.G.Escapes)
		for _, e := range w.G.Escapes {
			r.Unknown("A-closed", "function value escapes: "+e, "-", "lexical attribution of closure effects is only sound if function values flow into calls only")
		}
	} else {
		r.OK("A-closed", "function values flow only into calls/defer/go", "-", "lexical attribution of closure effects is sound")
	}
	checkClosedWorld(w, r)
}

// checkClosedWorld: reflect ⊆ {ValueOf, Value.Elem, Value.IsValid}; no unsafe / linkname / cgo.
func checkClosedWorld(w *World, r *Report) {
	allowed := map[string]bool{"reflect.ValueOf": true, "(reflect.Value).Elem": true, "(reflect.Value).IsValid": true}
	bad := false
	for _, fn := range w.Funcs {
		if !w.InLib(fn) {
			continue
		}
		for _, x := range w.G.Ext[fn] {
			n := x.Callee.String()
			if x.Callee.Name() == "init" {
				continue // package initialiser chain
			}
			if strings.HasPrefix(n, "reflect.") || strings.HasPrefix(n, "(reflect.") || strings.HasPrefix(n, "(*reflect.") {
				if !allowed[n] {
					bad = true
					r.Unknown("A-closed", "reflect use "+n+" in "+w.Name(fn), w.InstrPos(x.Instr), "reflection beyond ValueOf/Elem/IsValid can call or mutate behind the call graph")
				}
			}
			if strings.HasPrefix(n, "unsafe.") || strings.HasPrefix(n, "plugin.") {
				bad = true
				r.Unknown("A-closed", n+" in "+w.Name(fn), w.InstrPos(x.Instr), "unsafe/plugin defeats the call graph")
			}
		}
	}
	for _, p := range w.Pkgs {
		if p.PkgPath != modPath {
			continue
		}
		for imp := range p.Imports {
			if imp == "unsafe" || imp == "C" || imp == "plugin" {
				bad = true
				r.Unknown("A-closed", "import "+imp, "-", "defeats the call graph")
			}
		}
		for _, f := range p.Syntax {
			for _, cg := range f.Comments {
				for _, c := range cg.List {
					if strings.HasPrefix(c.Text, "//go:linkname") {
						bad = true
						r.Unknown("A-closed", "go:linkname directive", w.Pos(c.Pos()), "defeats the call graph")
					}
				}
			}
		}
	}
	if !bad {
		r.OK("A-closed", "reflect ⊆ {ValueOf, Elem, IsValid}; no unsafe, cgo, plugin, linkname", "-", "closed world holds")
	}
}

// ruleATool: tools/view only reads.
func ruleATool(w *World, r *Report) {
	const rule = "A-tool"
	mainFn := w.Fn("tools/view.main")
	if mainFn == nil {
		r.Note("tools/view not present; A-tool has no instance")
		return
	}
	reach := w.G.ReachFrom(mainFn)
	var bad *Sink
	for _, s := range w.G.Sinks {
		if reach.Set[s.Fn] && (s.Method == "WriteAt" || s.Method == "Truncate") {
			bad = s
			break
		}
	}
	if bad != nil {
		r.Bad(rule, "tools/view.main ↛ write sink", w.Pos(mainFn.Pos()), "the viewer reaches "+w.G.SinkName(bad), reach.Path(bad.Fn)...)
	} else {
		r.OK(rule, "tools/view.main ↛ write sink", w.Pos(mainFn.Pos()), fmt.Sprintf("%d functions reachable, no WriteAt/Truncate", len(reach.Set)))
	}
	mutating := []string{"os.Create", "os.OpenFile", "os.WriteFile", "os.Remove", "os.RemoveAll", "os.Rename", "os.Truncate", "(*os.File).Write", "(*os.File).WriteAt", "(*os.File).WriteString", "(*os.File).Truncate", "io/ioutil.WriteFile", "os.Mkdir", "os.MkdirAll"}
	ok := true
	for fn := range reach.Set {
		if w.InLib(fn) {
			continue
		}
		for _, x := range w.G.Ext[fn] {
			for _, m := range mutating {
				if x.Callee.String() == m {
					ok = false
					r.Bad(rule, "tools/view › "+w.Name(fn)+" › call "+m, w.InstrPos(x.Instr), "the viewer calls a file-mutating os function")
				}
			}
		}
	}
	if ok {
		r.OK(rule, "tools/view › no mutating os call", w.Pos(mainFn.Pos()), "no call of os.Create/OpenFile/Write*/Truncate/Remove/Rename in the viewer")
	}
}

// ruleASrc: in CopyTo every call on a receiver derived from the source store targets
// a function that neither writes the file nor publishes a new version / collection map.
func ruleASrc(w *World, r *Report) {
	const rule = "A-src"
	copyTo := w.Fn("(*Store).CopyTo")
	if copyTo == nil {
		r.Unknown(rule, "anchor (*Store).CopyTo", "-", "exported API not found")
		return
	}
	srcParam := copyTo.Params[0]
	n := 0
	for _, fn := range family(copyTo) {
		ord := map[string]int{}
		eachInstr(fn, func(in ssa.Instruction) {
			call, ok := in.(ssa.CallInstruction)
			if !ok {
				return
			}
			callee := call.Common().StaticCallee()
			if callee == nil || !w.InLib(callee) || callee.Signature.Recv() == nil || len(call.Common().Args) == 0 {
				return
			}
			recv := call.Common().Args[0]
			roots := w.Roots(recv, true)
			src, dst, other := false, false, false
			var desc []string
			for _, rt := range roots {
				desc = append(desc, rt.String())
				switch {
				case rt.Kind == "param" && rt.Val == srcParam:
					src = true
				case (rt.Kind == "call") && (w.Name(rt.Fn) == "NewStore" || w.Name(rt.Fn) == "NewStoreEx"):
					dst = true
				case rt.Kind == "const" || rt.Kind == "alloc":
				default:
					other = true
				}
			}
			cn := w.Name(callee)
			ord[cn]++
			key := fmt.Sprintf("%s › call %s#%d", w.Name(fn), cn, ord[cn])
			if !src && !other {
				return // destination-derived receiver: unconstrained
			}
			n++
			if other && !src {
				// receiver of unknown origin: must be read-style as well, conservatively
			}
			_ = dst
			reach := w.G.ReachFrom(callee)
			for _, s := range w.G.Sinks {
				if reach.Set[s.Fn] && (s.Method == "WriteAt" || s.Method == "Truncate") {
					r.Bad(rule, key, w.InstrPos(in), fmt.Sprintf("receiver derives from the CopyTo source (%s) but the callee reaches file write %s", strings.Join(desc, "; "), w.G.SinkName(s)), reach.Path(s.Fn)...)
					return
				}
			}
			for f := range reach.Set {
				if site := firstMutation(w, f); site != nil {
					r.Bad(rule, key, w.InstrPos(in), fmt.Sprintf("receiver derives from the CopyTo source (%s) but the callee mutates it: %s in %s", strings.Join(desc, "; "), site.String(), w.Name(f)), append(reach.Path(f), "mutation @ "+w.InstrPos(site))...)
					return
				}
			}
			r.OK(rule, key, w.InstrPos(in), "source-derived receiver ("+strings.Join(desc, "; ")+"); callee is read-style (no write sink, no publish)")
		})
	}
	_ = n
	r.Floor(rule, 4)
}

// firstMutation: a store that publishes a new version (Collection.root on a non-fresh
// collection) or a new collection map (Store.coll on a non-fresh store), or closes.
func firstMutation(w *World, f *ssa.Function) ssa.Instruction {
	var hit ssa.Instruction
	eachInstr(f, func(in ssa.Instruction) {
		if hit != nil {
			return
		}
		if st, base, ok := isStoreToField(in, "Collection", "root"); ok && !isFresh(base) {
			hit = st
		}
		if st, base, ok := isStoreToField(in, "Store", "coll"); ok && !isFresh(base) {
			hit = st
		}
	})
	return hit
}

// ruleAOff: the offset operand of every library WriteAt derives from an atomic load of
// Store.size made in the same write operation plus non-negative terms.
func ruleAOff(w *World, r *Report) {
	const rule = "A-off"
	for _, s := range w.G.Sinks {
		if s.Method != "WriteAt" || !w.InLib(s.Fn) {
			continue
		}
		key := w.G.SinkName(s) + " › offset"
		off := s.Instr.Common().Args[1]
		ok, why := w.offsetFromSize(s.Fn, off, 0)
		r.Check(ok, rule, key, w.InstrPos(s.Instr), why, why)
	}
	r.Floor(rule, 3)
}

// offsetFromSize: v = sizeLoad [+ nonneg]*, or a parameter whose every in-module call
// site argument is such (the exported dispatch wrapper ItemValWrite is the only case).
func (w *World) offsetFromSize(fn *ssa.Function, v ssa.Value, depth int) (bool, string) {
	if depth > 6 {
		return false, "offset derivation too deep"
	}
	v = unwrap(v)
	if w.isSizeLoad(v) {
		return true, "offset is an atomic load of Store.size"
	}
	switch x := v.(type) {
	case *ssa.BinOp:
		if x.Op == token.ADD {
			if ok, _ := w.offsetFromSize(fn, x.X, depth+1); ok && w.nonNeg(x.Y, 0) {
				return true, "offset = size-derived + non-negative term"
			}
			if ok, _ := w.offsetFromSize(fn, x.Y, depth+1); ok && w.nonNeg(x.X, 0) {
				return true, "offset = non-negative term + size-derived"
			}
		}
		return false, fmt.Sprintf("offset computed by %s of terms not provably (Store.size + non-negative)", x.Op)
	case *ssa.Convert:
		return w.offsetFromSize(fn, x.X, depth+1)
	case *ssa.Phi:
		for _, e := range x.Edges {
			if ok, why := w.offsetFromSize(fn, e, depth+1); !ok {
				return false, why
			}
		}
		return true, "every incoming offset is size-derived"
	case *ssa.Parameter:
		idx := -1
		for i, p := range fn.Params {
			if p == x {
				idx = i
			}
		}
		sites := 0
		for _, e := range w.G.In[fn] {
			call, ok := e.Site.(ssa.CallInstruction)
			if !ok || e.Kind != "static" {
				return false, "offset is a parameter of a function whose value is taken"
			}
			sites++
			if ok2, why := w.offsetFromSize(e.From, call.Common().Args[idx], depth+1); !ok2 {
				return false, fmt.Sprintf("call site in %s passes an offset that is not size-derived: %s", w.Name(e.From), why)
			}
		}
		if sites == 0 {
			return false, "offset is a parameter with no in-module call site"
		}
		return true, fmt.Sprintf("offset is a parameter; all %d in-module call sites pass Store.size + non-negative term (external callers of the exported wrapper write by definition)", sites)
	}
	return false, fmt.Sprintf("offset of unrecognised origin (%T %s)", v, v)
}

// ruleAMono: on the write path Store.size only grows: every write to it in a function
// reachable from an API other than open/FlushRevert is  size-load + non-negative.
func ruleAMono(w *World, r *Report) {
	const rule = "A-mono"
	for _, fn := range w.Funcs {
		if !w.InLib(fn) {
			continue
		}
		ws := w.sizeWritesIn(fn)
		if len(ws) == 0 {
			continue
		}
		if _, isSetter := w.sizeSetters()[fn]; isSetter {
			continue // judged at its call sites
		}
		entries := w.entriesReachingNoOpen(fn)
		onlyOpenRevert := subsetOf(entries, openAPI, keysBool(truncAPI))
		for i, sw := range ws {
			key := fmt.Sprintf("%s › size-write#%d", w.Name(fn), i+1)
			if st, ok := sw.Instr.(*ssa.Store); ok {
				if base, ok := isFieldAddr(st.Addr, "Store", "size"); ok && isFresh(base) {
					r.OK(rule, key, w.InstrPos(sw.Instr), "initialises the size of a Store allocated in this function (not yet shared)")
					continue
				}
			}
			if onlyOpenRevert {
				r.OK(rule, key, w.InstrPos(sw.Instr), "cursor movement in a function reachable only from open / FlushRevert: "+strings.Join(entries, ", "))
				continue
			}
			if sw.Kind != "store" {
				r.Bad(rule, key, w.InstrPos(sw.Instr), fmt.Sprintf("%s of Store.size on a path reachable from %s: only 'size = loaded size + n' is allowed there", sw.Kind, strings.Join(entries, ", ")))
				continue
			}
			ok, why := w.grownFromSize(sw.Val)
			r.Check(ok, rule, key, w.InstrPos(sw.Instr), why, why+"; reachable from "+strings.Join(entries, ", "))
		}
	}
	r.Floor(rule, 5)
}

func (w *World) grownFromSize(v ssa.Value) (bool, string) {
	v = unwrap(v)
	if b, ok := v.(*ssa.BinOp); ok && b.Op == token.ADD {
		if w.isSizeLoad(b.X) && w.nonNeg(b.Y, 0) || w.isSizeLoad(b.Y) && w.nonNeg(b.X, 0) {
			return true, "new size = loaded size + non-negative length"
		}
	}
	return false, fmt.Sprintf("new size %s is not (atomic load of Store.size) + non-negative term", v)
}

// ruleATruncWho: Truncate sinks live only in functions reachable from FlushRevert alone.
func ruleATruncWho(w *World, r *Report) {
	const rule = "A-trunc"
	for _, s := range w.G.Sinks {
		if s.Method != "Truncate" || !w.InLib(s.Fn) {
			continue
		}
		entries := w.entriesReaching(s.Fn)
		ok := subsetOf(entries, keysBool(truncAPI)) && len(entries) > 0
		r.Check(ok, rule, w.G.SinkName(s)+" › who", w.InstrPos(s.Instr), "reachable from FlushRevert only", "Truncate reachable from: "+strings.Join(entries, ", "))
		checkTruncateGuards(w, r, rule, s)
	}
	r.Floor(rule, 1)
}

func init() {
	register(&Property{
		ID:    "C09",
		Level: "proof",
		Rules: []Rule{{"A-who", ruleAWho}, {"A-tool", ruleATool}, {"A-src", ruleASrc}, {"A-off", ruleAOff}, {"A-mono", ruleAMono}, {"A-trunc", ruleATruncWho}, {"O3", ruleO3}, {"O5", ruleO5}, {"G1", ruleG1}, {"O3c", ruleO3c}},
		Explanation: "Who-may-call proof over the whole-program call graph of /repo's current source: no exported read-style API (open, lookups, visits, iterators, eviction, snapshot, close, collection management, JSON, stats) can reach a WriteAt or Truncate file sink on any call path; Truncate is reachable from FlushRevert only, behind the read-only test and only after a successful scan, with the scanned size as argument; in CopyTo every call on a source-derived receiver is read-style; every WriteAt offset is an atomic load of Store.size plus non-negative terms, and on the write path Store.size is only ever set to (loaded size + non-negative length). The graph over-approximates all call paths (static + CHA + lexical closure attribution; callback points are user code). Not decided: that Store.size at open equals the end of the last durable root record (value-level premise, structural part is atom A9 of C03).",
		Assumptions: []string{"user-supplied callbacks and StoreFile implementations are outside the library", "function values flow only into calls (checked: A-closed)", "no reflection/unsafe beyond the allowed set (checked: A-closed)"},
		Trusted:     []string{"non-negativity lattice: len/cap/copy, non-negative constants, unsigned widening, sums/products"},
		ControlSrc:  controlC09,
		Expect: []Expect{
			{"A-who", "ZzCtlPeek ↛ WriteAt"},
			{"A-who", "ZzCtlTidy ↛ Truncate"},
			{"A-off", "zzCtlRewriteHeader"},
			{"A-mono", "ZzCtlFlush2"},
		},
	})
}

const controlC09 = `package gkvlite

import "sync/atomic"

// positive controls for C09 (never part of /repo)
func (s *Store) ZzCtlPeek() error { // read-style API that writes
	_, err := s.file.WriteAt([]byte{0}, atomic.LoadInt64(&s.size))
	return err
}

func (s *Store) ZzCtlTidy() error { // API other than FlushRevert that truncates
	return s.file.Truncate(0)
}

func (s *Store) zzCtlRewriteHeader(at int64) error { // in-place write at a stored offset, shrinking size
	_, err := s.file.WriteAt([]byte{1}, at)
	atomic.StoreInt64(&s.size, at)
	return err
}

func (s *Store) ZzCtlFlush2() error {
	if err := s.Flush(); err != nil {
		return err
	}
	return s.zzCtlRewriteHeader(16)
}
`

package main

// C02 / C03 — the commit protocol of Flush and the validation performed on open
// (DESIGN §4 C02, C03): O1 root record last, O2 single commit point, O3 size advanced
// only after success with the right operand, O4 items before nodes / children before
// parent / nothing skipped, O5 reader validates every framing field, O6 version
// agreement, O7 every pinned collection written.

import (
	"fmt"
	"go/token"
	"sort"
	"strings"

	"golang.org/x/tools/go/ssa"
)

type writeRoles struct {
	valWriter, rootWriter, itemWriter, nodeWriter *ssa.Function
	itemPass, nodePass, writeBoth                 *ssa.Function
	writeBothAll                                  []*ssa.Function
	problems                                      []string
}

func refsGlobal(fn *ssa.Function, name string) bool {
	found := false
	eachInstr(fn, func(in ssa.Instruction) {
		for _, op := range in.Operands(nil) {
			if g, ok := (*op).(*ssa.Global); ok && g.Name() == name {
				found = true
			}
		}
	})
	return found
}

func callsFn(fn, callee *ssa.Function) bool {
	if fn == nil || callee == nil {
		return false
	}
	found := false
	eachInstr(fn, func(in ssa.Instruction) {
		if c, ok := in.(ssa.CallInstruction); ok && c.Common().StaticCallee() == callee {
			found = true
		}
	})
	return found
}

func (w *World) writeRoles() *writeRoles {
	if v, ok := w.cache["writeRoles"]; ok {
		return v.(*writeRoles)
	}
	ro := &writeRoles{}
	ro.valWriter = w.Fn("(*Store).ItemValWrite")
	var writers []*ssa.Function
	for _, s := range w.G.Sinks {
		if s.Method == "WriteAt" && w.InLib(s.Fn) && s.Fn != ro.valWriter {
			dup := false
			for _, x := range writers {
				if x == s.Fn {
					dup = true
				}
			}
			if !dup {
				writers = append(writers, s.Fn)
			}
		}
	}
	for _, f := range writers {
		switch {
		case refsGlobal(f, "MagicBeg") && refsGlobal(f, "MagicEnd"):
			ro.rootWriter = f
		case callsFn(f, ro.valWriter):
			ro.itemWriter = f
		default:
			if ro.nodeWriter != nil {
				ro.problems = append(ro.problems, "more than one candidate node writer: "+w.Name(ro.nodeWriter)+", "+w.Name(f))
			}
			ro.nodeWriter = f
		}
	}
	for _, f := range w.Funcs {
		if !w.InLib(f) {
			continue
		}
		rec := callsFn(f, f)
		if rec && callsFn(f, ro.itemWriter) {
			ro.itemPass = f
		}
		if rec && callsFn(f, ro.nodeWriter) {
			ro.nodePass = f
		}
	}
	for _, f := range w.Funcs {
		if w.InLib(f) && ro.itemPass != nil && ro.nodePass != nil && callsFn(f, ro.itemPass) && callsFn(f, ro.nodePass) && f != ro.itemPass && f != ro.nodePass {
			// every function that runs both passes itself is a "write of one collection": the
			// unexported write(root) today; Flush and Write themselves once it is inlined
			ro.writeBothAll = append(ro.writeBothAll, f)
		}
	}
	for _, f := range ro.writeBothAll {
		if ro.writeBoth == nil || w.Name(f) == "(*Collection).write" {
			ro.writeBoth = f
		}
	}
	for name, f := range map[string]*ssa.Function{"value writer": ro.valWriter, "root-record writer": ro.rootWriter, "item writer": ro.itemWriter, "node writer": ro.nodeWriter, "item pass": ro.itemPass, "node pass": ro.nodePass, "write(items then nodes)": ro.writeBoth} {
		if f == nil {
			ro.problems = append(ro.problems, "role not resolved: "+name)
		}
	}
	sort.Strings(ro.problems)
	w.cache["writeRoles"] = ro
	return ro
}

// isDataWrite: call c (inside fn) writes one collection's tree: a call of a function that
// runs both passes, or — when fn runs the passes itself — the node pass.
func (ro *writeRoles) isDataWrite(c *ssa.Call, fn *ssa.Function) bool {
	callee := c.Common().StaticCallee()
	if callee == nil {
		return false
	}
	for _, f := range ro.writeBothAll {
		if callee == f && f != fn {
			return true
		}
	}
	for _, f := range ro.writeBothAll {
		if f == fn && callee == ro.nodePass {
			return true
		}
	}
	return false
}

func rolesOrFail(w *World, r *Report, rule string) *writeRoles {
	ro := w.writeRoles()
	if len(ro.problems) > 0 {
		r.Unknown(rule, "write-path roles", "-", strings.Join(ro.problems, "; "))
		return nil
	}
	r.Info["roles"] = map[string]string{"value writer": w.Name(ro.valWriter), "root-record writer": w.Name(ro.rootWriter), "item writer": w.Name(ro.itemWriter), "node writer": w.Name(ro.nodeWriter), "item pass": w.Name(ro.itemPass), "node pass": w.Name(ro.nodePass), "write": w.Name(ro.writeBoth)}
	return ro
}

// O1: Flush returns success only through the root-record writer, which comes last.
func ruleO1(w *World, r *Report) {
	const rule = "O1"
	ro := rolesOrFail(w, r, rule)
	flush := w.Fn("(*Store).Flush")
	if ro == nil || flush == nil {
		return
	}
	var rootCalls []*ssa.Call
	eachInstr(flush, func(in ssa.Instruction) {
		if c, ok := in.(*ssa.Call); ok && c.Common().StaticCallee() == ro.rootWriter {
			rootCalls = append(rootCalls, c)
		}
	})
	r.Check(len(rootCalls) == 1, rule, "(*Store).Flush › exactly one root-record write", w.Pos(flush.Pos()), "one call of "+w.Name(ro.rootWriter), fmt.Sprintf("%d calls of the root-record writer in Flush", len(rootCalls)))
	if len(rootCalls) != 1 {
		return
	}
	rc := rootCalls[0]
	var bad string
	var badAt ssa.Instruction
	wk := &Walker{Fn: flush}
	wk.OnInstr = func(env *Env, in ssa.Instruction, trail []*ssa.BasicBlock) bool {
		if in == ssa.Instruction(rc) {
			env.flags["rooted"] = true
			return false
		}
		if c, ok := in.(*ssa.Call); ok && env.flags["rooted"] {
			if f := c.Common().StaticCallee(); f != nil && w.InLib(f) && w.reachesSink(f, "WriteAt", "Truncate") != nil {
				if bad == "" {
					bad, badAt = "a call that can write the file ("+w.Name(f)+") follows the root record: data named by no root record / a root record that is not last", in
				}
				return true
			}
		}
		if ret, ok := in.(*ssa.Return); ok {
			if in.Block().Comment == "recover" {
				return true
			}
			v := env.Resolve(ret.Results[0])
			if isNilConst(v) && bad == "" {
				bad, badAt = "Flush returns nil without its result being the root-record writer's (success reported although no root record was written on this path)", in
			}
			if v == ssa.Value(rc) && !env.flags["rooted"] && bad == "" {
				bad, badAt = "internal: root call result returned before the call", in
			}
			return true
		}
		return false
	}
	wk.Run(nil, nil)
	if bad != "" {
		r.Bad(rule, "(*Store).Flush › success only through the root record, written last", w.InstrPos(badAt), bad)
	} else {
		r.OK(rule, "(*Store).Flush › success only through the root record, written last", w.InstrPos(rc), "every return yields either an error value or the root-record writer's own result; no writing call follows it")
	}
	// all data writes precede: the write loop's calls dominate the root call
	n := 0
	eachInstr(flush, func(in ssa.Instruction) {
		if c, ok := in.(*ssa.Call); ok && ro.isDataWrite(c, flush) {
			n++
			r.Check(instrDominates(c, rc) || reachesInstr(flush, c, rc), rule, fmt.Sprintf("(*Store).Flush › data write#%d precedes the root record", n), w.InstrPos(c), "the collection write can only execute before the root-record write", "a collection write is not ordered before the root-record write")
		}
	})
	r.Floor(rule, 3)
}

func reachesInstr(fn *ssa.Function, from, to ssa.Instruction) bool {
	hit, _ := pathAvoiding(fn, from, func(x ssa.Instruction) bool { return x == to }, nil, nil)
	if hit == nil {
		return false
	}
	back, _ := pathAvoiding(fn, to, func(x ssa.Instruction) bool { return x == from }, nil, nil)
	return back == nil
}

// O2: single commit point inside the root-record writer.
func ruleO2(w *World, r *Report) {
	const rule = "O2"
	ro := rolesOrFail(w, r, rule)
	if ro == nil {
		return
	}
	fn := ro.rootWriter
	var sinks []*Sink
	for _, s := range w.G.SinksIn[fn] {
		if s.Method == "WriteAt" {
			sinks = append(sinks, s)
		}
	}
	r.Check(len(sinks) == 1, rule, w.Name(fn)+" › exactly one WriteAt", w.Pos(fn.Pos()), "the root record goes out in a single write", fmt.Sprintf("%d WriteAt calls in the root-record writer: a crash between them leaves a partial record with valid-looking framing", len(sinks)))
	if len(sinks) != 1 {
		return
	}
	s := sinks[0]
	inLoop := false
	for _, lp := range loopsOf(fn) {
		if lp.body[s.Instr.Block()] {
			inLoop = true
		}
	}
	r.Check(!inLoop, rule, w.Name(fn)+" › the write is not in a loop", w.InstrPos(s.Instr), "straight-line", "the root-record write sits in a loop")
	// nothing assembles the buffer after the write
	var late ssa.Instruction
	eachInstr(fn, func(in ssa.Instruction) {
		c, ok := in.(*ssa.Call)
		if !ok || late != nil {
			return
		}
		f := c.Common().StaticCallee()
		if f == nil {
			return
		}
		n := f.String()
		if n == "(*bytes.Buffer).Write" || n == "encoding/binary.Write" || n == "(*bytes.Buffer).WriteByte" || n == "(*bytes.Buffer).WriteString" {
			if hit, _ := pathAvoiding(fn, s.Instr, func(x ssa.Instruction) bool { return x == in }, nil, nil); hit != nil {
				late = in
			}
		}
	})
	if late != nil {
		r.Bad(rule, w.Name(fn)+" › record fully assembled before the write", w.InstrPos(late), "a buffer write can follow the file write: the record on file is incomplete")
	} else {
		r.OK(rule, w.Name(fn)+" › record fully assembled before the write", w.InstrPos(s.Instr), "every buffer write precedes the file write")
	}
	// the whole record: the WriteAt buffer is the assembled buffer cut at the declared length
	r.Floor(rule, 3)
}

// O3: in every writer, Store.size is advanced only on the success arm of every write of
// that function, to (the offset written at) + length.
func ruleO3(w *World, r *Report) {
	const rule = "O3"
	ro := rolesOrFail(w, r, rule)
	if ro == nil {
		return
	}
	for _, fn := range []*ssa.Function{ro.itemWriter, ro.nodeWriter, ro.rootWriter} {
		sws := w.sizeWritesIn(fn)
		key := w.Name(fn) + " › advances Store.size"
		if len(sws) != 1 {
			r.Bad(rule, key, w.Pos(fn.Pos()), fmt.Sprintf("%d writes of Store.size in this writer (expected exactly one, after the file write)", len(sws)))
			continue
		}
		sw := sws[0]
		// fallible writes of this function: WriteAt sinks and value-writer calls
		var writes []FCall
		for _, fc := range w.fallibleCalls(fn) {
			if (fc.Kind == "sink" && fc.Callee == "WriteAt") || (fc.Kind == "static" && fc.Call.Common().StaticCallee() == ro.valWriter) {
				writes = append(writes, fc)
			}
		}
		okAll := len(writes) > 0
		why := ""
		var offset ssa.Value
		for _, fc := range writes {
			e := fc.errValue()
			if e == nil {
				okAll, why = false, "the result of "+fc.Callee+" is not checked"
				continue
			}
			succ := false
			for _, f := range factsAt(sw.Instr.Block()) {
				if x, trueMeansNil, ok := nilTest(f.Cond); ok && x == e && trueMeansNil == f.Pol {
					succ = true
				}
			}
			if !succ {
				okAll, why = false, "the size store is not dominated by the success arm (err == nil) of "+fc.Callee+" at "+w.InstrPos(fc.Call)
			}
			if fc.Kind == "sink" {
				offset = fc.Call.Common().Args[1]
			}
		}
		if okAll {
			// operand: offset + n with the very offset used for the header/record write
			v := unwrap(sw.Val)
			b, isB := v.(*ssa.BinOp)
			same := func(x ssa.Value) bool {
				// the offset written at, or a fresh load of the cursor (single flusher:
				// nobody else moves it between the write and this store)
				return sameVal(x, offset) || (w.isSizeLoad(x) && w.isSizeLoad(offset))
			}
			if !isB || b.Op != token.ADD || !(same(b.X) || same(b.Y)) {
				okAll, why = false, "the new size is not (the offset the record was written at) + length"
			} else {
				other := b.Y
				if same(b.Y) {
					other = b.X
				}
				if !w.nonNeg(other, 0) {
					okAll, why = false, "the length added to the offset is not provably non-negative"
				}
			}
		}
		r.Check(okAll, rule, key, w.InstrPos(sw.Instr), "size = write offset + length, on the success arm of every write of this function", why)
		// O3b: the location recorded for the record (offset, length) is the offset written
		// at and the very length the cursor advances by
		if fn == ro.rootWriter || !okAll {
			continue
		}
		added := stripConv(unwrap(sw.Val).(*ssa.BinOp).Y)
		if sameVal(unwrap(sw.Val).(*ssa.BinOp).Y, offset) {
			added = stripConv(unwrap(sw.Val).(*ssa.BinOp).X)
		}
		okLoc, whyLoc := false, "the writer never records the persisted location (setLoc) of what it wrote"
		eachInstr(fn, func(in ssa.Instruction) {
			c, ok := in.(*ssa.Call)
			if !ok || !strings.HasSuffix(staticCalleeName(c), ".setLoc") {
				return
			}
			al, ok := c.Common().Args[1].(*ssa.Alloc)
			if !ok {
				whyLoc = "the recorded location is not a fresh ploc literal"
				return
			}
			var offV, lenV ssa.Value
			if refs := al.Referrers(); refs != nil {
				for _, rf := range *refs {
					fa, ok := rf.(*ssa.FieldAddr)
					if !ok || fa.Referrers() == nil {
						continue
					}
					for _, u := range *fa.Referrers() {
						if st, ok := u.(*ssa.Store); ok && st.Addr == ssa.Value(fa) {
							if _, isOff := isFieldAddr(fa, "ploc", "Offset"); isOff {
								offV = st.Val
							}
							if _, isLen := isFieldAddr(fa, "ploc", "Length"); isLen {
								lenV = st.Val
							}
						}
					}
				}
			}
			switch {
			case offV == nil || !sameVal(offV, offset):
				whyLoc = "the recorded Offset is not the offset the record was written at"
			case lenV == nil || !sameVal(stripConv(lenV), added):
				whyLoc = "the recorded Length is not the length the cursor advances by: the record's location and the space reserved for it disagree (the next record overlaps it, or a gap of garbage is left)"
			default:
				okLoc = true
			}
		})
		r.Check(okLoc, rule, w.Name(fn)+" › recorded location = (write offset, advance length)", w.InstrPos(sw.Instr), "setLoc(&ploc{Offset: offset, Length: n}) with the same offset and n", whyLoc)
	}
	r.Floor(rule, 3)
}

// O4: items before nodes; in each pass nothing is skipped; children before the parent.
func ruleO4(w *World, r *Report) {
	const rule = "O4"
	ro := rolesOrFail(w, r, rule)
	if ro == nil {
		return
	}
	// O4a: in every function that runs both passes
	for _, wb := range ro.writeBothAll {
		var ic, nc *ssa.Call
		eachInstr(wb, func(in ssa.Instruction) {
			if c, ok := in.(*ssa.Call); ok {
				switch c.Common().StaticCallee() {
				case ro.itemPass:
					ic = c
				case ro.nodePass:
					nc = c
				}
			}
		})
		okA := ic != nil && nc != nil && instrDominates(ic, nc) && sameVal(ic.Common().Args[1], nc.Common().Args[1])
		r.Check(okA, rule, w.Name(wb)+" › item pass dominates node pass, same root", w.Pos(wb.Pos()), "items are persisted before any node record that embeds their locations", "the node pass is not dominated by the item pass on the same root: node records would embed empty item locations")
	}
	// O4b for both passes
	fps := map[*ssa.Function][]string{}
	for _, pass := range []*ssa.Function{ro.itemPass, ro.nodePass} {
		self := ro.itemWriter
		if pass == ro.nodePass {
			self = ro.nodeWriter
		}
		name := w.Name(pass)
		var bad string
		var badAt ssa.Instruction
		childOf := func(v ssa.Value, field string) bool {
			_, ok := isFieldAddr(v, "node", field)
			return ok
		}
		wk := &Walker{Fn: pass}
		wk.OnInstr = func(env *Env, in ssa.Instruction, trail []*ssa.BasicBlock) bool {
			if c, ok := in.(*ssa.Call); ok {
				switch c.Common().StaticCallee() {
				case pass:
					if childOf(c.Common().Args[1], "left") {
						env.flags["L"] = true
					}
					if childOf(c.Common().Args[1], "right") {
						env.flags["R"] = true
					}
				case self:
					if pass == ro.nodePass && !(env.flags["L"] && env.flags["R"]) && bad == "" {
						bad, badAt = "the node's own record is written before both children were written: it embeds an empty child location", in
					}
					env.flags["S"] = true
				}
			}
			if ret, ok := in.(*ssa.Return); ok {
				v := env.Resolve(ret.Results[len(ret.Results)-1])
				success := isNilConst(v)
				if c, ok := v.(*ssa.Call); ok && (c.Common().StaticCallee() == pass || c.Common().StaticCallee() == self) {
					success = true // tail call: its own success
				}
				if success {
					all := env.flags["L"] && env.flags["R"] && env.flags["S"]
					none := !env.flags["L"] && !env.flags["R"] && !env.flags["S"]
					if !all && !none && bad == "" {
						var miss []string
						for _, k := range []string{"L", "S", "R"} {
							if !env.flags[k] {
								miss = append(miss, map[string]string{"L": "left subtree", "R": "right subtree", "S": "the node's own record"}[k])
							}
						}
						bad, badAt = "a success return is reachable after writing only part of the subtree; skipped: "+strings.Join(miss, ", "), in
					}
				}
				return true
			}
			return false
		}
		// only follow success arms of the calls' errors (error arms return the error: E1)
		wk.Branch = func(env *Env, ifi *ssa.If) (bool, bool) {
			if x, trueMeansNil, ok := nilTest(ifi.Cond); ok && isErrorType(x.Type()) {
				return trueMeansNil, !trueMeansNil
			}
			return true, true
		}
		wk.Run(nil, nil)
		if bad != "" {
			r.Bad(rule, name+" › writes left, self and right on every non-skipping path", w.InstrPos(badAt), bad)
		} else {
			r.OK(rule, name+" › writes left, self and right on every non-skipping path", w.Pos(pass.Pos()), "every success return has written both subtrees and the node itself, or nothing at all (skip)")
		}
		// skip-guard fingerprint: atomic facts guarding the self write
		var fp []string
		eachInstr(pass, func(in ssa.Instruction) {
			if c, ok := in.(*ssa.Call); ok && c.Common().StaticCallee() == self {
				for _, f := range factsAt(in.Block()) {
					if x, _, ok := nilTest(f.Cond); ok && isErrorType(x.Type()) {
						continue
					}
					fp = append(fp, fmt.Sprintf("%s=%v", describeCond(w, pass, f.Cond), f.Pol))
				}
			}
		})
		sort.Strings(fp)
		fps[pass] = fp
	}
	a, b := strings.Join(fps[ro.itemPass], " ∧ "), strings.Join(fps[ro.nodePass], " ∧ ")
	r.Check(a == b && a != "", rule, "item pass and node pass skip under the same condition", w.Pos(ro.nodePass.Pos()), "both passes write a node iff: "+a, fmt.Sprintf("the two passes disagree on which nodes they skip: items iff [%s], nodes iff [%s]: an item or a node of the same subtree is left unwritten", a, b))
	r.Floor(rule, 4)
}

// describeCond renders a condition independent of SSA register names.
func describeCond(w *World, fn *ssa.Function, v ssa.Value) string {
	switch x := v.(type) {
	case *ssa.BinOp:
		return "(" + describeCond(w, fn, x.X) + " " + x.Op.String() + " " + describeCond(w, fn, x.Y) + ")"
	case *ssa.UnOp:
		return x.Op.String() + describeCond(w, fn, x.X)
	case *ssa.Const:
		if x.Value == nil {
			return "nil"
		}
		return x.Value.String()
	case *ssa.Parameter:
		for i, p := range fn.Params {
			if p == x {
				return fmt.Sprintf("param%d", i)
			}
		}
	case *ssa.Call:
		var args []string
		for _, a := range x.Common().Args {
			args = append(args, describeCond(w, fn, a))
		}
		return staticCalleeName(x) + "(" + strings.Join(args, ",") + ")"
	case *ssa.FieldAddr:
		_, _, name, _ := fieldOf(x)
		return "&" + describeCond(w, fn, x.X) + "." + name
	case *ssa.Extract:
		return fmt.Sprintf("%s#%d", describeCond(w, fn, x.Tuple), x.Index)
	}
	return fmt.Sprintf("%T", v)
}

// O6/O7: Flush writes exactly the versions it pinned and hands exactly that map to the
// root-record writer; the version marshaller emits the location of that version's root.
func ruleO6(w *World, r *Report) {
	const rule = "O6"
	ro := rolesOrFail(w, r, rule)
	flush := w.Fn("(*Store).Flush")
	if ro == nil || flush == nil {
		return
	}
	var pinMap ssa.Value
	var pinKey ssa.Value
	eachInstr(flush, func(in ssa.Instruction) {
		if mu, ok := in.(*ssa.MapUpdate); ok {
			if c := callOfValue(mu.Value); c != nil && staticCalleeName(c) == "(*Collection).rootAddRef" {
				pinMap, pinKey = mu.Map, mu.Key
			}
		}
	})
	if pinMap == nil {
		r.Bad(rule, "(*Store).Flush › pins recorded per name", w.Pos(flush.Pos()), "the versions pinned by Flush are not recorded in a map by name")
		return
	}
	r.OK(rule, "(*Store).Flush › pins recorded per name", w.Pos(flush.Pos()), "rnls[name] = coll[name].rootAddRef()")
	eachInstr(flush, func(in ssa.Instruction) {
		c, ok := in.(*ssa.Call)
		if !ok {
			return
		}
		callee := c.Common().StaticCallee()
		flushRunsPasses := false
		for _, f := range ro.writeBothAll {
			if f == flush {
				flushRunsPasses = true
			}
		}
		switch {
		case callee == ro.rootWriter:
			arg := c.Common().Args[len(c.Common().Args)-1]
			r.Check(sameVal(arg, pinMap), rule, "(*Store).Flush › root record lists the pinned versions", w.InstrPos(in), "the root-record writer receives the very map of pinned versions", "the root-record writer does not receive the map of versions that were pinned and written: it may name versions whose nodes were never persisted")
		case ro.isDataWrite(c, flush) || (flushRunsPasses && callee == ro.itemPass):
			// argument: rnls[name].root, receiver coll[name], with name an element of the sorted names
			okArg := false
			if len(c.Common().Args) >= 2 {
				arg := c.Common().Args[1]
				base, isRoot := isLoadOfField(arg, "rootNodeLoc", "root")
				if isRoot {
					if lk, isLk := base.(*ssa.Lookup); isLk && sameVal(lk.X, pinMap) {
						okArg = true
						// receiver looked up under the same name
						if rl, isRl := c.Common().Args[0].(*ssa.Lookup); !isRl || !sameVal(rl.Index, lk.Index) {
							okArg = false
						}
						_ = pinKey
					}
				}
			}
			r.Check(okArg, rule, "(*Store).Flush › writes the pinned version of each collection", w.InstrPos(in), "coll[name].write(rnls[name].root)", "Flush does not write the version it pinned under that name (e.g. it re-reads the collection's current root): the root record and the written nodes can disagree")
			if callee == ro.itemPass {
				return
			}
			// O7: every iteration writes
			for _, lp := range loopsOf(flush) {
				if lp.body[in.Block()] {
					if path := cycleAvoiding(lp, func(x ssa.Instruction) bool { return x == in }); path != nil {
						r.Bad("O7", "(*Store).Flush › every pinned collection is written", w.InstrPos(in), "an iteration of the write loop can skip the collection write", blockPathString(w, path)...)
					} else {
						r.OK("O7", "(*Store).Flush › every pinned collection is written", w.InstrPos(in), "no iteration of the write loop avoids the write call")
					}
				}
			}
		default:
			// any other route from Flush into the tree writer (the exported Write wrapper,
			// a helper that re-reads the collection's root) writes a version Flush did not pin
			if callee != nil && callee != ro.rootWriter && w.G.ReachFrom(callee).Set[ro.nodePass] {
				r.Bad(rule, "(*Store).Flush › writes the pinned version of each collection", w.InstrPos(in), "Flush reaches the tree writer through "+w.Name(callee)+", which does not receive the version pinned under that name: a mutation between the pin and this call makes the root record name a version whose nodes were never written")
			}
		}
	})
	// the version marshaller
	mj := w.Fn("(*rootNodeLoc).MarshalJSON")
	if mj == nil {
		r.Unknown(rule, "anchor (*rootNodeLoc).MarshalJSON", "-", "the JSON marshaller of a pinned version was not found (json.Marshal of the pin map would then emit nothing useful)")
		return
	}
	okM, n := true, 0
	why := ""
	eachInstr(mj, func(in ssa.Instruction) {
		ret, ok := in.(*ssa.Return)
		if !ok {
			return
		}
		n++
		c := callOfValue(ret.Results[0])
		if c == nil || c.Common().StaticCallee() == nil || c.Common().StaticCallee().String() != "encoding/json.Marshal" {
			okM, why = false, "a return does not hand back json.Marshal(...)"
			return
		}
		arg := c.Common().Args[0]
		if mi, ok := arg.(*ssa.MakeInterface); ok {
			arg = mi.X
		}
		// Loc() of the receiver's root handle, or the empty-location sentinel when that is empty
		if lc := callOfValue(arg); lc != nil && staticCalleeName(lc) == "(*nodeLoc).Loc" {
			if _, isRoot := isLoadOfField(lc.Common().Args[0], "rootNodeLoc", "root"); isRoot {
				return
			}
		}
		if g, ok := derefGlobal(arg); ok && g.Name() == "plocEmpty" {
			// must be on the isEmpty arm of the receiver's root location
			for _, f := range factsAt(in.Block()) {
				if cc, ok := f.Cond.(*ssa.Call); ok && staticCalleeName(cc) == "(*ploc).isEmpty" && f.Pol {
					return
				}
			}
		}
		okM, why = false, "a return marshals something other than this version's root location"
	})
	r.Check(okM && n > 0, rule, "(*rootNodeLoc).MarshalJSON › emits this version's persisted root location", w.Pos(mj.Pos()), "json.Marshal(rnl.root.Loc()) (or the empty sentinel when empty)", why)
	r.Floor(rule, 4)
}

// ---- O5: validation atoms on open

type atomKind struct {
	name  string
	match func(w *World, fn *ssa.Function, c ssa.Value) bool
	min   int
}

func isBytesEqualWith(c ssa.Value, global string) bool {
	call, ok := c.(*ssa.Call)
	if !ok || call.Common().StaticCallee() == nil || call.Common().StaticCallee().String() != "bytes.Equal" {
		return false
	}
	for _, a := range call.Common().Args {
		if g, ok := derefGlobal(a); ok && g.Name() == global {
			return true
		}
	}
	return false
}

// filledBy: v is a load of a local cell whose address is passed to encoding/binary.Read.
func filledByBinaryRead(v ssa.Value) bool {
	u, ok := v.(*ssa.UnOp)
	if !ok || u.Op != token.MUL {
		return false
	}
	al, ok := u.X.(*ssa.Alloc)
	if !ok {
		return false
	}
	if refs := al.Referrers(); refs != nil {
		for _, rf := range *refs {
			if mi, ok := rf.(*ssa.MakeInterface); ok {
				if mr := mi.Referrers(); mr != nil {
					for _, u2 := range *mr {
						if c, ok := u2.(*ssa.Call); ok && c.Common().StaticCallee() != nil && c.Common().StaticCallee().String() == "encoding/binary.Read" {
							return true
						}
					}
				}
			}
		}
	}
	return false
}

func hasSizeLoadIn(w *World, v ssa.Value, depth int) bool {
	if depth > 6 {
		return false
	}
	if w.isSizeLoad(v) {
		return true
	}
	switch x := v.(type) {
	case *ssa.BinOp:
		return hasSizeLoadIn(w, x.X, depth+1) || hasSizeLoadIn(w, x.Y, depth+1)
	case *ssa.Convert:
		return hasSizeLoadIn(w, x.X, depth+1)
	case *ssa.ChangeType:
		return hasSizeLoadIn(w, x.X, depth+1)
	}
	return false
}

func isParamNamedType(v ssa.Value, kind string) bool {
	p, ok := unwrap(v).(*ssa.Parameter)
	if !ok {
		return false
	}
	return p.Type().String() == kind
}

func hasGlobalLoad(v ssa.Value, name string, depth int) bool {
	if depth > 6 {
		return false
	}
	if g, ok := derefGlobal(v); ok && g.Name() == name {
		return true
	}
	switch x := v.(type) {
	case *ssa.BinOp:
		return hasGlobalLoad(x.X, name, depth+1) || hasGlobalLoad(x.Y, name, depth+1)
	case *ssa.Convert:
		return hasGlobalLoad(x.X, name, depth+1)
	}
	return false
}

var atomKinds = []atomKind{
	{"trailer magic (MagicEnd)", func(w *World, fn *ssa.Function, c ssa.Value) bool { return isBytesEqualWith(c, "MagicEnd") }, 2},
	{"leading magic (MagicBeg)", func(w *World, fn *ssa.Function, c ssa.Value) bool { return isBytesEqualWith(c, "MagicBeg") }, 2},
	{"format version", func(w *World, fn *ssa.Function, c ssa.Value) bool {
		b, ok := c.(*ssa.BinOp)
		if !ok || (b.Op != token.EQL && b.Op != token.NEQ) {
			return false
		}
		k, isK := b.Y.(*ssa.Const)
		other := b.X
		if !isK {
			k, isK = b.X.(*ssa.Const)
			other = b.Y
		}
		return isK && k.Value != nil && k.Type().String() == "uint32" && filledByBinaryRead(other)
	}, 1},
	{"inner length = trailer length", func(w *World, fn *ssa.Function, c ssa.Value) bool {
		b, ok := c.(*ssa.BinOp)
		if !ok || (b.Op != token.EQL && b.Op != token.NEQ) {
			return false
		}
		return (filledByBinaryRead(b.X) && isParamNamedType(b.Y, "uint32")) || (filledByBinaryRead(b.Y) && isParamNamedType(b.X, "uint32"))
	}, 1},
	{"offset >= 0", func(w *World, fn *ssa.Function, c ssa.Value) bool {
		b, ok := c.(*ssa.BinOp)
		if !ok {
			return false
		}
		k, isK := constInt(b.Y)
		return isK && k == 0 && (b.Op == token.GEQ || b.Op == token.LSS) && isParamNamedType(b.X, "int64")
	}, 1},
	{"offset < size - minimal record", func(w *World, fn *ssa.Function, c ssa.Value) bool {
		b, ok := c.(*ssa.BinOp)
		if !ok || !(b.Op == token.LSS || b.Op == token.GEQ || b.Op == token.LEQ || b.Op == token.GTR) {
			return false
		}
		return isParamNamedType(b.X, "int64") && hasSizeLoadIn(w, b.Y, 0) && hasGlobalLoad(b.Y, "rootsLen", 0)
	}, 1},
	{"A9 record ends exactly at the cursor (length == size - offset)", func(w *World, fn *ssa.Function, c ssa.Value) bool {
		b, ok := c.(*ssa.BinOp)
		if !ok || (b.Op != token.EQL && b.Op != token.NEQ) {
			return false
		}
		l, rr := b.X, b.Y
		if !isParamNamedType(l, "uint32") {
			l, rr = b.Y, b.X
		}
		if !isParamNamedType(l, "uint32") {
			return false
		}
		// rr = uint32(size - offset)
		cv, ok := rr.(*ssa.Convert)
		if !ok {
			return false
		}
		sub, ok := cv.X.(*ssa.BinOp)
		return ok && sub.Op == token.SUB && w.isSizeLoad(sub.X) && isParamNamedType(sub.Y, "int64")
	}, 1},
}

func ruleO5(w *World, r *Report) {
	const rule = "O5"
	open := w.Fn("NewStoreEx")
	if open == nil {
		r.Unknown(rule, "anchor NewStoreEx", "-", "exported API not found")
		return
	}
	reach := w.G.ReachFrom(open)
	accepting := map[*ssa.Function]bool{} // functions that (transitively) publish the decoded map
	for f := range reach.Set {
		if !w.InLib(f) {
			continue
		}
		for g := range w.G.ReachFrom(f).Set {
			eachInstr(g, func(in ssa.Instruction) {
				if _, base, ok := isStoreToField(in, "Store", "coll"); ok && !w.unpublished(base) {
					accepting[f] = true
				}
			})
		}
	}
	counts := map[string]int{}
	for f := range reach.Set {
		if !w.InLib(f) {
			continue
		}
		eachInstr(f, func(in ssa.Instruction) {
			ifi, ok := in.(*ssa.If)
			if !ok {
				return
			}
			c0, pol0 := Guard{Cond: ifi.Cond, Pol: true}.atom()
			for _, at := range boolAtoms(c0, pol0, 0) {
				c, pol := at.Cond, at.Pol
				for _, ak := range atomKinds {
					if !ak.match(w, f, c) {
						continue
					}
					counts[ak.name]++
					key := fmt.Sprintf("%s › atom %s #%d", w.Name(f), ak.name, counts[ak.name])
					// which arm is the failing arm?  the arm where the comparison is false for
					// ==-style / true for !=-style, < for >=-style …
					passTrue := atomPassesWhenTrue(c)
					failIdx := 1
					if !passTrue {
						failIdx = 0
					}
					if !pol {
						failIdx = 1 - failIdx
					}
					// from the failing arm: no accepting call and no positive return without
					// passing this very test again
					var badWhy string
					wk := &Walker{Fn: f}
					wk.OnInstr = func(env *Env, x ssa.Instruction, trail []*ssa.BasicBlock) bool {
						if x == ssa.Instruction(ifi) {
							return true // re-tested
						}
						if cc, ok := x.(*ssa.Call); ok {
							if g := cc.Common().StaticCallee(); g != nil && accepting[g] && g != f {
								badWhy = "the failing arm can still call " + w.Name(g) + ", which installs the decoded collections"
								return true
							}
						}
						if st, base, ok := isStoreToField(x, "Store", "coll"); ok && !w.unpublished(base) {
							_ = st
							badWhy = "the failing arm can still install the decoded collections"
							return true
						}
						if ret, ok := x.(*ssa.Return); ok {
							if positiveReturn(f, env, ret) {
								badWhy = "the failing arm can reach a positive return (" + w.InstrPos(ret) + "): the caller goes on to accept the record"
							}
							return true
						}
						return false
					}
					wk.RunEdge(in.Block(), failIdx, nil)
					if badWhy != "" {
						r.Bad(rule, key, w.InstrPos(in), "validation does not reject: "+badWhy)
					} else {
						r.OK(rule, key, w.InstrPos(in), "the failing arm leads only to rejection (error / not-found / keep scanning and test again)")
					}
				}
			}
		})
	}
	for _, ak := range atomKinds {
		if counts[ak.name] < ak.min {
			r.Bad(rule, fmt.Sprintf("open › validates %s (>= %d tests)", ak.name, ak.min), "-", fmt.Sprintf("only %d test(s) of this framing field on the open path; the writer emits it and a torn or stale record can differ exactly there", counts[ak.name]))
		} else {
			r.OK(rule, fmt.Sprintf("open › validates %s (>= %d tests)", ak.name, ak.min), "-", fmt.Sprintf("%d test(s)", counts[ak.name]))
		}
	}
	r.Floor(rule, 14)
}

// atomPassesWhenTrue: the comparison being true means "field is valid".
func atomPassesWhenTrue(c ssa.Value) bool {
	switch x := c.(type) {
	case *ssa.Call:
		return true // bytes.Equal
	case *ssa.BinOp:
		switch x.Op {
		case token.EQL:
			return true
		case token.NEQ:
			return false
		case token.GEQ:
			// offset >= 0 passes when true; offset >= bound fails when true
			if k, ok := constInt(x.Y); ok && k == 0 {
				return true
			}
			return false
		case token.LSS:
			// offset < bound passes when true; offset < 0 fails when true
			if k, ok := constInt(x.Y); ok && k == 0 {
				return false
			}
			return true
		case token.LEQ:
			return true // offset <= bound
		case token.GTR:
			return false // offset > bound
		}
	}
	return true
}

// positiveReturn: nil error and, when the function also answers a bool, not the constant false.
func positiveReturn(fn *ssa.Function, env *Env, ret *ssa.Return) bool {
	idx := errResultIndex(fn)
	if idx < 0 {
		return false
	}
	if !isNilConst(env.Resolve(ret.Results[idx])) {
		return false
	}
	for i, res := range ret.Results {
		if i == idx {
			continue
		}
		if k, ok := env.Resolve(res).(*ssa.Const); ok && k.Value != nil && k.Value.String() == "false" {
			return false
		}
	}
	return true
}

func init() {
	c02 := []Rule{{"O1", ruleO1}, {"O2b", ruleO2b}, {"O4", ruleO4}, {"O6", ruleO6}, {"O6r", ruleO6r}, {"O3", ruleO3}, {"E1w", ruleE1w}, {"FL1", ruleFL1}, {"O3c", ruleO3c}, {"T1", ruleT1}, {"O5s", ruleScanStep}, {"O5r", ruleO5r}, {"Y1", ruleLayoutItemHeader}, {"Y6", ruleLayoutItemRecord}}
	register(&Property{
		ID:           "C02",
		Level:        "other",
		Rules:        c02,
		Explanation:  "Decides the commit protocol of Flush structurally: O1 every return of Flush yields an error or the root-record writer's own result, the single root-record write comes after every data write and no writing call follows it; O4 the item pass dominates the node pass on the same root, each recursive pass reaches a success return only after writing left subtree, the node itself and the right subtree (or nothing: skip), the node pass writes children before the parent, and both passes skip under the same condition; O6 the root-record writer receives the very map of versions that were pinned, each collection's write receives rnls[name].root of the same name, and the version marshaller emits that version's persisted root location; O7 no iteration of the write loop skips the write; O3 size bookkeeping. Roles (item/node/root writers, passes) are resolved from structure (sinks, magic constants, recursion). NOT decided: that the re-opened contents equal the flushed contents for all histories (needs the codec symmetry of C14 and the tree invariants of C13 as premises).",
		ControlSrc:   controlC02,
		ControlEdits: []ControlEdit{{"Store.Flush", "if zzCtlNever { return nil }"}},
		Expect: []Expect{
			{"O1", "success only through the root record"},
		},
	})
	register(&Property{
		ID:           "C03",
		Level:        "other",
		Rules:        []Rule{{"O1", ruleO1}, {"O2", ruleO2}, {"O2b", ruleO2b}, {"O3", ruleO3}, {"O4", ruleO4}, {"O5", ruleO5}, {"O5s", ruleScanStep}, {"T1", ruleT1}, {"Y4", ruleLayoutRoot}, {"A-off", ruleAOff}, {"A-mono", ruleAMono}, {"O3c", ruleO3c}, {"O5r", ruleO5r}},
		Explanation:  "Decides the structural part of crash atomicity: the root record is the single commit point (O1 last, O2 one straight-line WriteAt of a fully assembled buffer), data is written before it in dependency order (O4), Store.size is advanced only on the success arm of every write and to exactly offset+length (O3), and on open the reader validates every framing field the writer emits before installing the decoded collections (O5: MagicEnd x2, MagicBeg x2, version, inner length = trailer length, offset >= 0, offset < size - minimal record, and A9 length == size - offset), each test's failing arm leading only to rejection or re-test. NOT decided: byte-granular torn writes and adversarial junk imitating a complete self-consistent root record (the README records that trade-off), nor recovery followed by continued use.",
		ControlSrc:   controlC02,
		ControlEdits: []ControlEdit{{"NewStoreEx", "if zzCtlNever { (*Store)(nil).zzCtlAcceptAnyway(nil, 0) }"}},
		Expect: []Expect{
			{"O5", "zzCtlAcceptAnyway"},
		},
	})
}

const controlC02 = `package gkvlite

import (
	"bytes"
)

// positive controls for C02 / C03 (never part of /repo)
var zzCtlNever bool

func (s *Store) zzCtlAcceptAnyway(data []byte, length uint32) error { // magic test whose failing arm still accepts
	if !bytes.Equal(MagicBeg, data[:len(MagicBeg)]) {
		data = data[1:]
	}
	return s.validateAndSetCollections(data, length)
}
`

// boolAtoms: the atomic tests a branch condition is made of: the condition itself and, for
// a bool assembled on several paths (`a && b` assigned to a variable, the result of an
// inlined helper), the non-constant values flowing into it.
func boolAtoms(c ssa.Value, pol bool, depth int) []Fact {
	for {
		if u, ok := c.(*ssa.UnOp); ok && u.Op == token.NOT {
			c, pol = u.X, !pol
			continue
		}
		break
	}
	out := []Fact{{c, pol}}
	if ph, ok := c.(*ssa.Phi); ok && depth < 4 {
		for _, e := range ph.Edges {
			if _, isK := e.(*ssa.Const); !isK {
				out = append(out, boolAtoms(e, pol, depth+1)...)
			}
		}
	}
	return out
}

package main

// Seeded changes (DESIGN §11.6): patches written by independent sub-agents, kept under
// /verif/seeded/<id>/.  The thorough tier re-applies each one in memory (patched copies
// of the top-level sources in a temporary directory, loaded as an overlay) and expects
// the property's rules to report something new.  A patch that no longer applies to the
// current /repo is skipped.

import (
	"bytes"
	"encoding/json"
	"fmt"
	"os"
	"os/exec"
	"path/filepath"
	"sort"
	"strings"
)

type seedMeta struct {
	ID       string              `json:"id"`
	Breaks   string              `json:"breaks_property"`
	CaughtBy map[string][]string `json:"caught_by"`
}

func seededFor(prop string) []string {
	dirs, _ := filepath.Glob(filepath.Join(*flagVerif, "seeded", "*"))
	var out []string
	for _, d := range dirs {
		b, err := os.ReadFile(filepath.Join(d, "meta.json"))
		if err != nil {
			continue
		}
		var m seedMeta
		if json.Unmarshal(b, &m) != nil {
			continue
		}
		if m.Breaks == prop {
			out = append(out, d)
		}
	}
	sort.Strings(out)
	return out
}

// seedOverlay applies dir/patch.diff to a temporary copy of the repository's top-level
// non-test Go files and returns the changed files as an overlay.
func seedOverlay(dir string) (map[string][]byte, string) {
	patch := filepath.Join(dir, "patch.diff")
	if _, err := os.Stat(patch); err != nil {
		return nil, "no patch.diff"
	}
	tmp, err := os.MkdirTemp("", "gkvseed")
	if err != nil {
		return nil, err.Error()
	}
	defer os.RemoveAll(tmp)
	files, _ := filepath.Glob(filepath.Join(*flagRepo, "*.go"))
	orig := map[string][]byte{}
	for _, f := range files {
		if strings.HasSuffix(f, "_test.go") {
			continue
		}
		b, err := os.ReadFile(f)
		if err != nil {
			continue
		}
		orig[filepath.Base(f)] = b
		os.WriteFile(filepath.Join(tmp, filepath.Base(f)), b, 0o644)
	}
	cmd := exec.Command("patch", "-p1", "-s", "-f", "-d", tmp, "-i", patch)
	if out, err := cmd.CombinedOutput(); err != nil {
		return nil, "patch does not apply to the current tree: " + strings.TrimSpace(string(out))
	}
	ov := map[string][]byte{}
	for name, ob := range orig {
		nb, err := os.ReadFile(filepath.Join(tmp, name))
		if err == nil && !bytes.Equal(nb, ob) {
			ov[filepath.Join(*flagRepo, name)] = nb
		}
	}
	if len(ov) == 0 {
		return nil, "patch changes nothing"
	}
	return ov, ""
}

// runSeeded: exit 0 caught, 3 skipped, 4 missed.
func runSeeded(p *Property, dir string) int {
	id := filepath.Base(dir)
	ov, skip := seedOverlay(dir)
	if skip != "" {
		fmt.Printf("SEEDED %s skipped: %s\n", id, skip)
		return 3
	}
	base, err := LoadWorld(*flagRepo, nil, nil, "")
	if err != nil {
		fmt.Printf("SEEDED %s skipped: base load failed: %v\n", id, err)
		return 3
	}
	baseRep := runRules(p, base)
	w, err := LoadWorld(*flagRepo, ov, nil, "")
	if err != nil {
		fmt.Printf("SEEDED %s skipped: does not compile on the current tree: %v\n", id, err)
		return 3
	}
	for _, o := range newFindings(baseRep, runRules(p, w)) {
		fmt.Printf("SEEDED %s caught by [%s] %s\n", id, o.Rule, o.Construct)
		return 0
	}
	fmt.Printf("SEEDED %s MISSED by the rules of %s\n", id, p.ID)
	return 4
}

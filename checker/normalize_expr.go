package main

import (
	"go/ast"
	"go/token"
	"go/types"
	"sort"
)

// buildExprInline: the text that replaces a call of an expression helper
// (`func h(a T) R { return expr }`): expr with the parameters replaced by the argument
// texts, converted to the declared result type.  Only for arguments that are plain names
// (variables that are never reassigned, constants, functions) or literals, so that
// evaluating them where the parameter is used — possibly several times, possibly inside a
// function literal — is the same as evaluating them once at the call.
func buildExprInline(fset *token.FileSet, pkg *types.Package, info *types.Info, src []byte, off func(token.Pos) int, file *ast.File, call *ast.CallExpr, h *helperInfo, hsrc []byte) (string, bool) {
	rs := h.body.List[0].(*ast.ReturnStmt)
	expr := rs.Results[0]
	scope := pkg.Scope().Innermost(call.Pos())
	if scope == nil {
		return "", false
	}
	// names declared inside the expression (parameters of nested literals, …)
	declared := map[string]bool{}
	ast.Inspect(expr, func(n ast.Node) bool {
		if id, ok := n.(*ast.Ident); ok && info.Defs[id] != nil {
			declared[id.Name] = true
		}
		return true
	})
	// parameters (receiver first) and their arguments
	type pa struct {
		obj types.Object
		arg string
	}
	var pas []pa
	simple := func(e ast.Expr) bool {
		switch x := e.(type) {
		case *ast.BasicLit:
			return true
		case *ast.Ident:
			if declared[x.Name] {
				return false
			}
			switch o := info.Uses[x].(type) {
			case *types.Const, *types.Func, *types.Nil:
				return true
			case *types.Var:
				return !reassigned(o, file, info)
			}
		}
		return false
	}
	text := func(e ast.Expr) string { return string(src[off(e.Pos()):off(e.End())]) }
	if h.sig.Recv() != nil {
		sel, ok := call.Fun.(*ast.SelectorExpr)
		if !ok || !simple(sel.X) || h.recv == nil || len(h.recv.List) != 1 {
			return "", false
		}
		_, recvPtr := h.sig.Recv().Type().Underlying().(*types.Pointer)
		_, xPtr := info.TypeOf(sel.X).Underlying().(*types.Pointer)
		if recvPtr != xPtr {
			return "", false
		}
		if len(h.recv.List[0].Names) == 1 {
			pas = append(pas, pa{info.Defs[h.recv.List[0].Names[0]], text(sel.X)})
		}
	}
	i := 0
	if h.params != nil {
		for _, f := range h.params.List {
			if len(f.Names) == 0 {
				i++
			}
			for _, n := range f.Names {
				if i >= len(call.Args) || !simple(call.Args[i]) {
					return "", false
				}
				pas = append(pas, pa{info.Defs[n], text(call.Args[i])})
				i++
			}
		}
	}
	if i != len(call.Args) {
		return "", false
	}
	for _, a := range call.Args {
		if !simple(a) {
			return "", false
		}
	}
	// free identifiers of the expression mean the same at the call site
	selIdent := map[*ast.Ident]bool{}
	ast.Inspect(expr, func(n ast.Node) bool {
		if se, ok := n.(*ast.SelectorExpr); ok {
			selIdent[se.Sel] = true
		}
		return true
	})
	htf := fset.File(h.body.Pos())
	type edit struct {
		from, to int
		text     string
	}
	var edits []edit
	okNames := true
	ast.Inspect(expr, func(n ast.Node) bool {
		id, ok := n.(*ast.Ident)
		if !ok || selIdent[id] {
			return true
		}
		obj := info.Uses[id]
		if obj == nil {
			return true
		}
		for _, p := range pas {
			if p.obj == obj {
				edits = append(edits, edit{htf.Offset(id.Pos()), htf.Offset(id.End()), "(" + p.arg + ")"})
				return true
			}
		}
		if pn, isPkg := obj.(*types.PkgName); isPkg {
			_, here := scope.LookupParent(id.Name, call.Pos())
			if hp, ok := here.(*types.PkgName); !ok || hp.Imported() != pn.Imported() {
				okNames = false
			}
			return true
		}
		if obj.Parent() == nil || (obj.Pos() >= expr.Pos() && obj.Pos() < expr.End()) {
			return true
		}
		if _, here := scope.LookupParent(id.Name, call.Pos()); here != obj {
			okNames = false
		}
		return true
	})
	if !okNames {
		return "", false
	}
	e0, e1 := htf.Offset(expr.Pos()), htf.Offset(expr.End())
	body := append([]byte{}, hsrc[e0:e1]...)
	sort.Slice(edits, func(a, b int) bool { return edits[a].from > edits[b].from })
	for _, e := range edits {
		body = append(body[:e.from-e0], append([]byte(e.text), body[e.to-e0:]...)...)
	}
	bad := false
	qual := func(p *types.Package) string {
		if p == pkg {
			return ""
		}
		for sc := scope; sc != nil; sc = sc.Parent() {
			for _, name := range sc.Names() {
				if pn, ok := sc.Lookup(name).(*types.PkgName); ok && pn.Imported() == p {
					if _, here := scope.LookupParent(name, call.Pos()); here == pn {
						return name
					}
				}
			}
		}
		bad = true
		return p.Name()
	}
	rt := types.TypeString(h.sig.Results().At(0).Type(), qual)
	if bad {
		return "", false
	}
	return "(" + rt + ")(" + string(body) + ")", true
}

// reassigned: the variable is assigned, incremented or has its address taken anywhere in
// the file after its declaration.
func reassigned(v *types.Var, file *ast.File, info *types.Info) bool {
	found := false
	ast.Inspect(file, func(n ast.Node) bool {
		if found {
			return false
		}
		switch x := n.(type) {
		case *ast.AssignStmt:
			for _, l := range x.Lhs {
				if id, ok := l.(*ast.Ident); ok && info.Uses[id] == v {
					found = true
				}
			}
		case *ast.IncDecStmt:
			if id, ok := x.X.(*ast.Ident); ok && info.Uses[id] == v {
				found = true
			}
		case *ast.UnaryExpr:
			if x.Op == token.AND {
				if id, ok := x.X.(*ast.Ident); ok && info.Uses[id] == v {
					found = true
				}
			}
		case *ast.RangeStmt:
			for _, l := range []ast.Expr{x.Key, x.Value} {
				if id, ok := l.(*ast.Ident); ok && info.Uses[id] == v {
					found = true
				}
			}
		}
		return true
	})
	return found
}

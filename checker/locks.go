package main

// Lock analysis (DESIGN §3.E): lock identities, intraprocedural held-sets (must and
// may), interprocedural entry-held sets, lock-order graph.

import (
	"fmt"
	"sort"
	"strings"

	"golang.org/x/tools/go/ssa"
)

type lockset map[string]bool

func (a lockset) clone() lockset {
	n := lockset{}
	for k := range a {
		n[k] = true
	}
	return n
}
func (a lockset) equal(b lockset) bool {
	if len(a) != len(b) {
		return false
	}
	for k := range a {
		if !b[k] {
			return false
		}
	}
	return true
}
func (a lockset) String() string {
	if len(a) == 0 {
		return "{}"
	}
	var ks []string
	for k := range a {
		ks = append(ks, k)
	}
	sort.Strings(ks)
	return "{" + strings.Join(ks, ", ") + "}"
}
func union(a, b lockset) lockset {
	n := a.clone()
	for k := range b {
		n[k] = true
	}
	return n
}
func intersect(a, b lockset) lockset {
	n := lockset{}
	for k := range a {
		if b[k] {
			n[k] = true
		}
	}
	return n
}

type lockOp struct {
	ID      string
	Acquire bool
	Read    bool
}

// lockOpOf: in is a call of sync.(*Mutex|*RWMutex).{Lock,Unlock,RLock,RUnlock}.
func lockOpOf(in ssa.Instruction) (lockOp, bool) {
	c, ok := in.(ssa.CallInstruction)
	if !ok {
		return lockOp{}, false
	}
	f := c.Common().StaticCallee()
	if f == nil || len(c.Common().Args) == 0 {
		return lockOp{}, false
	}
	var op lockOp
	switch f.String() {
	case "(*sync.Mutex).Lock", "(*sync.RWMutex).Lock":
		op = lockOp{Acquire: true}
	case "(*sync.Mutex).Unlock", "(*sync.RWMutex).Unlock":
		op = lockOp{Acquire: false}
	case "(*sync.RWMutex).RLock":
		op = lockOp{Acquire: true, Read: true}
	case "(*sync.RWMutex).RUnlock":
		op = lockOp{Acquire: false, Read: true}
	default:
		return lockOp{}, false
	}
	op.ID = lockID(c.Common().Args[0])
	return op, true
}

// lockID names the lock object by where it lives: "Collection.rootLock", "Store.m",
// or a package-level variable.
func lockID(v ssa.Value) string {
	switch x := v.(type) {
	case *ssa.Global:
		return x.Name()
	case *ssa.FieldAddr:
		if _, st, name, ok := fieldOf(x); ok && st != nil {
			return st.Obj().Name() + "." + name
		}
	case *ssa.UnOp:
		if fa, ok := x.X.(*ssa.FieldAddr); ok {
			if _, st, name, ok := fieldOf(fa); ok && st != nil {
				return st.Obj().Name() + "." + name
			}
		}
		return lockID(x.X)
	case *ssa.Phi:
		ids := map[string]bool{}
		for _, e := range x.Edges {
			ids[lockID(e)] = true
		}
		if len(ids) == 1 {
			for k := range ids {
				return k
			}
		}
	}
	return "?" + v.Name()
}

type LockInfo struct {
	w *World
	// per instruction, locks definitely / possibly held just before it executes (local part)
	mustAt map[ssa.Instruction]lockset
	mayAt  map[ssa.Instruction]lockset
	// per function, locks definitely / possibly held on entry (from callers)
	mustEntry map[*ssa.Function]lockset
	mayEntry  map[*ssa.Function]lockset
	// lock-order edges held → acquired, with a witness
	order map[string]map[string]string
	// call sites used for the entry sets (including closure invocation sites)
	sites map[*ssa.Function][]ssa.Instruction
}

func (w *World) Locks() *LockInfo {
	if v, ok := w.cache["locks"]; ok {
		return v.(*LockInfo)
	}
	li := &LockInfo{w: w, mustAt: map[ssa.Instruction]lockset{}, mayAt: map[ssa.Instruction]lockset{},
		mustEntry: map[*ssa.Function]lockset{}, mayEntry: map[*ssa.Function]lockset{}, order: map[string]map[string]string{},
		sites: map[*ssa.Function][]ssa.Instruction{}}
	for _, fn := range w.Funcs {
		if w.InLib(fn) {
			li.local(fn)
		}
	}
	li.interproc()
	li.buildOrder()
	w.cache["locks"] = li
	return li
}

// local dataflow; deferred unlocks keep the lock held until the function exits.
func (li *LockInfo) local(fn *ssa.Function) {
	type st struct{ must, may lockset }
	in := map[*ssa.BasicBlock]*st{}
	if len(fn.Blocks) == 0 {
		return
	}
	in[fn.Blocks[0]] = &st{lockset{}, lockset{}}
	work := []*ssa.BasicBlock{fn.Blocks[0]}
	for len(work) > 0 {
		b := work[0]
		work = work[1:]
		cur := &st{in[b].must.clone(), in[b].may.clone()}
		for _, ins := range b.Instrs {
			li.mustAt[ins] = cur.must.clone()
			li.mayAt[ins] = cur.may.clone()
			if _, isDefer := ins.(*ssa.Defer); isDefer {
				continue // a deferred Unlock releases at exit only
			}
			if op, ok := lockOpOf(ins); ok {
				if op.Acquire {
					cur.must[op.ID] = true
					cur.may[op.ID] = true
				} else {
					delete(cur.must, op.ID)
					delete(cur.may, op.ID)
				}
			}
		}
		for _, s := range b.Succs {
			if in[s] == nil {
				in[s] = &st{cur.must.clone(), cur.may.clone()}
				work = append(work, s)
				continue
			}
			nm, ny := intersect(in[s].must, cur.must), union(in[s].may, cur.may)
			if !nm.equal(in[s].must) || !ny.equal(in[s].may) {
				in[s].must, in[s].may = nm, ny
				work = append(work, s)
			}
		}
	}
}

// invocation sites of fn: static call sites, and for closures / function values passed as
// an argument of a static call, the dynamic calls of the corresponding parameter in the callee.
func (li *LockInfo) invocationSites(fn *ssa.Function) (sites []ssa.Instruction, complete bool) {
	complete = true
	for _, e := range li.w.G.In[fn] {
		switch e.Kind {
		case "static":
			sites = append(sites, e.Site)
		case "cha", "json":
			sites = append(sites, e.Site)
		case "closure", "funcvalue":
			// find where the value goes
			var val ssa.Value
			if mc, ok := e.Site.(*ssa.MakeClosure); ok {
				val = mc
			} else {
				val = fn
			}
			found := li.followFuncValue(e.From, val, e.Site, &sites, 0)
			if !found {
				complete = false
			}
		}
	}
	return
}

func (li *LockInfo) followFuncValue(in *ssa.Function, val ssa.Value, site ssa.Instruction, sites *[]ssa.Instruction, depth int) bool {
	if depth > 4 {
		return false
	}
	ok := true
	used := false
	var uses []ssa.Instruction
	if f, isF := val.(*ssa.Function); isF {
		_ = f
		uses = []ssa.Instruction{site}
	} else if refs := val.Referrers(); refs != nil {
		uses = *refs
	}
	for _, u := range uses {
		call, isCall := u.(ssa.CallInstruction)
		if !isCall {
			if _, isDbg := u.(*ssa.DebugRef); isDbg {
				continue
			}
			if ct, isCT := u.(*ssa.ChangeType); isCT {
				if !li.followFuncValue(in, ct, u, sites, depth+1) {
					ok = false
				}
				used = true
				continue
			}
			if _, isStore := u.(*ssa.Store); isStore {
				ok = false // stored in a variable: invocation sites unknown
				used = true
				continue
			}
			ok = false
			continue
		}
		c := call.Common()
		if c.Value == val {
			*sites = append(*sites, u) // called directly
			used = true
			continue
		}
		callee := c.StaticCallee()
		for i, a := range c.Args {
			if a != val {
				continue
			}
			used = true
			if callee == nil || !li.w.InLib(callee) || i >= len(callee.Params) {
				ok = false
				continue
			}
			p := callee.Params[i]
			// dynamic calls of p in callee; or p forwarded further
			if !li.followFuncValue(callee, p, nil, sites, depth+1) {
				ok = false
			}
		}
	}
	return ok && used
}

func (li *LockInfo) interproc() {
	w := li.w
	type ent struct{ must, may lockset }
	all := lockset{}
	for _, ls := range li.mayAt {
		for k := range ls {
			all[k] = true
		}
	}
	complete := map[*ssa.Function]bool{}
	for _, fn := range w.Funcs {
		if !w.InLib(fn) {
			continue
		}
		s, c := li.invocationSites(fn)
		li.sites[fn] = s
		complete[fn] = c
		// optimistic start for must (top = all), pessimistic for may (bottom = empty)
		li.mustEntry[fn] = all.clone()
		li.mayEntry[fn] = lockset{}
	}
	isRoot := func(fn *ssa.Function) bool {
		// exported API, goroutine entries, functions with unknown callers: nothing held for sure
		if fn.Parent() == nil && isExportedName(fn.Name()) {
			return true
		}
		return len(li.sites[fn]) == 0 || !complete[fn]
	}
	for iter := 0; iter < 50; iter++ {
		changed := false
		for _, fn := range w.Funcs {
			if !w.InLib(fn) {
				continue
			}
			var must lockset
			may := lockset{}
			if isRoot(fn) {
				must = lockset{}
			}
			for _, site := range li.sites[fn] {
				caller := site.Parent()
				if !w.InLib(caller) {
					must = lockset{}
					continue
				}
				m := union(li.mustAt[site], li.mustEntry[caller])
				y := union(li.mayAt[site], li.mayEntry[caller])
				if _, isGo := site.(*ssa.Go); isGo {
					m, y = lockset{}, lockset{} // a new goroutine holds nothing
				}
				if must == nil {
					must = m
				} else {
					must = intersect(must, m)
				}
				may = union(may, y)
			}
			if must == nil {
				must = lockset{}
			}
			if !must.equal(li.mustEntry[fn]) || !may.equal(li.mayEntry[fn]) {
				li.mustEntry[fn], li.mayEntry[fn] = must, may
				changed = true
			}
		}
		if !changed {
			break
		}
	}
}

// MustHeld / MayHeld just before instruction in (callers included).
func (li *LockInfo) MustHeld(in ssa.Instruction) lockset {
	return union(li.mustAt[in], li.mustEntry[in.Parent()])
}
func (li *LockInfo) MayHeld(in ssa.Instruction) lockset {
	return union(li.mayAt[in], li.mayEntry[in.Parent()])
}

func (li *LockInfo) buildOrder() {
	for _, fn := range li.w.Funcs {
		if !li.w.InLib(fn) {
			continue
		}
		eachInstr(fn, func(in ssa.Instruction) {
			if _, isDefer := in.(*ssa.Defer); isDefer {
				return
			}
			op, ok := lockOpOf(in)
			if !ok || !op.Acquire {
				return
			}
			for held := range li.MayHeld(in) {
				if li.order[held] == nil {
					li.order[held] = map[string]string{}
				}
				if _, dup := li.order[held][op.ID]; !dup {
					li.order[held][op.ID] = fmt.Sprintf("%s @ %s", li.w.Name(fn), li.w.InstrPos(in))
				}
			}
		})
	}
}

// Cycle returns a cycle of the lock-order graph (including self loops), or nil.
func (li *LockInfo) Cycle() []string {
	color := map[string]int{}
	var stack []string
	var found []string
	var dfs func(n string) bool
	dfs = func(n string) bool {
		color[n] = 1
		stack = append(stack, n)
		var succ []string
		for m := range li.order[n] {
			succ = append(succ, m)
		}
		sort.Strings(succ)
		for _, m := range succ {
			if color[m] == 1 {
				i := 0
				for k, s := range stack {
					if s == m {
						i = k
					}
				}
				found = append(append([]string{}, stack[i:]...), m)
				return true
			}
			if color[m] == 0 && dfs(m) {
				return true
			}
		}
		stack = stack[:len(stack)-1]
		color[n] = 2
		return false
	}
	var nodes []string
	for n := range li.order {
		nodes = append(nodes, n)
	}
	sort.Strings(nodes)
	for _, n := range nodes {
		if color[n] == 0 && dfs(n) {
			return found
		}
	}
	return nil
}

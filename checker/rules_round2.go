package main

// Rules added after the second round of independently seeded changes.
//
//	B2  block enumeration: the collecting pass spaces the block start keys exactly as far
//	    apart as the presenting pass walks from each start key (C16)
//	E5  a fallible file read fills only objects private to the reading call, never an
//	    object already published in a cache (C07)

import (
	"fmt"
	"go/token"

	"golang.org/x/tools/go/ssa"
)

// ---------------------------------------------------------------- B2

type linForm struct {
	cell ssa.Value // the variable's cell (Alloc in the enclosing function) or nil for a constant
	k    int64
}

func (l linForm) String() string {
	if l.cell == nil {
		return fmt.Sprint(l.k)
	}
	n := l.cell.Name()
	if a, ok := l.cell.(*ssa.Alloc); ok && a.Comment != "" {
		n = a.Comment
	}
	if l.k == 0 {
		return n
	}
	return fmt.Sprintf("%s%+d", n, l.k)
}

// closureBindings maps the free variables of fn's closures to the values bound in fn.
func closureBindings(fn *ssa.Function) map[*ssa.FreeVar]ssa.Value {
	bind := map[*ssa.FreeVar]ssa.Value{}
	eachInstr(fn, func(in ssa.Instruction) {
		if mc, ok := in.(*ssa.MakeClosure); ok {
			cl := mc.Fn.(*ssa.Function)
			for i, fv := range cl.FreeVars {
				if i < len(mc.Bindings) {
					bind[fv] = mc.Bindings[i]
				}
			}
		}
	})
	return bind
}

func linOf(v ssa.Value, bind map[*ssa.FreeVar]ssa.Value, depth int) (linForm, bool) {
	if depth > 6 {
		return linForm{}, false
	}
	v = stripConv(v)
	if k, ok := constInt(v); ok {
		return linForm{nil, k}, true
	}
	switch x := v.(type) {
	case *ssa.BinOp:
		if x.Op != token.ADD && x.Op != token.SUB {
			return linForm{}, false
		}
		a, okA := linOf(x.X, bind, depth+1)
		b, okB := linOf(x.Y, bind, depth+1)
		if !okA || !okB {
			return linForm{}, false
		}
		if x.Op == token.ADD {
			if a.cell != nil && b.cell != nil {
				return linForm{}, false
			}
			c := a.cell
			if c == nil {
				c = b.cell
			}
			return linForm{c, a.k + b.k}, true
		}
		if b.cell != nil {
			return linForm{}, false
		}
		return linForm{a.cell, a.k - b.k}, true
	case *ssa.UnOp:
		if x.Op != token.MUL {
			return linForm{}, false
		}
		switch c := x.X.(type) {
		case *ssa.FreeVar:
			if b, ok := bind[c]; ok {
				return linForm{rootCell(b, bind, 0), 0}, true
			}
		case *ssa.Alloc:
			return linForm{rootCell(c, bind, 0), 0}, true
		}
	case *ssa.Extract, *ssa.Parameter, *ssa.Call:
		return linForm{v, 0}, true
	}
	return linForm{}, false
}

// rootCell: a variable that is assigned exactly once, from another variable or from a
// plain value (a parameter copy made by an inlined helper, a result of a call), stands
// for that origin.
func rootCell(c ssa.Value, bind map[*ssa.FreeVar]ssa.Value, depth int) ssa.Value {
	al, ok := c.(*ssa.Alloc)
	if !ok || depth > 6 {
		return c
	}
	v := singleStore(al)
	if v == nil {
		return c
	}
	v = stripConv(v)
	switch x := v.(type) {
	case *ssa.UnOp:
		if x.Op == token.MUL {
			switch d := x.X.(type) {
			case *ssa.Alloc:
				return rootCell(d, bind, depth+1)
			case *ssa.FreeVar:
				if b, ok := bind[d]; ok {
					return rootCell(b, bind, depth+1)
				}
			}
		}
	case *ssa.Extract, *ssa.Parameter, *ssa.Call:
		return v
	}
	return c
}

// cellOfLoad: v is a load of a captured or local variable; returns its cell.
func cellOfLoad(v ssa.Value, bind map[*ssa.FreeVar]ssa.Value) ssa.Value {
	if l, ok := linOf(v, bind, 0); ok && l.cell != nil && l.k == 0 {
		return l.cell
	}
	return nil
}

func storesConstTo(b *ssa.BasicBlock, cell ssa.Value, bind map[*ssa.FreeVar]ssa.Value, k int64) bool {
	for _, in := range b.Instrs {
		if st, ok := in.(*ssa.Store); ok {
			a := st.Addr
			if fv, isFv := a.(*ssa.FreeVar); isFv {
				a = bind[fv]
			}
			if c, isK := constInt(st.Val); isK && c == k && a == cell {
				return true
			}
		}
	}
	return false
}

// ---------------------------------------------------------------- E5

// privateDest: the object written by a fallible read is private to the reading call:
// allocated here (make/new/ItemAlloc/mk*), or a field of such an object, or handed in by a
// caller (then the obligation moves to every call site).
func (w *World) privateDest(v ssa.Value, depth int, seen map[ssa.Value]bool) (bool, string) {
	if depth > 8 {
		return false, "origin too deep to follow"
	}
	v = stripConv(v)
	if seen[v] {
		return true, ""
	}
	seen[v] = true
	switch x := v.(type) {
	case *ssa.Alloc, *ssa.MakeSlice:
		return true, ""
	case *ssa.Slice:
		return w.privateDest(x.X, depth+1, seen)
	case *ssa.Phi:
		for _, e := range x.Edges {
			if ok, why := w.privateDest(e, depth+1, seen); !ok {
				return false, why
			}
		}
		return true, ""
	case *ssa.UnOp:
		if x.Op != token.MUL {
			return false, fmt.Sprintf("%T", v)
		}
		if fa, ok := x.X.(*ssa.FieldAddr); ok {
			// a field (Key, Val) of an object: private iff the object is
			return w.privateDest(fa.X, depth+1, seen)
		}
		if al, ok := x.X.(*ssa.Alloc); ok {
			// local variable: every store into it must be private
			for _, ref := range *al.Referrers() {
				if st, isSt := ref.(*ssa.Store); isSt && st.Addr == ssa.Value(al) {
					if ok, why := w.privateDest(st.Val, depth+1, seen); !ok {
						return false, why
					}
				}
			}
			return true, ""
		}
		return false, "loaded from " + x.X.String()
	case *ssa.FieldAddr:
		return w.privateDest(x.X, depth+1, seen)
	case *ssa.Extract:
		return w.privateDest(x.Tuple, depth+1, seen)
	case *ssa.Call:
		callee := x.Common().StaticCallee()
		if callee == nil {
			// callback returning an object (ItemAlloc, AfterItemRead): the application's
			return true, ""
		}
		switch w.Name(callee) {
		case "(*Store).ItemAlloc", "(*Collection).mkNode", "(*Collection).mkNodeLoc", "(*Collection).mkRootNodeLoc":
			return true, ""
		case "(*itemLoc).Item", "(*nodeLoc).Node", "(*nodeLoc).getNode", "(*itemLoc).getItem":
			return false, "the object published in the cache slot (" + w.Name(callee) + ")"
		}
		if callee.Pkg != nil && w.isLib(callee) && callee.Blocks != nil {
			// a helper: private iff every value it returns is
			okAll := true
			why := ""
			eachInstr(callee, func(in ssa.Instruction) {
				if ret, isRet := in.(*ssa.Return); isRet && len(ret.Results) > 0 {
					if ok, y := w.privateDest(ret.Results[0], depth+1, seen); !ok {
						okAll, why = false, y
					}
				}
			})
			return okAll, why
		}
		return true, ""
	case *ssa.Parameter:
		fn := x.Parent()
		idx := -1
		for i, p := range fn.Params {
			if p == x {
				idx = i
			}
		}
		for _, e := range w.G.In[fn] {
			c, ok := e.Site.(ssa.CallInstruction)
			if !ok || e.Kind != "static" {
				continue
			}
			args := c.Common().Args
			if idx < 0 || idx >= len(args) {
				continue
			}
			if ok, why := w.privateDest(args[idx], depth+1, seen); !ok {
				return false, why + " (passed by " + w.Name(e.From) + " at " + w.InstrPos(e.Site) + ")"
			}
		}
		return true, ""
	case *ssa.Const:
		return true, ""
	}
	return false, fmt.Sprintf("origin %T", v)
}

func (w *World) isLib(fn *ssa.Function) bool { return fn != nil && w.InLib(fn) }

func ruleE5(w *World, r *Report) {
	const rule = "E5"
	n := 0
	for _, s := range w.G.Sinks {
		if s.Method != "ReadAt" || !w.isLib(s.Fn) {
			continue
		}
		n++
		args := s.Instr.Common().Args
		if len(args) < 1 {
			continue
		}
		key := fmt.Sprintf("%s › ReadAt#%d fills a private buffer", w.Name(s.Fn), n)
		ok, why := w.privateDest(args[0], 0, map[ssa.Value]bool{})
		r.Check(ok, rule, key, w.InstrPos(s.Instr), "the destination is allocated by the reading call (or by its caller for this read)", "a fallible file read writes into "+why+": when the read fails or is short, other readers already see the half-filled object and later calls report success with wrong data")
	}
	// the value reader wrapper: the item it fills
	for _, fn := range w.Funcs {
		if !w.isLib(fn) {
			continue
		}
		k := 0
		eachInstr(fn, func(in ssa.Instruction) {
			c, ok := in.(*ssa.Call)
			if !ok || staticCalleeName(c) != "(*Store).ItemValRead" {
				return
			}
			k++
			a := c.Common().Args
			if len(a) < 3 {
				return
			}
			key := fmt.Sprintf("%s › call (*Store).ItemValRead#%d fills a private item", w.Name(fn), k)
			ok2, why := w.privateDest(a[2], 0, map[ssa.Value]bool{})
			r.Check(ok2, rule, key, w.InstrPos(in), "the item whose value is read was allocated by this call and is published only after the read succeeded", "the value is read into "+why+": a failed or torn read leaves a junk value in an item other calls already share, and they then succeed with wrong data")
		})
	}
	r.Floor(rule, 5)
}

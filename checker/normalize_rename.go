package main

import (
	"fmt"
	"go/ast"
	"os"
	"sort"
	"strings"

	"golang.org/x/tools/go/packages"
)

// applyRenames gives functions that were recognised as renamed known functions
// (fingerprint.go) their known names back, in every file of the package: the definition
// and every use (resolved through type information, so shadowing and same-named fields
// are respected).  Line numbers do not change.
func applyRenames(repo string, overlay map[string][]byte, env []string, tags string, renames map[string]string, typeRen map[string]string, fieldRen map[string]map[string]string) (map[string][]byte, bool) {
	cfg := &packages.Config{
		Mode:    packages.NeedName | packages.NeedFiles | packages.NeedCompiledGoFiles | packages.NeedImports | packages.NeedTypes | packages.NeedTypesSizes | packages.NeedSyntax | packages.NeedTypesInfo,
		Dir:     repo,
		Overlay: overlay,
		Env:     append(os.Environ(), env...),
	}
	if tags != "" {
		cfg.BuildFlags = []string{"-tags=" + tags}
	}
	pkgs, err := packages.Load(cfg, ".")
	if err != nil || len(pkgs) != 1 || len(pkgs[0].Errors) > 0 || pkgs[0].PkgPath != modPath {
		normalizeNotes = append(normalizeNotes, "rename detection skipped: package did not load cleanly")
		return overlay, false
	}
	p := pkgs[0]
	fset, info := p.Fset, p.TypesInfo
	newName := map[interface{}]string{} // types.Object -> name
	// struct types and fields
	for _, f := range p.Syntax {
		for _, d := range f.Decls {
			gd, ok := d.(*ast.GenDecl)
			if !ok {
				continue
			}
			for _, sp := range gd.Specs {
				ts, ok := sp.(*ast.TypeSpec)
				if !ok {
					continue
				}
				st, ok := ts.Type.(*ast.StructType)
				if !ok {
					continue
				}
				tname := ts.Name.Name
				if known, ok := typeRen[tname]; ok {
					if obj := info.Defs[ts.Name]; obj != nil {
						newName[obj] = known
						normalizeNotes = append(normalizeNotes, fmt.Sprintf("type %s recognised as the renamed %s (same fields) and analysed under that name", tname, known))
					}
					tname = known
				}
				for _, fl := range st.Fields.List {
					for _, n := range fl.Names {
						if known, ok := fieldRen[tname][n.Name]; ok {
							if obj := info.Defs[n]; obj != nil {
								newName[obj] = known
								normalizeNotes = append(normalizeNotes, fmt.Sprintf("field %s.%s recognised as the renamed %s.%s (same type, same struct) and analysed under that name", tname, n.Name, tname, known))
							}
						}
					}
				}
			}
		}
	}
	for _, f := range p.Syntax {
		for _, d := range f.Decls {
			fd, ok := d.(*ast.FuncDecl)
			if !ok {
				continue
			}
			known, ok := renames[declKey(fd)]
			if !ok {
				continue
			}
			obj := info.Defs[fd.Name]
			if obj == nil {
				continue
			}
			n := known
			if i := strings.LastIndex(n, "."); i >= 0 {
				n = n[i+1:]
			}
			newName[obj] = n
			normalizeNotes = append(normalizeNotes, fmt.Sprintf("function %s recognised as the renamed %s (same signature, similar body) and analysed under that name", declKey(fd), known))
		}
	}
	if len(newName) == 0 {
		return overlay, false
	}
	out := map[string][]byte{}
	for k, v := range overlay {
		out[k] = v
	}
	changed := false
	for _, f := range p.Syntax {
		path := fset.Position(f.Pos()).Filename
		if strings.HasSuffix(path, "_test.go") {
			continue
		}
		var src []byte
		if b, ok := overlay[path]; ok {
			src = b
		} else {
			src, _ = os.ReadFile(path)
		}
		tf := fset.File(f.Pos())
		var sp []splice
		ast.Inspect(f, func(n ast.Node) bool {
			id, ok := n.(*ast.Ident)
			if !ok {
				return true
			}
			var nn string
			if o := info.Defs[id]; o != nil {
				nn = newName[o]
			}
			if o := info.Uses[id]; o != nil && nn == "" {
				nn = newName[o]
			}
			if nn != "" {
				sp = append(sp, splice{tf.Offset(id.Pos()), tf.Offset(id.End()), nn})
			}
			return true
		})
		if len(sp) == 0 {
			continue
		}
		sort.Slice(sp, func(i, j int) bool { return sp[i].from > sp[j].from })
		b := append([]byte{}, src...)
		for _, s := range sp {
			b = append(b[:s.from], append([]byte(s.text), b[s.to:]...)...)
		}
		out[path] = b
		changed = true
	}
	return out, changed
}

// needsNormalisation: cheap syntactic test run on every load.
func needsNormalisation(repo string, overlay map[string][]byte) bool {
	if len(unknownHelpers(repo, overlay)) > 0 {
		return true
	}
	tr, fr := detectTypeRenames(repo, overlay)
	return len(tr)+len(fr) > 0
}

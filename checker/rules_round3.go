package main

// Rules added after the third round of independently seeded changes (DESIGN §11.6).
//
//	S1b  Snapshot hands out a store allocated by this very call, on every path (C04)
//	O3c  a record's location is published only after every write of the record succeeded (C02, C03, C05, C07, C09)
//	V7   the default value reader leaves a non-nil value of the recorded length on every success path (C01, C11, C17)
//	M7   SetCollection gives the new handle the comparator it was called with (nil = bytes.Compare), never the old handle's (C12)
//	V8   a freshly allocated item is published only after its priority and key were filled (C13, C01, C06)
//	F7   a version whose count reached zero is reclaimed and freed on every path (C15, C10)
//	B5   Len returns the count of a visit made by this call (or 0 for the empty collection) (C16)
//	E1r  errors of the reads a visit makes are reported (C06);  E1h: … of the calls around the item hooks (C17)

import (
	"fmt"
	"go/token"
	"strings"

	"golang.org/x/tools/go/ssa"
)

// ---------------------------------------------------------------- S1b

func ruleS1b(w *World, r *Report) {
	const rule = "S1b"
	fn := w.Fn("(*Store).Snapshot")
	if fn == nil {
		r.Unknown(rule, "anchor (*Store).Snapshot", "-", "exported API not found")
		return
	}
	ok, n := true, 0
	var badAt ssa.Instruction
	wk := &Walker{Fn: fn}
	wk.OnInstr = func(env *Env, in ssa.Instruction, trail []*ssa.BasicBlock) bool {
		ret, isRet := in.(*ssa.Return)
		if !isRet || in.Block().Comment == "recover" {
			return false
		}
		n++
		v := env.Resolve(ret.Results[0])
		fresh := false
		if al, isAl := unwrap(v).(*ssa.Alloc); isAl && al.Parent() == fn {
			fresh = true
		}
		if !fresh && ok {
			ok, badAt = false, in
		}
		return true
	}
	wk.Run(nil, nil)
	pos := w.Pos(fn.Pos())
	if badAt != nil {
		pos = w.InstrPos(badAt)
	}
	r.Check(ok && n > 0, rule, "(*Store).Snapshot › returns a store of its own on every path", pos, "every return yields the Store allocated by this call", "a path through Snapshot returns a store that already exists (the receiver, a cached snapshot): two snapshot handles are then one object, and closing / reverting one changes what the other shows")
}

// ---------------------------------------------------------------- O3c

func ruleO3c(w *World, r *Report) {
	const rule = "O3c"
	ro := rolesOrFail(w, r, rule)
	if ro == nil {
		return
	}
	for _, fn := range []*ssa.Function{ro.itemWriter, ro.nodeWriter} {
		var writes []FCall
		for _, fc := range w.fallibleCalls(fn) {
			if (fc.Kind == "sink" && fc.Callee == "WriteAt") || (fc.Kind == "static" && fc.Call.Common().StaticCallee() == ro.valWriter) {
				writes = append(writes, fc)
			}
		}
		n := 0
		eachInstr(fn, func(in ssa.Instruction) {
			c, ok := in.(*ssa.Call)
			if !ok || !strings.HasSuffix(staticCalleeName(c), ".setLoc") {
				return
			}
			if len(c.Common().Args) > 1 && isNilConst(c.Common().Args[1]) {
				return // un-publishing (error path)
			}
			n++
			key := fmt.Sprintf("%s › location published#%d only after the record was written", w.Name(fn), n)
			why := ""
			for _, fc := range writes {
				e := fc.errValue()
				succ := false
				if e != nil {
					for _, f := range factsAt(in.Block()) {
						if x, trueMeansNil, isNil := nilTest(f.Cond); isNil && x == e && trueMeansNil == f.Pol {
							succ = true
						}
					}
				}
				if !succ {
					why = "setLoc is not dominated by the success arm of " + fc.Callee + " at " + w.InstrPos(fc.Call) + ": while the write is in flight (or after it failed) the record already counts as persisted — a reader evicts the only copy and re-reads an unwritten region, a retried Flush skips it"
				}
			}
			r.Check(why == "" && len(writes) > 0, rule, key, w.InstrPos(in), "after every WriteAt / value write of the record succeeded", why)
		})
		if n == 0 {
			r.Bad(rule, w.Name(fn)+" › location published only after the record was written", w.Pos(fn.Pos()), "the writer never records the persisted location")
		}
	}
	r.Floor(rule, 2)
}

// ---------------------------------------------------------------- V7

func ruleV7(w *World, r *Report) {
	const rule = "V7"
	fn := w.Fn("(*Store).ItemValRead")
	if fn == nil {
		r.Unknown(rule, "anchor (*Store).ItemValRead", "-", "value-read dispatch wrapper not found")
		return
	}
	var item, vlen *ssa.Parameter
	for _, p := range fn.Params {
		if isLibType(p.Type(), "Item") {
			item = p
		}
		if p.Type().String() == "uint32" {
			vlen = p
		}
	}
	if item == nil || vlen == nil {
		r.Unknown(rule, "(*Store).ItemValRead › parameters", w.Pos(fn.Pos()), "item / value-length parameters not recognised")
		return
	}
	ok, n := true, 0
	var badAt ssa.Instruction
	wk := &Walker{Fn: fn}
	wk.OnInstr = func(env *Env, in ssa.Instruction, trail []*ssa.BasicBlock) bool {
		switch x := in.(type) {
		case *ssa.Call:
			if x.Common().StaticCallee() == nil && !x.Common().IsInvoke() {
				if _, isB := x.Common().Value.(*ssa.Builtin); !isB {
					env.flags["callback"] = true // the application's own reader decides
				}
			}
		case *ssa.Store:
			if base, isVal := isFieldAddr(x.Addr, "Item", "Val"); isVal && base == ssa.Value(item) {
				if ms, isMs := unwrap(x.Val).(*ssa.MakeSlice); isMs && stripConv(ms.Len) == ssa.Value(vlen) {
					env.flags["val"] = true
				}
			}
		case *ssa.Return:
			if in.Block().Comment == "recover" {
				return true
			}
			if !isNonNilErrorValue(env.Resolve(x.Results[len(x.Results)-1])) { // may be a success
				n++
				if !env.flags["val"] && !env.flags["callback"] && ok {
					ok, badAt = false, in
				}
			}
			return true
		}
		return false
	}
	wk.Run(nil, nil)
	pos := w.Pos(fn.Pos())
	if badAt != nil {
		pos = w.InstrPos(badAt)
	}
	r.Check(ok, rule, "(*Store).ItemValRead › default path leaves a non-nil value of the recorded length", pos, "i.Val = make([]byte, valLength) on every success path without a callback", "the default value reader can report success without having given the item a value of the recorded length: an empty (zero-length) value comes back nil, and SetItem / CopyTo refuse the item")
}

// ---------------------------------------------------------------- M7

func ruleM7(w *World, r *Report) {
	const rule = "M7"
	fn := w.Fn("(*Store).SetCollection")
	if fn == nil {
		r.Unknown(rule, "anchor (*Store).SetCollection", "-", "exported API not found")
		return
	}
	var cmpParam *ssa.Parameter
	for _, p := range fn.Params {
		if strings.HasSuffix(p.Type().String(), "KeyCompare") {
			cmpParam = p
		}
	}
	if cmpParam == nil {
		r.Unknown(rule, "(*Store).SetCollection › comparator parameter", w.Pos(fn.Pos()), "no KeyCompare parameter")
		return
	}
	phiSeen := map[*ssa.Phi]bool{}
	var okSrc func(v ssa.Value, d int) (bool, string)
	okSrc = func(v ssa.Value, d int) (bool, string) {
		if d > 6 {
			return false, "origin too deep"
		}
		v = stripConv(v)
		switch x := v.(type) {
		case *ssa.Parameter:
			return x == cmpParam, "another parameter"
		case *ssa.Function:
			return x.String() == "bytes.Compare", x.String()
		case *ssa.ChangeType:
			return okSrc(x.X, d+1)
		case *ssa.MakeInterface:
			return okSrc(x.X, d+1)
		case *ssa.Phi:
			if phiSeen[x] {
				return true, "" // loop-carried: decided by the other edges
			}
			phiSeen[x] = true
			for _, e := range x.Edges {
				if ok, why := okSrc(e, d); !ok {
					return false, why
				}
			}
			return true, ""
		case *ssa.Const:
			return x.Value == nil, "a constant" // nil: defaulted further down (MakePrivateCollection)
		case *ssa.UnOp:
			if _, isOld := isLoadOfField(x, "Collection", "compare"); isOld {
				return false, "the comparator of the collection being replaced"
			}
		}
		return false, fmt.Sprintf("%T", v)
	}
	n := 0
	eachInstr(fn, func(in ssa.Instruction) {
		var val ssa.Value
		switch x := in.(type) {
		case *ssa.Store:
			if _, isCmp := isFieldAddr(x.Addr, "Collection", "compare"); isCmp {
				val = x.Val
			}
		case *ssa.Call:
			if staticCalleeName(x) == "(*Store).MakePrivateCollection" && len(x.Common().Args) > 1 {
				val = x.Common().Args[1]
			}
		}
		if val == nil {
			return
		}
		n++
		ok, why := okSrc(val, 0)
		r.Check(ok, rule, fmt.Sprintf("(*Store).SetCollection › comparator#%d of the new handle is the one asked for", n), w.InstrPos(in), "the compare parameter (nil = bytes.Compare)", "the new handle's comparator can be "+why+": SetCollection(name, nil) on an existing name must install bytes.Compare, not keep the old order (keys the two orders disagree on then overwrite each other)")
	})
	r.Floor(rule, 1)
}

// ---------------------------------------------------------------- V8

func ruleV8(w *World, r *Report) {
	const rule = "V8"
	fn := w.Fn("(*itemLoc).read")
	if fn == nil {
		r.Unknown(rule, "anchor (*itemLoc).read", "-", "item reader not found")
		return
	}
	n := 0
	eachInstr(fn, func(in ssa.Instruction) {
		alloc, ok := in.(*ssa.Call)
		if !ok || staticCalleeName(alloc) != "(*Store).ItemAlloc" {
			return
		}
		n++
		key := fmt.Sprintf("(*itemLoc).read › item#%d is complete (priority, key) before it is installed", n)
		why := ""
		var badAt ssa.Instruction
		wk := &Walker{Fn: fn}
		wk.OnInstr = func(env *Env, x ssa.Instruction, trail []*ssa.BasicBlock) bool {
			switch y := x.(type) {
			case *ssa.Store:
				if base, isP := isFieldAddr(y.Addr, "Item", "Priority"); isP && env.Resolve(base) == ssa.Value(alloc) {
					env.flags["prio"] = true
				}
			case ssa.CallInstruction:
				name := staticCalleeName(y)
				args := y.Common().Args
				// key bytes: a file read or a copy into i.Key
				for _, a := range args {
					if base, isK := isLoadOfField(a, "Item", "Key"); isK && env.Resolve(base) == ssa.Value(alloc) {
						if y.Common().IsInvoke() || strings.HasSuffix(name, "copy") {
							env.flags["key"] = true
						}
						if b, isB := y.Common().Value.(*ssa.Builtin); isB && b.Name() == "copy" && a == args[0] {
							env.flags["key"] = true
						}
					}
				}
				if strings.HasSuffix(name, ".casItem") {
					for _, a := range args {
						if env.Resolve(a) == ssa.Value(alloc) {
							if !env.flags["prio"] && why == "" {
								why, badAt = "installed in the node's cache slot without its Priority having been set from the header: the tree then treats the node as priority 0 and the next insert is hoisted above it", x
							}
							if !env.flags["key"] && why == "" {
								why, badAt = "installed in the node's cache slot without its key bytes having been filled", x
							}
							return true
						}
					}
				}
				if x == ssa.Instruction(alloc) {
					return false
				}
			case *ssa.Return:
				return true
			}
			return false
		}
		wk.Run(alloc, nil)
		pos := w.InstrPos(in)
		if badAt != nil {
			pos = w.InstrPos(badAt)
		}
		r.Check(why == "", rule, key, pos, "Priority stored and key bytes read on every path from ItemAlloc to casItem", "a freshly allocated item can be "+why)
	})
	r.Floor(rule, 1)
}

// ---------------------------------------------------------------- F7

// refsAliveArm: iff tests a version's reference count; returns the successor on which the
// count is still positive (the version stays).
func refsAliveArm(iff *ssa.If) (int, bool) {
	c, pol := Guard{Cond: iff.Cond, Pol: true}.atom()
	b, ok := c.(*ssa.BinOp)
	if !ok {
		return 0, false
	}
	if _, isRefs := isLoadOfField(b.X, "rootNodeLoc", "refs"); !isRefs {
		return 0, false
	}
	k, isK := constInt(b.Y)
	if !isK {
		return 0, false
	}
	var aliveWhenTrue bool
	switch {
	case b.Op == token.GTR && k == 0, b.Op == token.GEQ && k == 1, b.Op == token.NEQ && k == 0:
		aliveWhenTrue = true
	case b.Op == token.LEQ && k == 0, b.Op == token.LSS && k == 1, b.Op == token.EQL && k == 0:
		aliveWhenTrue = false
	default:
		return 0, false
	}
	if aliveWhenTrue == pol {
		return 0, true
	}
	return 1, true
}

func ruleF7(w *World, r *Report) {
	const rule = "F7"
	fn := w.Fn("(*Collection).rootDecRefUnlocked")
	if fn == nil {
		r.Unknown(rule, "anchor (*Collection).rootDecRefUnlocked", "-", "version release routine not found")
		return
	}
	why, tests := "", 0
	var badAt ssa.Instruction
	wk := &Walker{Fn: fn}
	wk.OnEdge = func(env *Env, from, to *ssa.BasicBlock, k int) bool {
		if iff, ok := from.Instrs[len(from.Instrs)-1].(*ssa.If); ok {
			if arm, isRefs := refsAliveArm(iff); isRefs {
				tests++
				if arm == k {
					env.flags["alive"] = true
				}
			}
		}
		return false
	}
	wk.OnInstr = func(env *Env, in ssa.Instruction, trail []*ssa.BasicBlock) bool {
		switch x := in.(type) {
		case ssa.CallInstruction:
			switch staticCalleeName(x) {
			case "(*Collection).reclaimNodesUnlocked":
				env.flags["reclaimed"] = true
			case "(*Collection).freeRootNodeLoc":
				env.flags["freed"] = true
			}
		case *ssa.Panic:
			return true
		case *ssa.Return:
			if in.Block().Comment == "recover" {
				return true
			}
			if !env.flags["alive"] && why == "" {
				switch {
				case !env.flags["reclaimed"]:
					why, badAt = "a path on which the count reached zero returns without reclaiming the version's nodes: the items those nodes hold are never released (ItemDecRef) and the nodes never recycled", in
				case !env.flags["freed"]:
					why, badAt = "a path on which the count reached zero returns without freeing the version handle", in
				}
			}
			return true
		}
		return false
	}
	wk.Run(nil, nil)
	if tests == 0 && why == "" {
		why = "the routine never tests the reference count"
	}
	pos := w.Pos(fn.Pos())
	if badAt != nil {
		pos = w.InstrPos(badAt)
	}
	r.Check(why == "", rule, "(*Collection).rootDecRefUnlocked › a version at count zero is reclaimed and freed on every path", pos, "refs > 0 ⇒ return; otherwise reclaimNodesUnlocked(root…) and freeRootNodeLoc on every path, whatever kind of store releases it", why)
}

// ---------------------------------------------------------------- B5

func ruleB5(w *World, r *Report) {
	const rule = "B5"
	fn := w.Fn("(*Collection).Len")
	if fn == nil {
		r.Unknown(rule, "anchor (*Collection).Len", "-", "exported API not found")
		return
	}
	idx := errResultIndex(fn)
	why, n := "", 0
	var badAt ssa.Instruction
	wk := &Walker{Fn: fn}
	wk.OnInstr = func(env *Env, in ssa.Instruction, trail []*ssa.BasicBlock) bool {
		switch x := in.(type) {
		case ssa.CallInstruction:
			if strings.Contains(staticCalleeName(x), "VisitItems") {
				env.flags["visited"] = true
			}
		case *ssa.Return:
			if in.Block().Comment == "recover" || idx < 0 {
				return true
			}
			if !isNilConst(env.Resolve(x.Results[idx])) && isNonNilErrorValue(env.Resolve(x.Results[idx])) {
				return true
			}
			n++
			v := env.Resolve(x.Results[1-idx])
			if k, isK := constInt(v); isK && k == 0 {
				return true
			}
			// a named result that nothing has assigned on this path is still zero
			if ld, isLd := v.(*ssa.UnOp); isLd && ld.Op == token.MUL && !env.flags["visited"] {
				if al, isAl := ld.X.(*ssa.Alloc); isAl && al.Parent() == fn {
					if _, assigned := env.vals[al]; !assigned {
						return true
					}
				}
			}
			// what is refused is a number remembered in the collection / store object
			if remembered(v, 0) && !env.flags["visited"] && why == "" {
				why, badAt = "Len can answer with a number kept in a field of the collection (a remembered count) instead of counting in this call: once the collection changed — version handles are recycled, so their identity proves nothing — the answer, and the block visits sized by it, are wrong", in
			}
			return true
		}
		return false
	}
	wk.Run(nil, nil)
	pos := w.Pos(fn.Pos())
	if badAt != nil {
		pos = w.InstrPos(badAt)
	}
	r.Check(why == "" && n > 0, rule, "(*Collection).Len › returns the count of a visit made by this call", pos, "every non-error return is 0 (empty collection) or follows this call's own full visit", why)
}

// ---------------------------------------------------------------- E1r / E1h

func ruleE1r(w *World, r *Report) {
	const rule = "E1r"
	var roots []*ssa.Function
	for _, n := range []string{"(*Collection).VisitItemsAscendEx", "(*Collection).VisitItemsDescendEx"} {
		if f := w.Fn(n); f != nil {
			roots = append(roots, f)
		}
	}
	if len(roots) == 0 {
		r.Unknown(rule, "anchor VisitItems*Ex", "-", "visit APIs not found")
		return
	}
	seen := map[*ssa.Function]bool{}
	for f := range w.G.ReachFrom(roots...).Set {
		if w.InLib(f) && !seen[f] {
			seen[f] = true
		}
	}
	var fns []*ssa.Function
	for _, f := range w.Funcs {
		if seen[f] {
			fns = append(fns, f)
		}
	}
	for _, f := range fns {
		for _, fc := range w.fallibleCalls(f) {
			w.checkErrorFlow(r, rule, fc)
		}
	}
	r.Floor(rule, 8)
}

func ruleE1h(w *World, r *Report) {
	const rule = "E1h"
	for _, f := range w.Funcs {
		if !w.InLib(f) {
			continue
		}
		hooks := false
		for _, cb := range w.G.CbIn[f] {
			if strings.Contains(cb.Desc, "AfterItemRead") || strings.Contains(cb.Desc, "BeforeItemWrite") {
				hooks = true
			}
		}
		if !hooks {
			continue
		}
		for _, fc := range w.fallibleCalls(f) {
			w.checkErrorFlow(r, rule, fc)
		}
	}
	r.Floor(rule, 4)
}

// remembered: v is (or merges) a value loaded from a field of the Collection / Store object.
func remembered(v ssa.Value, d int) bool {
	if d > 6 || v == nil {
		return false
	}
	v = stripConv(v)
	switch x := v.(type) {
	case *ssa.UnOp:
		if x.Op == token.MUL {
			if _, isC := isFieldAddr(x.X, "Collection", ""); isC {
				return true
			}
			if fa, ok := x.X.(*ssa.FieldAddr); ok {
				if _, st, _, okF := fieldOf(fa); okF && st != nil && (st.Obj().Name() == "Collection" || st.Obj().Name() == "Store") {
					return true
				}
			}
		}
	case *ssa.Phi:
		for _, e := range x.Edges {
			if remembered(e, d+1) {
				return true
			}
		}
	case *ssa.BinOp:
		return remembered(x.X, d+1) || remembered(x.Y, d+1)
	}
	return false
}

package main

// C04 snapshots, C10 node recycling, C12 collection management (DESIGN §4): G1 read-only
// guards, S1 snapshot construction, F1–F5 recycling discipline, M1–M5 collection map.

import (
	"fmt"
	"go/token"
	"go/types"
	"strings"

	"golang.org/x/tools/go/ssa"
)

// ---- G1

// guardedNotReadOnly: block b is dominated by the false arm of a Store.readOnly test.
func guardedNotReadOnly(b *ssa.BasicBlock) bool {
	for _, f := range factsAt(b) {
		if _, ok := isLoadOfField(f.Cond, "Store", "readOnly"); ok && !f.Pol {
			return true
		}
	}
	return false
}

// guardedEffect: PUBLISH of a new version, file write or truncate.
func (w *World) guardedEffect(fn *ssa.Function, in ssa.Instruction) string {
	if st, base, ok := isStoreToField(in, "Collection", "root"); ok && !isNilConst(st.Val) && !w.unpublished(base) {
		return "PUBLISH (new version stored to Collection.root)"
	}
	for _, s := range w.G.SinksIn[fn] {
		if s.Instr == in && (s.Method == "WriteAt" || s.Method == "Truncate") {
			return "file " + s.Method
		}
	}
	return ""
}

func ruleG1(w *World, r *Report) {
	const rule = "G1"
	// cut edges: call sites already behind !readOnly, and initialising publishes (prev == nil)
	cut := func(e *Edge) bool {
		if e.Site == nil || e.Site.Block() == nil {
			return false
		}
		if guardedNotReadOnly(e.Site.Block()) {
			return true
		}
		if c, ok := e.Site.(ssa.CallInstruction); ok && w.Name(e.To) == "(*Collection).rootCAS" && len(c.Common().Args) > 1 && isNilConst(c.Common().Args[1]) {
			return true // INIT: first version of a collection being decoded
		}
		return false
	}
	n := 0
	for _, e := range w.Exported() {
		name := w.Name(e)
		if name == "(*Store).ItemValWrite" {
			continue // the value-write dispatch wrapper writes by definition; its callers are judged
		}
		reach := w.G.ReachFromFiltered(cut, e)
		bad := false
		for f := range reach.Set {
			if !w.InLib(f) || bad {
				continue
			}
			if w.Name(f) == "(*Store).ItemValWrite" && f != e {
				// reached un-guarded from e
			}
			eachInstr(f, func(in ssa.Instruction) {
				if bad {
					return
				}
				eff := w.guardedEffect(f, in)
				if eff == "" || guardedNotReadOnly(in.Block()) {
					return
				}
				bad = true
				r.Bad(rule, name+" › effects behind !readOnly", w.InstrPos(in), fmt.Sprintf("%s in %s is reachable from %s on a call path with no false-arm test of Store.readOnly: a snapshot could change the store or the file", eff, w.Name(f), name), reach.Path(f)...)
			})
		}
		if !bad {
			n++
			r.OK(rule, name+" › effects behind !readOnly", w.Pos(e.Pos()), "every publish / file write / truncate reachable from here lies behind a false-arm test of Store.readOnly (or is the initialising publish of a collection being decoded)")
		}
	}
	// "snapshots refuse": the read-only arm of the mutators returns an error
	for _, name := range []string{"(*Collection).SetItem", "(*Collection).Delete", "(*Store).Flush", "(*Collection).Write"} {
		fn := w.Fn(name)
		if fn == nil {
			r.Unknown(rule, "anchor "+name, "-", "exported API not found")
			continue
		}
		key := name + " › read-only arm returns an error"
		// explore every path on which each Store.readOnly test answers "true" (the store is a
		// snapshot): all of them must end in the return of a definite error
		idx := errResultIndex(fn)
		ok, tests := idx >= 0, 0
		why := "the function has no error result"
		var badAt ssa.Instruction
		wk := &Walker{Fn: fn}
		wk.Branch = func(env *Env, ifi *ssa.If) (bool, bool) {
			c, pol := Guard{Cond: ifi.Cond, Pol: true}.atom()
			if _, isRO := isLoadOfField(c, "Store", "readOnly"); isRO {
				tests++
				return pol, !pol
			}
			return true, true
		}
		wk.OnInstr = func(env *Env, in ssa.Instruction, trail []*ssa.BasicBlock) bool {
			if ret, isRet := in.(*ssa.Return); isRet && idx >= 0 && in.Block().Comment != "recover" {
				if v := env.Resolve(ret.Results[idx]); !isNonNilErrorValue(v) && ok {
					ok, badAt = false, in
					why = "with Store.readOnly true a path through the function returns something other than a definite error: a snapshot does not refuse this call"
				}
				return true
			}
			return false
		}
		if idx >= 0 {
			wk.Run(nil, nil)
		}
		if ok && tests == 0 {
			ok, why = false, "the function never tests Store.readOnly"
		}
		pos := w.Pos(fn.Pos())
		if badAt != nil {
			pos = w.InstrPos(badAt)
		}
		r.Check(ok, rule, key, pos, "on every path where the Store.readOnly test answers true the call returns a definite error", why)
	}
	r.Floor(rule, 45)
}

// ---- S1

func ruleS1(w *World, r *Report) {
	const rule = "S1"
	fn := w.Fn("(*Store).Snapshot")
	if fn == nil {
		r.Unknown(rule, "anchor (*Store).Snapshot", "-", "exported API not found")
		return
	}
	nRoot, nRO, nLock := 0, 0, 0
	eachInstr(fn, func(in ssa.Instruction) {
		if st, base, ok := isStoreToField(in, "Collection", "root"); ok {
			nRoot++
			key := fmt.Sprintf("(*Store).Snapshot › snapshot collection root#%d is a pinned version", nRoot)
			c := callOfValue(st.Val)
			okPin := c != nil && staticCalleeName(c) == "(*Collection).rootAddRef" && w.unpublished(base)
			r.Check(okPin, rule, key, w.InstrPos(in), "root: orig.rootAddRef() — taken under the lock with a reference", "the snapshot's collection does not get its version through rootAddRef: it is shared without a reference / read without the lock")
		}
		if st, base, ok := isStoreToField(in, "Store", "readOnly"); ok && w.unpublished(base) {
			nRO++
			k, isK := st.Val.(*ssa.Const)
			r.Check(isK && k.Value != nil && k.Value.String() == "true", rule, "(*Store).Snapshot › snapshot store is read-only", w.InstrPos(in), "readOnly: true", "the snapshot store is not created read-only")
		}
		if st, base, ok := isStoreToField(in, "Collection", "rootLock"); ok && w.unpublished(base) {
			nLock++
			_, fromOrig := isLoadOfField(st.Val, "Collection", "rootLock")
			r.Check(fromOrig, rule, "(*Store).Snapshot › shares the original's rootLock", w.InstrPos(in), "rootLock copied from the original collection (one lock protects the shared versions)", "the snapshot collection does not share the original's rootLock: refcounts of shared versions are updated under two different locks")
		}
		if st, base, ok := isStoreToField(in, "Store", "coll"); ok && w.unpublished(base) {
			fresh := false
			for _, rt := range w.Roots(st.Val, true) {
				if rt.Kind == "call" && w.Name(rt.Fn) == "copyColl" {
					fresh = true
				}
			}
			if al, isAl := st.Val.(*ssa.Alloc); isAl {
				if v := singleStore(al); v != nil {
					if c := callOfValue(v); c != nil && staticCalleeName(c) == "copyColl" {
						fresh = true
					}
					// the copy written out in place: a map made by this very call
					if mm, isMM := unwrap(v).(*ssa.MakeMap); isMM && mm.Parent() == fn {
						fresh = true
					}
				}
			}
			if mm, isMM := unwrap(st.Val).(*ssa.MakeMap); isMM && mm.Parent() == fn {
				fresh = true
			}
			r.Check(fresh, rule, "(*Store).Snapshot › own copy of the collection map", w.InstrPos(in), "coll: copy of the original's map", "the snapshot shares the original's collection map object")
		}
	})
	if nRoot == 0 {
		r.Bad(rule, "(*Store).Snapshot › snapshot collection root is a pinned version", w.Pos(fn.Pos()), "Snapshot builds no collection handles")
	}
	if nRO == 0 {
		r.Bad(rule, "(*Store).Snapshot › snapshot store is read-only", w.Pos(fn.Pos()), "Snapshot never sets readOnly")
	}
	if nLock == 0 {
		r.Bad(rule, "(*Store).Snapshot › shares the original's rootLock", w.Pos(fn.Pos()), "Snapshot never sets rootLock")
	}
	r.Floor(rule, 4)
}

func singleStore(al *ssa.Alloc) ssa.Value {
	var v ssa.Value
	n := 0
	if refs := al.Referrers(); refs != nil {
		for _, rf := range *refs {
			if st, ok := rf.(*ssa.Store); ok && st.Addr == al {
				n++
				v = st.Val
			}
		}
	}
	if n == 1 {
		return v
	}
	return nil
}

// ---- F1–F5

func ruleF1(w *World, r *Report) {
	const rule = "F1"
	allocator := map[string]bool{"(*Collection).mkNode": true, "(*Collection).mkNodeLoc": true, "(*Collection).mkRootNodeLoc": true,
		"(*Collection).freeNodeUnlocked": true, "(*Collection).freeNodeLoc": true, "(*Collection).freeRootNodeLoc": true}
	n := 0
	for _, fn := range w.Funcs {
		if !w.InLib(fn) || fn.Name() == "init" {
			continue
		}
		eachInstr(fn, func(in ssa.Instruction) {
			st, ok := in.(*ssa.Store)
			if !ok {
				return
			}
			g, ok := st.Addr.(*ssa.Global)
			if !ok || protectedGlobals[g.Name()] == "" {
				return
			}
			n++
			key := fmt.Sprintf("%s › write free list %s#%d", w.Name(fn), g.Name(), n)
			r.Check(allocator[w.Name(fn)], rule, key, w.InstrPos(in), "free list written by the allocator only", "a free list is written outside the allocator/free routines")
		})
	}
	r.Floor(rule, 6)
}

// F2: a version's nodes are reclaimed only once its refcount is not positive.
func ruleF2(w *World, r *Report) {
	const rule = "F2"
	n := 0
	for _, fn := range w.Funcs {
		if !w.InLib(fn) {
			continue
		}
		eachInstr(fn, func(in ssa.Instruction) {
			c, ok := in.(*ssa.Call)
			if !ok {
				return
			}
			cn := staticCalleeName(c)
			if cn != "(*Collection).reclaimNodesUnlocked" && cn != "(*Collection).freeRootNodeLoc" {
				return
			}
			if w.Name(fn) == cn {
				return // the reclaimer's own recursion
			}
			n++
			key := fmt.Sprintf("%s › call %s#%d › only at refs <= 0", w.Name(fn), cn, n)
			ok2 := false
			for _, f := range factsAt(in.Block()) {
				b, isB := f.Cond.(*ssa.BinOp)
				if !isB {
					continue
				}
				if _, isRefs := isLoadOfField(b.X, "rootNodeLoc", "refs"); !isRefs {
					continue
				}
				k, isK := constInt(b.Y)
				if !isK {
					continue
				}
				// refs > 0 false; refs <= 0 true; refs == 0 true; refs < 1 true
				switch {
				case b.Op == token.GTR && k == 0 && !f.Pol, b.Op == token.LEQ && k == 0 && f.Pol, b.Op == token.EQL && k == 0 && f.Pol, b.Op == token.LSS && k == 1 && f.Pol, b.Op == token.GEQ && k == 1 && !f.Pol:
					ok2 = true
				}
			}
			r.Check(ok2, rule, key, w.InstrPos(in), "dominated by refs <= 0", "nodes / the version handle are reclaimed without the refcount being known non-positive: a reader still holds the version")
		})
	}
	// the decrement itself
	dec := w.Fn("(*Collection).rootDecRefUnlocked")
	if dec != nil {
		found := false
		eachInstr(dec, func(in ssa.Instruction) {
			if st, _, ok := isStoreToField(in, "rootNodeLoc", "refs"); ok {
				if b, isB := st.Val.(*ssa.BinOp); isB && b.Op == token.SUB {
					if k, isK := constInt(b.Y); isK && k == 1 {
						found = true
					}
				}
			}
		})
		r.Check(found, rule, "(*Collection).rootDecRefUnlocked › decrements by one", w.Pos(dec.Pos()), "refs--", "the release function does not decrement the refcount by exactly one")
	}
	r.Floor(rule, 3)
}

// F3: bulk marking (old mark == nil: marks live, unmarked nodes) only under sole ownership
// of a writable store, decided under the version lock.
func ruleF3(w *World, r *Report) {
	const rule = "F3"
	li := w.Locks()
	n := 0
	for _, fn := range w.Funcs {
		if !w.InLib(fn) {
			continue
		}
		eachInstr(fn, func(in ssa.Instruction) {
			c, ok := in.(*ssa.Call)
			if !ok || staticCalleeName(c) != "(*Collection).reclaimMarkUpdate" || len(c.Common().Args) != 4 {
				return
			}
			if !isNilConst(c.Common().Args[2]) {
				return
			}
			n++
			key := fmt.Sprintf("%s › bulk mark#%d only under sole ownership", w.Name(fn), n)
			sole, underLock, writable := false, false, false
			for _, f := range factsAt(in.Block()) {
				if b, isB := f.Cond.(*ssa.BinOp); isB {
					if _, isRefs := isLoadOfField(b.X, "rootNodeLoc", "refs"); isRefs {
						k, isK := constInt(b.Y)
						if isK && ((b.Op == token.EQL && k == 1 && f.Pol) || (b.Op == token.LEQ && k == 1 && f.Pol) || (b.Op == token.GTR && k == 1 && !f.Pol) || (b.Op == token.NEQ && k == 1 && !f.Pol) || (b.Op == token.LSS && k == 2 && f.Pol)) {
							sole = true
							if ld, ok := b.X.(*ssa.UnOp); ok && li.MustHeld(ld)["Collection.rootLock"] {
								underLock = true
							}
						}
					}
				}
				if _, isRO := isLoadOfField(f.Cond, "Store", "readOnly"); isRO && !f.Pol {
					writable = true
				}
			}
			switch {
			case !sole:
				r.Bad(rule, key, w.InstrPos(in), "the whole cached tree of the version is marked reclaimable (old mark nil ⇒ live nodes are marked) without a test that this handle holds the only reference: a snapshot, reader or replacement collection sharing the version has its nodes recycled at the next release")
			case !underLock:
				r.Bad(rule, key, w.InstrPos(in), "the sole-ownership test reads refs outside the version lock")
			case !writable:
				r.Bad(rule, key, w.InstrPos(in), "bulk marking is not restricted to the writable store: closing a snapshot marks nodes the original still uses")
			default:
				r.OK(rule, key, w.InstrPos(in), "dominated by refs == 1 (read under rootLock) and !readOnly")
			}
		})
	}
	r.Floor(rule, 1)
}

// F4: per-node marks follow the copy that supersedes the node.
func ruleF4(w *World, r *Report) {
	const rule = "F4"
	n := 0
	for _, name := range []string{"(*Store).union", "(*Store).split", "(*Store).join"} {
		fn := w.Fn(name)
		if fn == nil {
			r.Unknown(rule, "anchor "+name, "-", "test-pinned treap function not found")
			continue
		}
		var mks []*ssa.Call
		eachInstr(fn, func(in ssa.Instruction) {
			if c, ok := in.(*ssa.Call); ok && staticCalleeName(c) == "(*Collection).mkNode" {
				mks = append(mks, c)
			}
		})
		eachInstr(fn, func(in ssa.Instruction) {
			c, ok := in.(*ssa.Call)
			if !ok || staticCalleeName(c) != "(*Collection).markReclaimable" {
				return
			}
			n++
			key := fmt.Sprintf("%s › mark#%d follows the superseding copy", name, n)
			// every path from the entry to the mark passes a mkNode of this function
			isMk := func(x ssa.Instruction) bool {
				for _, mk := range mks {
					if x == ssa.Instruction(mk) {
						return true
					}
				}
				return false
			}
			// (explored with the values of each path, so that an error result assigned earlier
			// and tested afterwards does not open a path that cannot be taken)
			dom := len(mks) > 0
			wk := &Walker{Fn: fn}
			wk.OnInstr = func(env *Env, x ssa.Instruction, trail []*ssa.BasicBlock) bool {
				if isMk(x) {
					return true // copied: whatever is marked further on follows a copy
				}
				if x == ssa.Instruction(c) {
					dom = false
					return true
				}
				return false
			}
			wk.Run(nil, nil)
			// the mark argument must be the function's own reclaimMark parameter
			markOK := false
			if p, isP := c.Common().Args[2].(*ssa.Parameter); isP && isLibType(p.Type(), "node") {
				markOK = true
			}
			switch {
			case !dom:
				r.Bad(rule, key, w.InstrPos(in), "a node is marked reclaimable on a path where no copy (mkNode) of it was made: the node is still part of the tree being returned")
			case !markOK:
				r.Bad(rule, key, w.InstrPos(in), "the node is not marked with the reclaim mark handed in by the caller (the version being replaced)")
			default:
				r.OK(rule, key, w.InstrPos(in), "dominated by a mkNode of this function; marked with the caller's version mark")
			}
		})
	}
	r.Floor(rule, 8)
}

// F5: marks are re-targeted from the pinned old version to the fresh new version, and the
// returned temporaries are parked in the new version's reclaimLater.
func ruleF5(w *World, r *Report) {
	const rule = "F5"
	n := 0
	for _, fn := range w.Funcs {
		if !w.InLib(fn) {
			continue
		}
		eachInstr(fn, func(in ssa.Instruction) {
			c, ok := in.(*ssa.Call)
			if !ok || staticCalleeName(c) != "(*Collection).reclaimMarkUpdate" || len(c.Common().Args) != 4 {
				return
			}
			if isNilConst(c.Common().Args[2]) || w.Name(fn) == "(*Collection).reclaimMarkUpdate" {
				return
			}
			n++
			key := fmt.Sprintf("%s › re-target#%d old pinned → new fresh, parked", w.Name(fn), n)
			oldBase, ok1 := isFieldAddr(c.Common().Args[2], "rootNodeLoc", "reclaimMark")
			newBase, ok2 := isFieldAddr(c.Common().Args[3], "rootNodeLoc", "reclaimMark")
			okOld := ok1 && callOfValue(oldBase) != nil && staticCalleeName(callOfValue(oldBase)) == "(*Collection).rootAddRef"
			okNew := ok2 && callOfValue(newBase) != nil && staticCalleeName(callOfValue(newBase)) == "(*Collection).mkRootNodeLoc"
			parked := false
			if refs := c.Referrers(); refs != nil {
				for _, rf := range *refs {
					if st, ok := rf.(*ssa.Store); ok {
						if ia, ok := st.Addr.(*ssa.IndexAddr); ok {
							if b, ok := isFieldAddr(ia.X, "rootNodeLoc", "reclaimLater"); ok && b == newBase {
								parked = true
							}
						}
					}
				}
			}
			switch {
			case !okOld:
				r.Bad(rule, key, w.InstrPos(in), "the old mark is not the reclaim mark of the version pinned by this mutation")
			case !okNew:
				r.Bad(rule, key, w.InstrPos(in), "the new mark is not the reclaim mark of the version created by this mutation")
			case !parked:
				r.Bad(rule, key, w.InstrPos(in), "the temporary returned by the re-target is not parked in the new version's reclaimLater: it is never reclaimed, or reclaimed while the new version still uses it")
			default:
				r.OK(rule, key, w.InstrPos(in), "reclaimMarkUpdate(x, &pinned.reclaimMark, &new.reclaimMark) → new.reclaimLater[i]")
			}
		})
	}
	r.Floor(rule, 4)
}

// ---- M1–M5

func isCollMap(t types.Type) bool {
	m, ok := t.Underlying().(*types.Map)
	return ok && isLibType(m.Elem(), "Collection")
}

func (w *World) freshMap(v ssa.Value) bool {
	switch x := v.(type) {
	case *ssa.MakeMap:
		return true
	case *ssa.Call:
		f := x.Common().StaticCallee()
		if f == nil || !w.InLib(f) {
			return false
		}
		ok, n := true, 0
		eachInstr(f, func(in ssa.Instruction) {
			if ret, isRet := in.(*ssa.Return); isRet && len(ret.Results) == 1 {
				n++
				if _, isMk := ret.Results[0].(*ssa.MakeMap); !isMk {
					ok = false
				}
			}
		})
		return ok && n > 0
	case *ssa.UnOp:
		if x.Op == token.MUL {
			if al, ok := x.X.(*ssa.Alloc); ok {
				if sv := singleStore(al); sv != nil {
					return w.freshMap(sv)
				}
			}
		}
	case *ssa.Phi:
		for _, e := range x.Edges {
			if !w.freshMap(e) {
				return false
			}
		}
		return len(x.Edges) > 0
	}
	return false
}

func ruleM1(w *World, r *Report) {
	const rule = "M1"
	n := 0
	for _, fn := range w.Funcs {
		if !w.InLib(fn) {
			continue
		}
		eachInstr(fn, func(in ssa.Instruction) {
			var m ssa.Value
			what := ""
			switch x := in.(type) {
			case *ssa.MapUpdate:
				if isCollMap(x.Map.Type()) {
					m, what = x.Map, "update"
				}
			case *ssa.Call:
				if b, ok := x.Common().Value.(*ssa.Builtin); ok && b.Name() == "delete" && isCollMap(x.Common().Args[0].Type()) {
					m, what = x.Common().Args[0], "delete"
				}
			}
			if m == nil {
				return
			}
			n++
			key := fmt.Sprintf("%s › map %s#%d on a private copy", w.Name(fn), what, n)
			if !w.freshMap(m) {
				r.Bad(rule, key, w.InstrPos(in), "the collection map is modified in place: concurrent readers (GetCollection, Flush, Snapshot) iterate the same map object")
				return
			}
			// not after it was published
			pubBefore := false
			eachInstr(fn, func(p ssa.Instruction) {
				c, ok := p.(*ssa.Call)
				if !ok {
					return
				}
				cn := staticCalleeName(c)
				if cn != "(*Store).casColl" && cn != "(*Store).setColl" {
					return
				}
				if instrDominates(p, in) {
					// is it the same map?
					arg := c.Common().Args[len(c.Common().Args)-1]
					if al, ok := arg.(*ssa.Alloc); ok {
						if ld, ok := m.(*ssa.UnOp); ok && ld.X == al {
							pubBefore = true
						}
					}
				}
			})
			r.Check(!pubBefore, rule, key, w.InstrPos(in), "map created/copied in this function and modified before it is published", "the map is modified after it was published with casColl/setColl")
		})
	}
	// every store to Store.coll of a shared store goes through setColl/casColl
	for _, st := range w.fieldStores("Store", "coll") {
		fn := st.Parent()
		base, _ := isFieldAddr(st.Addr, "Store", "coll")
		key := fmt.Sprintf("%s › store Store.coll", w.Name(fn))
		okFn := w.Name(fn) == "(*Store).setColl" || w.Name(fn) == "(*Store).casColl" || w.unpublished(base)
		r.Check(okFn, rule, key, w.InstrPos(st), "through setColl/casColl (under Store.m) or on a store under construction", "Store.coll is assigned directly")
	}
	r.Floor(rule, 5)
}

// M3/M4: SetCollection hands the old version over by a pinned reference and the old lock;
// old handles are closed only after the swap succeeded, speculative ones only when it failed.
func ruleM3(w *World, r *Report) {
	const rule = "M3"
	set := w.Fn("(*Store).SetCollection")
	if set == nil {
		r.Unknown(rule, "anchor (*Store).SetCollection", "-", "exported API not found")
		return
	}
	okRoot, okLock := false, false
	eachInstr(set, func(in ssa.Instruction) {
		if st, base, ok := isStoreToField(in, "Collection", "root"); ok && w.unpublished(base) {
			if c := callOfValue(st.Val); c != nil && staticCalleeName(c) == "(*Collection).rootAddRef" {
				if _, isLookup := c.Common().Args[0].(*ssa.Lookup); isLookup && knownNonNil(in.Block(), c.Common().Args[0]) {
					okRoot = true
				}
			}
		}
		if st, base, ok := isStoreToField(in, "Collection", "rootLock"); ok && w.unpublished(base) {
			if b, ok := isLoadOfField(st.Val, "Collection", "rootLock"); ok {
				if _, isLookup := b.(*ssa.Lookup); isLookup {
					okLock = true
				}
			}
		}
	})
	r.Check(okRoot, rule, "(*Store).SetCollection › existing name: new handle gets old.rootAddRef()", w.Pos(set.Pos()), "cnew.root = coll[name].rootAddRef() under coll[name] != nil", "on an existing name the new handle does not receive a pinned reference of the old version: the items are lost, or shared without a reference")
	r.Check(okLock, rule, "(*Store).SetCollection › existing name: new handle shares the old rootLock", w.Pos(set.Pos()), "cnew.rootLock = coll[name].rootLock", "the new handle does not share the old handle's lock although it shares its version")
	// closing discipline in SetCollection / RemoveCollection
	for _, name := range []string{"(*Store).SetCollection", "(*Store).RemoveCollection"} {
		fn := w.Fn(name)
		if fn == nil {
			continue
		}
		n := 0
		eachInstr(fn, func(in ssa.Instruction) {
			c, ok := in.(*ssa.Call)
			if !ok || staticCalleeName(c) != "(*Collection).closeCollection" {
				return
			}
			n++
			recv := c.Common().Args[0]
			speculative := w.unpublished(recv)
			casTrue, casFalse := false, false
			for _, f := range factsAt(in.Block()) {
				if cc, ok := f.Cond.(*ssa.Call); ok && staticCalleeName(cc) == "(*Store).casColl" {
					if f.Pol {
						casTrue = true
					} else {
						casFalse = true
					}
				}
			}
			key := fmt.Sprintf("%s › closeCollection#%d ordered with the swap", name, n)
			switch {
			case speculative && !casTrue:
				r.OK(rule, key, w.InstrPos(in), "the speculative new handle is closed when the swap failed")
			case speculative && casTrue:
				r.Bad(rule, key, w.InstrPos(in), "the new handle is closed although the swap succeeded: the collection just installed is dead")
			case !speculative && casTrue:
				r.OK(rule, key, w.InstrPos(in), "the replaced/removed handle is closed only after the swap succeeded")
			default:
				_ = casFalse
				r.Bad(rule, key, w.InstrPos(in), "the old handle is closed before (or regardless of whether) the new map was installed: a handle still published is closed")
			}
		})
	}
	r.Floor(rule, 5)
}

// M5: collection management touches no file.
func ruleM5(w *World, r *Report) {
	const rule = "M5"
	for _, name := range []string{"(*Store).SetCollection", "(*Store).RemoveCollection", "(*Store).GetCollection", "(*Store).GetCollectionNames", "(*Store).MakePrivateCollection"} {
		fn := w.Fn(name)
		if fn == nil {
			r.Unknown(rule, "anchor "+name, "-", "exported API not found")
			continue
		}
		s := w.reachesSink(fn, "ReadAt", "WriteAt", "Stat", "Truncate")
		key := name + " › no file effect"
		if s != nil {
			r.Bad(rule, key, w.InstrPos(s.Instr), "collection management reaches file "+s.Method+": it must become durable only at the next Flush", w.G.ReachFrom(fn).Path(s.Fn)...)
		} else {
			r.OK(rule, key, w.Pos(fn.Pos()), "no file sink reachable")
		}
	}
	// M2: GetCollectionNames returns the sorted names
	if fn := w.Fn("(*Store).GetCollectionNames"); fn != nil {
		ok := false
		eachInstr(fn, func(in ssa.Instruction) {
			if ret, isRet := in.(*ssa.Return); isRet && len(ret.Results) == 1 {
				if c := callOfValue(ret.Results[0]); c != nil {
					if f := c.Common().StaticCallee(); f != nil && w.returnsSorted(f) {
						ok = true
					}
				}
			}
		})
		r.Check(ok, "M2", "(*Store).GetCollectionNames › sorted", w.Pos(fn.Pos()), "returns the result of a function whose every return is dominated by sort.Strings", "GetCollectionNames does not return a sorted slice")
	}
}

func (w *World) returnsSorted(f *ssa.Function) bool {
	ok, n := true, 0
	eachInstr(f, func(in ssa.Instruction) {
		ret, isRet := in.(*ssa.Return)
		if !isRet || len(ret.Results) != 1 {
			return
		}
		n++
		this := false
		eachInstr(f, func(x ssa.Instruction) {
			if c, isC := x.(*ssa.Call); isC {
				if g := c.Common().StaticCallee(); g != nil && (g.String() == "sort.Strings" || g.String() == "slices.Sort") && sameVal(c.Common().Args[0], ret.Results[0]) && instrDominates(x, in) {
					this = true
				}
			}
		})
		if !this {
			ok = false
		}
	})
	return ok && n > 0
}

var _ = strings.Contains

func init() {
	register(&Property{
		ID:    "C04",
		Level: "other",
		Rules: []Rule{{"G1", ruleG1}, {"S1", ruleS1}, {"W1", ruleW1}, {"F2", ruleF2}, {"F3", ruleF3}, {"F4", ruleF4}, {"F5", ruleF5}, {"RC1", ruleRC1}, {"P1", ruleP1}, {"P2", ruleP2}, {"S1b", ruleS1b}, {"S1c", ruleS1c}, {"Z4", ruleZ4}, {"E3b", ruleE3b}, {"T3", func(w *World, r *Report) {
			for _, s := range w.G.Sinks {
				if s.Method == "Truncate" && w.InLib(s.Fn) {
					checkTruncateGuards(w, r, "T3", s)
				}
			}
		}}},
		Explanation: "G1 read-only guards: from every exported entry, every publish of a new version, file write and truncate is reachable only through a false-arm test of Store.readOnly somewhere on the call path (call edges behind the guard are cut; the initialising publish of a decoded collection is exempt), and SetItem/Delete/Flush/Write start with that test and return an error on its true arm. S1 Snapshot builds read-only stores whose collections get their version through rootAddRef (under the lock, with a reference), share the original's rootLock and own a copy of the map. W1 copy-on-write of nodes and handles. F3 bulk 'mark the whole tree reclaimable' only under sole ownership (refs == 1 read under the lock) of a writable store — closing a snapshot or a replaced handle must not recycle nodes the original still uses. RC1 chain threshold. P1 pins released. T3 truncate guards. NOT decided: the contents a snapshot observes over arbitrary histories and release orders.",
		ControlSrc:  controlC04,
		Expect: []Expect{
			{"G1", "ZzCtlForcePublish"},
			{"F3", "ZzCtlCloseAll"},
		},
	})
	register(&Property{
		ID:    "C10",
		Level: "other",
		Rules: []Rule{{"F1", ruleF1}, {"F2", ruleF2}, {"F3", ruleF3}, {"F4", ruleF4}, {"F5", ruleF5}, {"E3", ruleE3}, {"E3b", ruleE3b}, {"W1", ruleW1}, {"L1", ruleL1}, {"RC1", ruleRC1}, {"P1", ruleP1}, {"F6", ruleF6}, {"F7", ruleF7}},
		Explanation: "Structural preconditions of 'recycling is invisible': F1 free lists written only by the allocator routines (under their locks: L1); F2 a version's nodes and handle are reclaimed only where refs <= 0 is known; F3 bulk marking only under sole ownership of a writable store; F4 every per-node mark in union/split/join follows the mkNode that supersedes the node and uses the caller's version mark; F5 marks are re-targeted from the pinned old version to the fresh new one and the temporaries parked in its reclaimLater; E3 failed mutations clear the marks they left; W1 nodes are never modified once published; RC1/P1 the refcount protocol that decides when a version dies. NOT decided: unobservability over all histories and release orders, refcount arithmetic.",
		ControlSrc:  controlC04,
		Expect: []Expect{
			{"F3", "ZzCtlCloseAll"},
			{"F1", "ZzCtlPushFree"},
			{"F2", "ZzCtlReclaimNow"},
		},
	})
	register(&Property{
		ID:    "C12",
		Level: "other",
		Rules: []Rule{{"M1", ruleM1}, {"M3", ruleM3}, {"M5", ruleM5}, {"F3", ruleF3}, {"P1", ruleP1}, {"FL1", ruleFL1}, {"F6", ruleF6}, {"O6r", ruleO6r}, {"O1", ruleO1}, {"M7", ruleM7}, {"Y4", ruleLayoutRoot}},
		Explanation: "M1 the collection map is copy-on-write: every update/delete targets a map created or copied in that function, before it is published, and Store.coll is only assigned through setColl/casColl or on a store under construction. M2 GetCollectionNames returns a slice sorted on every return. M3 on an existing name SetCollection gives the new handle the old handle's lock and a pinned reference of the old version; old handles are closed only after the swap succeeded and speculative ones only when it failed. M4 = F3: closing the replaced/removed handle cannot recycle nodes another handle still uses. M5 none of the management functions reaches a file sink, so durability can only come from the next Flush, which pins and lists exactly the names of the map it captured (FL1). NOT decided: name-set bookkeeping across flush/reopen histories.",
		ControlSrc:  controlC04,
		Expect: []Expect{
			{"M1", "ZzCtlRename"},
			{"F3", "ZzCtlCloseAll"},
		},
	})
}

const controlC04 = `package gkvlite

// positive controls for C04 / C10 / C12 (never part of /repo)
func (t *Collection) ZzCtlForcePublish(next *rootNodeLoc) { // publish with no read-only test
	t.rootLock.Lock()
	t.root = next
	t.rootLock.Unlock()
}

func (t *Collection) ZzCtlCloseAll() { // bulk mark without ownership test
	t.rootLock.Lock()
	r := t.root
	t.rootLock.Unlock()
	t.reclaimMarkUpdate(r.root, nil, &r.reclaimMark)
}

func (t *Collection) ZzCtlPushFree(n *node) { // free list written outside the allocator
	freeNodeLock.Lock()
	n.next = freeNodes
	freeNodes = n
	freeNodeLock.Unlock()
}

func (t *Collection) ZzCtlReclaimNow(r *rootNodeLoc) { // reclaim without refcount test
	t.rootLock.Lock()
	freeNodeLock.Lock()
	t.reclaimNodesUnlocked(r.root.Node(), &r.reclaimLater, &r.reclaimMark)
	freeNodeLock.Unlock()
	t.rootLock.Unlock()
}

func (s *Store) ZzCtlRename(from, to string) { // collection map modified in place
	m := *s.getColl()
	m[to] = m[from]
	delete(m, from)
}
`

package main

// C07 — file errors are reported, never swallowed, and failed calls change nothing
// (DESIGN §3.I, §4 C07): E1 propagation, E2 effects only on success paths, E3 mark
// hygiene on failed mutations, E4 no use of the value result on the error path.

import (
	"fmt"
	"go/token"
	"go/types"
	"strings"

	"golang.org/x/tools/go/ssa"
)

// errorReturningCallback: callback point whose signature ends in error.
func cbReturnsError(cb *Callback) bool {
	sig, ok := cb.Instr.Common().Value.Type().Underlying().(*types.Signature)
	if !ok || sig.Results().Len() == 0 {
		return false
	}
	return isErrorType(sig.Results().At(sig.Results().Len() - 1).Type())
}

// fallibleFns: library functions with an error result that may reach a file sink or
// an error-returning callback point.
func (w *World) fallibleFns() map[*ssa.Function]bool {
	if v, ok := w.cache["fallible"]; ok {
		return v.(map[*ssa.Function]bool)
	}
	m := map[*ssa.Function]bool{}
	for _, fn := range w.Funcs {
		if !w.InLib(fn) || errResultIndex(fn) < 0 {
			continue
		}
		reach := w.G.ReachFrom(fn)
		hit := false
		for f := range reach.Set {
			if len(w.G.SinksIn[f]) > 0 {
				hit = true
			}
			for _, cb := range w.G.CbIn[f] {
				if cbReturnsError(cb) && cb.Kind == "store-callback" {
					hit = true
				}
			}
		}
		if hit {
			m[fn] = true
		}
	}
	w.cache["fallible"] = m
	return m
}

type FCall struct {
	Fn     *ssa.Function
	Call   ssa.CallInstruction
	ErrIdx int    // index of the error in the result tuple; -1 if the single result
	Kind   string // static | sink | callback
	Callee string
	Ord    int
}

func (w *World) fallibleCalls(fn *ssa.Function) []FCall {
	var out []FCall
	ord := map[string]int{}
	fall := w.fallibleFns()
	eachInstr(fn, func(in ssa.Instruction) {
		call, ok := in.(ssa.CallInstruction)
		if !ok {
			return
		}
		c := call.Common()
		var sig *types.Signature
		kind, callee := "", ""
		switch {
		case c.IsInvoke():
			for _, s := range w.G.SinksIn[fn] {
				if s.Instr == call {
					kind, callee = "sink", s.Method
					sig = c.Method.Type().(*types.Signature)
				}
			}
		case c.StaticCallee() != nil:
			f := c.StaticCallee()
			if fall[f] {
				kind, callee = "static", w.Name(f)
				sig = f.Signature
			}
		default:
			for _, cb := range w.G.CbIn[fn] {
				if cb.Instr == call && cbReturnsError(cb) {
					kind, callee = "callback", cb.Desc
					sig = c.Value.Type().Underlying().(*types.Signature)
				}
			}
		}
		if kind == "" {
			return
		}
		idx := -1
		if sig.Results().Len() > 1 {
			idx = sig.Results().Len() - 1
		}
		ord[callee]++
		out = append(out, FCall{fn, call, idx, kind, callee, ord[callee]})
	})
	return out
}

func (fc FCall) key(w *World) string {
	return fmt.Sprintf("%s › call %s#%d › error", w.Name(fc.Fn), fc.Callee, fc.Ord)
}

// errValue: the SSA value holding the error result, or nil if it is never extracted.
func (fc FCall) errValue() ssa.Value {
	v, ok := fc.Call.(*ssa.Call)
	if !ok {
		return nil // defer / go: result is lost
	}
	if fc.ErrIdx < 0 {
		if refs := v.Referrers(); refs == nil || len(nonDebugRefs(*refs)) == 0 {
			return nil
		}
		return v
	}
	if refs := v.Referrers(); refs != nil {
		for _, r := range *refs {
			if ex, ok := r.(*ssa.Extract); ok && ex.Index == fc.ErrIdx {
				if rr := ex.Referrers(); rr != nil && len(nonDebugRefs(*rr)) > 0 {
					return ex
				}
			}
		}
	}
	return nil
}

func nonDebugRefs(refs []ssa.Instruction) []ssa.Instruction {
	var out []ssa.Instruction
	for _, r := range refs {
		if _, ok := r.(*ssa.DebugRef); !ok {
			out = append(out, r)
		}
	}
	return out
}

// directEffect: instruction changes visible/durable state (PUBLISH, MAP-PUBLISH,
// SIZE write, FILE-WRITE).
func (w *World) directEffect(fn *ssa.Function, in ssa.Instruction) string {
	if _, base, ok := isStoreToField(in, "Collection", "root"); ok && !isFresh(base) {
		return "PUBLISH (store to Collection.root)"
	}
	if _, base, ok := isStoreToField(in, "Store", "coll"); ok && !isFresh(base) {
		return "MAP-PUBLISH (store to Store.coll)"
	}
	for _, sw := range w.sizeWritesIn(fn) {
		if sw.Instr == in {
			if st, ok := in.(*ssa.Store); ok {
				if base, ok := isFieldAddr(st.Addr, "Store", "size"); ok && isFresh(base) {
					return ""
				}
			}
			return "SIZE write"
		}
	}
	for _, s := range w.G.SinksIn[fn] {
		if s.Instr == in && (s.Method == "WriteAt" || s.Method == "Truncate") {
			return "FILE-WRITE " + s.Method
		}
	}
	return ""
}

// effectfulFns: library functions that (transitively) contain a direct effect.
func (w *World) effectfulFns() map[*ssa.Function]string {
	if v, ok := w.cache["effectful"]; ok {
		return v.(map[*ssa.Function]string)
	}
	direct := map[*ssa.Function]string{}
	for _, fn := range w.Funcs {
		if !w.InLib(fn) {
			continue
		}
		eachInstr(fn, func(in ssa.Instruction) {
			if direct[fn] == "" {
				if e := w.directEffect(fn, in); e != "" {
					direct[fn] = e + " in " + w.Name(fn)
				}
			}
		})
	}
	m := map[*ssa.Function]string{}
	for _, fn := range w.Funcs {
		if !w.InLib(fn) {
			continue
		}
		for f := range w.G.ReachFrom(fn).Set {
			if d := direct[f]; d != "" {
				m[fn] = d
				break
			}
		}
	}
	w.cache["effectful"] = m
	return m
}

func isNonNilErrorValue(v ssa.Value) bool {
	switch x := v.(type) {
	case *ssa.Call:
		if f := x.Common().StaticCallee(); f != nil {
			switch f.String() {
			case "errors.New", "fmt.Errorf":
				return true
			}
		}
	case *ssa.MakeInterface:
		return true
	}
	return false
}

// exposedCell: an error stored into a captured variable / struct field is reported if
// the enclosing API returns (or exposes through a getter) that cell.
func (w *World) exposedCell(fn *ssa.Function, addr ssa.Value) (bool, string) {
	switch a := addr.(type) {
	case *ssa.FreeVar:
		// find the alloc in the parent and a return / result store of its load
		idx := -1
		for i, fv := range fn.FreeVars {
			if fv == a {
				idx = i
			}
		}
		par := fn.Parent()
		if par == nil || idx < 0 {
			return false, ""
		}
		ok, overwritten := false, false
		eachInstr(par, func(in ssa.Instruction) {
			mc, isMC := in.(*ssa.MakeClosure)
			if !isMC || mc.Fn != fn {
				return
			}
			cell := mc.Bindings[idx]
			if fv2, isFV := cell.(*ssa.FreeVar); isFV {
				if ok2, _ := w.exposedCell(par, fv2); ok2 {
					ok = true
				}
				return
			}
			refs := cell.Referrers()
			if refs == nil {
				return
			}
			// the call that runs the callback must not write its own result over the cell the
			// callback parked its error in (`err = visit(..., func() { err = … })`)
			for _, r := range *refs {
				st, isSt := r.(*ssa.Store)
				if !isSt || st.Addr != cell {
					continue
				}
				if c := callOfValue(st.Val); c != nil {
					for _, a := range c.Common().Args {
						v := a
						if ct, isCT := v.(*ssa.ChangeType); isCT {
							v = ct.X
						}
						if v == ssa.Value(mc) {
							overwritten = true
						}
					}
				}
			}
			for _, r := range *refs {
				ld, isLd := r.(*ssa.UnOp)
				if !isLd || ld.Op != token.MUL {
					continue
				}
				if lr := ld.Referrers(); lr != nil {
					for _, u := range *lr {
						switch y := u.(type) {
						case *ssa.Return:
							ok = true
						case *ssa.Store:
							if _, isAl := y.Addr.(*ssa.Alloc); isAl && y.Val == ld {
								ok = true // named result
							}
						case *ssa.Phi:
							ok = true
						}
					}
				}
			}
		})
		if overwritten {
			return false, ""
		}
		return ok, "captured variable returned by " + w.Name(par)
	case *ssa.FieldAddr:
		_, st, name, ok := fieldOf(a)
		if !ok || st == nil {
			return false, ""
		}
		// some library function returns a load of that field
		for _, g := range w.Funcs {
			if !w.InLib(g) {
				continue
			}
			found := false
			eachInstr(g, func(in ssa.Instruction) {
				if r, isRet := in.(*ssa.Return); isRet {
					for _, res := range r.Results {
						if _, ok := isLoadOfField(res, st.Obj().Name(), name); ok {
							found = true
						}
					}
				}
				// … or assigns it to a result / local that is returned (`err = c.err`)
				if ld, isLd := in.(*ssa.UnOp); isLd && ld.Op == token.MUL && isErrorType(ld.Type()) {
					if _, ok := isLoadOfField(ld, st.Obj().Name(), name); ok && ld.Referrers() != nil {
						for _, u := range *ld.Referrers() {
							switch y := u.(type) {
							case *ssa.Phi:
								found = true
							case *ssa.Store:
								if _, isAl := y.Addr.(*ssa.Alloc); isAl && y.Val == ssa.Value(ld) {
									found = true
								}
							}
						}
					}
				}
			})
			if found {
				return true, fmt.Sprintf("field %s.%s exposed by %s", st.Obj().Name(), name, w.Name(g))
			}
		}
	}
	return false, ""
}

func ruleE1(w *World, r *Report) {
	const rule = "E1"
	n := 0
	for _, fn := range w.Funcs {
		if !w.InLib(fn) || len(w.entriesReaching(fn)) == 0 {
			continue
		}
		for _, fc := range w.fallibleCalls(fn) {
			n++
			w.checkErrorFlow(r, rule, fc)
		}
	}
	r.Info["fallible_functions"] = len(w.fallibleFns())
	r.Info["fallible_call_sites"] = n
	r.Floor(rule, 90)
}

func (w *World) checkErrorFlow(r *Report, rule string, fc FCall) {
	fn := fc.Fn
	key := fc.key(w)
	pos := w.InstrPos(fc.Call)
	e := fc.errValue()
	if e == nil {
		// discarded: only the cached re-read idiom is accepted
		if ok, why := w.cachedReRead(fc); ok {
			r.OK(rule, key, pos, why)
			return
		}
		r.Bad(rule, key, pos, "the error result of "+fc.Callee+" is discarded (never inspected)")
		return
	}
	errIdx := errResultIndex(fn)
	effectful := w.effectfulFns()
	var bad string
	var badTrail []*ssa.BasicBlock
	var badPos ssa.Instruction
	fail := func(msg string, in ssa.Instruction, trail []*ssa.BasicBlock) {
		if bad == "" {
			bad, badPos = msg, in
			badTrail = append([]*ssa.BasicBlock{}, trail...)
		}
	}
	wk := &Walker{Fn: fn}
	wk.OnInstr = func(env *Env, in ssa.Instruction, trail []*ssa.BasicBlock) bool {
		switch x := in.(type) {
		case *ssa.Store:
			if env.Resolve(x.Val) == e {
				switch x.Addr.(type) {
				case *ssa.FreeVar, *ssa.FieldAddr:
					if ok, how := w.exposedCell(fn, x.Addr); ok {
						env.flags["exposed:"+how] = true
					}
				}
			}
		case *ssa.Return:
			if errIdx >= 0 {
				v := env.Resolve(x.Results[errIdx])
				if v == e || isNonNilErrorValue(v) || knownNonNil(in.Block(), v) {
					return true // e itself, a fresh error, or another error known non-nil here
				}
				if ph, ok := v.(*ssa.Phi); ok {
					for _, ed := range ph.Edges {
						if ed == e {
							return true // unresolved φ containing e (path entered mid-block)
						}
					}
				}
				fail(fmt.Sprintf("on a path where the error of %s is non-nil the function returns %s as its error", fc.Callee, describeVal(v)), in, trail)
				return true
			}
			for f := range env.flags {
				if strings.HasPrefix(f, "exposed:") {
					return true
				}
			}
			fail(fmt.Sprintf("%s has no error result and does not expose the error of %s: the failure is reported as a normal result", w.Name(fn), fc.Callee), in, trail)
			return true
		case *ssa.Panic:
			return true
		}
		if eff := w.directEffect(fn, in); eff != "" {
			fail(fmt.Sprintf("%s is executed on a path where the error of %s is non-nil", eff, fc.Callee), in, trail)
			return true
		}
		if call, ok := in.(*ssa.Call); ok {
			if f := call.Common().StaticCallee(); f != nil && w.InLib(f) {
				if eff := effectful[f]; eff != "" && !isCleanupFn(w, f) {
					fail(fmt.Sprintf("call of %s (%s) on a path where the error of %s is non-nil", w.Name(f), eff, fc.Callee), in, trail)
					return true
				}
			}
		}
		return false
	}
	wk.Branch = func(env *Env, ifi *ssa.If) (bool, bool) {
		if x, trueMeansNil, ok := nilTest(ifi.Cond); ok && env.Resolve(x) == e {
			return !trueMeansNil, trueMeansNil // follow only the arm where e is non-nil
		}
		return true, true
	}
	wk.OnBackEdge = func(env *Env, from, to *ssa.BasicBlock, trail []*ssa.BasicBlock) bool {
		// a loop whose condition tests the error (`for err == nil && … { …; x, err = f() }`)
		// reports it right after the back edge: one back edge is followed, and the forced
		// non-nil arm of the header's test must then leave the loop
		if !env.flags["back-edge-taken"] {
			env.flags["back-edge-taken"] = true
			return false
		}
		fail(fmt.Sprintf("control continues around a loop (block %d → %d) with the error of %s still unreported", from.Index, to.Index, fc.Callee), from.Instrs[len(from.Instrs)-1], trail)
		return true
	}
	var start ssa.Instruction = fc.Call
	if ex, ok := e.(*ssa.Extract); ok {
		start = ex
		// the extract may precede other extracts; start after the last extract of the tuple
		p := posOf(ex)
		for i := p.i + 1; i < len(p.b.Instrs); i++ {
			if ex2, ok := p.b.Instrs[i].(*ssa.Extract); ok && ex2.Tuple == ex.Tuple {
				start = ex2
			} else {
				break
			}
		}
	}
	wk.Run(start, nil)
	if wk.Truncated {
		r.Unknown(rule, key, pos, "path exploration exceeded its state budget")
		return
	}
	if bad != "" {
		r.Bad(rule, key, pos, bad, append([]string{"offending instruction @ " + w.InstrPos(badPos)}, trailString(w, badTrail)...)...)
		return
	}
	r.OK(rule, key, pos, "on every path where the error may be non-nil it reaches the caller (returned, wrapped or exposed) before any publish / size / file-write effect and without looping")
}

func describeVal(v ssa.Value) string {
	if isNilConst(v) {
		return "nil"
	}
	return fmt.Sprintf("%s (%T)", v.Name(), v)
}

// cleanup functions legitimately run on error paths although they reach an "effect":
// closing a speculative/fresh collection handle.
func isCleanupFn(w *World, f *ssa.Function) bool {
	switch w.Name(f) {
	case "(*Collection).closeCollection":
		return true
	}
	return false
}

// cachedReRead: `x, _ = n.read(o)` where a checked call of the same callee on a ≡
// receiver dominates: the first call cached the node in the handle, the second cannot
// touch the file.
func (w *World) cachedReRead(fc FCall) (bool, string) {
	if fc.Kind != "static" || len(fc.Call.Common().Args) == 0 {
		return false, ""
	}
	callee := fc.Call.Common().StaticCallee()
	recv := fc.Call.Common().Args[0]
	// the callee must have a cache fast path: a return of a non-nil value with nil error
	// that is not preceded by any sink
	if !w.hasCacheFastPath(callee) {
		return false, ""
	}
	for _, other := range w.fallibleCalls(fc.Fn) {
		if other.Call == fc.Call || other.Call.Common().StaticCallee() != callee {
			continue
		}
		if other.errValue() == nil {
			continue
		}
		if !instrDominates(other.Call, fc.Call) {
			continue
		}
		orecv := other.Call.Common().Args[0]
		if sameVal(orecv, recv) || sameHandleParam(orecv, recv) {
			return true, fmt.Sprintf("cached re-read: a checked %s on the same handle dominates (at %s); the handle caches the node, this call cannot reach the file", w.Name(callee), w.InstrPos(other.Call))
		}
	}
	return false, ""
}

// sameHandleParam: both are the same parameter, possibly through a φ with the nil
// constant (the repo nils out locals to save memory).
func sameHandleParam(a, b ssa.Value) bool {
	strip := func(v ssa.Value) ssa.Value {
		if ph, ok := v.(*ssa.Phi); ok {
			var keep ssa.Value
			for _, e := range ph.Edges {
				if isNilConst(e) {
					continue
				}
				if keep != nil && keep != e {
					return v
				}
				keep = e
			}
			if keep != nil {
				return keep
			}
		}
		return v
	}
	return strip(a) == strip(b)
}

// hasCacheFastPath: f returns (cached, nil) on some path that contains no sink call.
func (w *World) hasCacheFastPath(f *ssa.Function) bool {
	if f == nil || errResultIndex(f) < 0 {
		return false
	}
	idx := errResultIndex(f)
	ok := false
	isSink := func(in ssa.Instruction) bool {
		for _, s := range w.G.SinksIn[f] {
			if s.Instr == in {
				return true
			}
		}
		return false
	}
	hit, _ := pathAvoiding(f, nil, func(in ssa.Instruction) bool {
		r, isRet := in.(*ssa.Return)
		if !isRet {
			return false
		}
		return isNilConst(r.Results[idx]) && !isNilConst(r.Results[0])
	}, isSink, nil)
	if hit != nil {
		ok = true
	}
	return ok
}

// ---- E3: mark hygiene on failed mutations

// markingFns: library functions that may set node.next to a reclaim mark on a node they
// did not allocate (transitively).
func (w *World) markingFns() map[*ssa.Function]bool {
	if v, ok := w.cache["marking"]; ok {
		return v.(map[*ssa.Function]bool)
	}
	direct := map[*ssa.Function]bool{}
	for _, fn := range w.Funcs {
		if !w.InLib(fn) {
			continue
		}
		eachInstr(fn, func(in ssa.Instruction) {
			if st, base, ok := isStoreToField(in, "node", "next"); ok && !isNilConst(st.Val) && !isFresh(base) {
				// the free-list push also writes next; it is keyed on the free-list head
				if _, isGlobalLoad := derefGlobal(st.Val); isGlobalLoad {
					return
				}
				direct[fn] = true
			}
		})
	}
	m := map[*ssa.Function]bool{}
	for _, fn := range w.Funcs {
		if !w.InLib(fn) {
			continue
		}
		for f := range w.G.ReachFrom(fn).Set {
			if direct[f] {
				m[fn] = true
			}
		}
	}
	w.cache["marking"] = m
	return m
}

func derefGlobal(v ssa.Value) (*ssa.Global, bool) {
	if u, ok := v.(*ssa.UnOp); ok && u.Op == token.MUL {
		if g, ok := u.X.(*ssa.Global); ok {
			return g, true
		}
	}
	return nil, false
}

// clearingFns: functions that reset node.next to nil on nodes carrying a given mark
// (a store of the nil constant to node.next of a non-fresh node, outside the allocator).
func (w *World) clearingFns() map[*ssa.Function]bool {
	m := map[*ssa.Function]bool{}
	for _, fn := range w.Funcs {
		if !w.InLib(fn) {
			continue
		}
		eachInstr(fn, func(in ssa.Instruction) {
			if st, base, ok := isStoreToField(in, "node", "next"); ok && isNilConst(st.Val) && !isFresh(base) {
				// mkNode resets next of the node it hands out: that node is popped from the free list
				if len(fn.Params) > 0 && takesMarkParam(fn) {
					m[fn] = true
				}
			}
		})
	}
	return m
}

func takesMarkParam(fn *ssa.Function) bool {
	for _, p := range fn.Params[1:] {
		if isLibType(p.Type(), "node") {
			return true
		}
	}
	return false
}

func ruleE3(w *World, r *Report) {
	const rule = "E3"
	marking := w.markingFns()
	clearing := w.clearingFns()
	for _, name := range []string{"(*Collection).SetItem", "(*Collection).Delete"} {
		fn := w.Fn(name)
		if fn == nil {
			r.Unknown(rule, "anchor "+name, "-", "exported mutator not found")
			continue
		}
		// calls that may MARK nodes of the pinned (still current) version: fallible tree
		// operations taking the pinned version's mark
		ord := 0
		eachInstr(fn, func(in ssa.Instruction) {
			call, ok := in.(*ssa.Call)
			if !ok {
				return
			}
			f := call.Common().StaticCallee()
			if f == nil || !marking[f] || !w.fallibleFns()[f] {
				return
			}
			ord++
			key := fmt.Sprintf("%s › call %s#%d › marks cleared on failure", name, w.Name(f), ord)
			// every path from the call to a Return that does not pass the publish must pass a clearing call
			isClear := func(x ssa.Instruction) bool {
				c, ok := x.(ssa.CallInstruction)
				if !ok {
					return false
				}
				g := c.Common().StaticCallee()
				if g == nil {
					return false
				}
				if clearing[g] {
					return true
				}
				// publish attempt: the marks are handed to the new version
				return w.Name(g) == "(*Collection).rootCAS"
			}
			hit, path := pathAvoiding(fn, call, func(x ssa.Instruction) bool {
				_, isRet := x.(*ssa.Return)
				return isRet
			}, isClear, nil)
			if hit != nil {
				r.Bad(rule, key, w.InstrPos(call), "a path from this marking call reaches a return without publishing and without clearing the reclaim marks it left on nodes of the still-current version: releasing that version later recycles live nodes",
					append([]string{"return @ " + w.InstrPos(hit)}, blockPathString(w, path)...)...)
			} else {
				r.OK(rule, key, w.InstrPos(call), "every non-publishing exit after this call clears the marks of the pinned version")
			}
		})
	}
	r.Floor(rule, 3)
}

func init() {
	register(&Property{
		ID:    "C07",
		Level: "other",
		Rules: []Rule{{"E1", ruleE1}, {"E3", ruleE3}, {"E3b", ruleE3b}, {"E4", ruleE4}, {"O3", ruleO3}, {"E5", ruleE5}, {"O3c", ruleO3c}, {"W1", ruleW1}},
		Explanation: "E1/E2: at every call site in the library (reachable from an exported API) of a function that can fail through the file or an error-returning store callback — and at every file sink and such callback itself — a path-sensitive exploration follows every path on which the error may be non-nil and requires that it reaches the caller (returned as is, wrapped, or stored into a captured variable / field that the enclosing API returns or exposes) before any PUBLISH, MAP-PUBLISH, Store.size write or file write, and without going round a loop; a discarded error is accepted only as the cached re-read idiom. E3: in SetItem and Delete every exit that does not publish after a marking tree operation clears the reclaim marks left on the still-current version. Decides the 'reported, never swallowed' clause and the structural part of 'changes nothing'; does NOT decide that later operations behave as if the failed call had never been made, nor absence of hangs (see C08).",
		Assumptions: []string{"io.ReaderAt/io.WriterAt contract: a short read/write returns a non-nil error", "nodes cached in a handle are never evicted (only items are)"},
		ControlSrc:  controlC07,
		Expect: []Expect{
			{"E1", "ZzCtlSwallow › call ReadAt#1"},
			{"E1", "ZzCtlIgnore › call (*Collection).GetItem#1"},
			{"E1", "ZzCtlPublishFirst"},
		},
	})
}

const controlC07 = `package gkvlite

// positive controls for C07 (never part of /repo)
func (s *Store) ZzCtlSwallow(b []byte) (int, error) { // checked but not returned
	n, err := s.file.ReadAt(b, 0)
	if err != nil {
		return 0, nil
	}
	return n, nil
}

func (t *Collection) ZzCtlIgnore(k []byte) *Item { // discarded
	i, _ := t.GetItem(k, true)
	return i
}

func (t *Collection) ZzCtlPublishFirst(n *nodeLoc) error { // effect before the check
	_, err := n.read(t.store)
	t.rootLock.Lock()
	t.root = nil
	t.rootLock.Unlock()
	return err
}
`

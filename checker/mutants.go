package main

// Mutant corpus (DESIGN §2.5): anchored single-edit variants of /repo, applied in
// memory.  Each must compile and must flip the named rule; "Preserving" variants must
// stay silent.  A mutant whose anchor no longer occurs exactly once is skipped.

func init() {
	mutantCorpus = append(mutantCorpus, []Mutant{
		// ---- C19
		{ID: "c19-getitem-eager-value", Props: []string{"C19"}, File: "collection.go",
			Old: "iItem, err := i.read(t, false)\n\t\tif err != nil {\n\t\t\treturn nil, err\n\t\t}\n\t\tif iItem == nil || iItem.Key == nil {",
			New: "iItem, err := i.read(t, true)\n\t\tif err != nil {\n\t\t\treturn nil, err\n\t\t}\n\t\tif iItem == nil || iItem.Key == nil {",
			Rule: "Z2", Why: "GetItem reads values during descent"},
		{ID: "c19-visit-eager-value", Props: []string{"C19"}, File: "treap.go",
			Old: "nItem, err := nItemLoc.read(t, false)\n\tif err != nil {\n\t\treturn false, err\n\t}\n\tif nItem == nil {",
			New: "nItem, err := nItemLoc.read(t, true)\n\tif err != nil {\n\t\treturn false, err\n\t}\n\tif nItem == nil {",
			Rule: "Z2", Why: "visits read every value while descending"},
		{ID: "c19-split-eager-value", Props: []string{"C19"}, File: "treap.go",
			Old: "nItem, err := nItemLoc.read(t, false)\n\tif err != nil {\n\t\treturn &emptyNodeLoc, &emptyNodeLoc, &emptyNodeLoc, err\n\t}",
			New: "nItem, err := nItemLoc.read(t, true)\n\tif err != nil {\n\t\treturn &emptyNodeLoc, &emptyNodeLoc, &emptyNodeLoc, err\n\t}",
			Rule: "Z2", Why: "Delete/Set read values in split"},
		{ID: "c19-unguarded-value-read", Props: []string{"C19"}, File: "item.go",
			Old: "if withValue {\n\t\t\terr := c.store.ItemValRead(", New: "if withValue || loc.Length < 4096 {\n\t\t\terr := c.store.ItemValRead(",
			Rule: "Z2", Why: "small values are read eagerly"},
		{ID: "c19-open-loads-root", Props: []string{"C19"}, File: "collection.go",
			Old: "nloc.loc = &p\n", New: "nloc.loc = &p\n\tif _, err := nloc.read(t.store); err != nil {\n\t\treturn err\n\t}\n",
			Rule: "Z1", Why: "UnmarshalJSON (open) loads the root node"},
		{ID: "c19-whole-record-read", Props: []string{"C19"}, File: "item.go",
			Old: "b := make([]byte, itemLocHdrLength)\n\t\tif _, err := c.store.file.ReadAt(b, loc.Offset); err != nil {",
			New: "b := make([]byte, loc.Length)\n\t\tif _, err := c.store.file.ReadAt(b, loc.Offset); err != nil {",
			Rule: "Z3", Why: "header read fetches the whole record including the value"},
		{ID: "c19-iter-flag-true", Props: []string{"C19"}, File: "collection.go",
			Old: "it.withValue = withValue\n", New: "it.withValue = true\n",
			Rule: "Z2", Why: "iterators always demand values"},
		// ---- C09
		{ID: "c09-tidy-on-open", Props: []string{"C09"}, File: "store.go",
			Old: "\treturn s.readRootsScan(false)\n}", New: "\tif err := s.readRootsScan(false); err != nil {\n\t\treturn err\n\t}\n\treturn s.file.Truncate(atomic.LoadInt64(&s.size))\n}",
			Rule: "A-who", Why: "open truncates trailing junk"},
		{ID: "c09-revert-no-readonly", Props: []string{"C09", "C04"}, File: "store.go",
			Old: "\tif s.readOnly {\n\t\treturn nil\n\t}\n\treturn s.file.Truncate(", New: "\treturn s.file.Truncate(",
			Rule: "A-trunc", Why: "snapshot FlushRevert truncates the shared file"},
		{ID: "c09-copyto-flush-source", Props: []string{"C09", "C11"}, File: "store.go",
			Old: "\t\t\t\tsrcColl.EvictSomeItems()\n", New: "\t\t\t\tsrcColl.EvictSomeItems()\n\t\t\t\tsrcColl.Write()\n",
			Rule: "A-src", Why: "CopyTo writes its source"},
		{ID: "c09-node-write-in-place", Props: []string{"C09"}, File: "node.go",
			Old: "offset := o.getSize()\n", New: "offset := o.getSize()\n\t\tif loc != nil {\n\t\t\toffset = loc.Offset\n\t\t}\n",
			Rule: "A-off", Why: "node rewritten at its old offset"},
		{ID: "c09-size-rewind", Props: []string{"C09"}, File: "node.go",
			Old: "o.setSize(offset + int64(length))", New: "o.setSize(offset)",
			Rule: "", Why: "size not advanced: next write overwrites the node (A-mono/O3)"},
		{ID: "c09-evict-writes", Props: []string{"C09"}, File: "collection.go",
			Old: "\tif i != nil && err != nil {\n\t\tt.store.ItemDecRef(t, i)\n\t}\n\treturn numEvicted",
			New: "\tif i != nil && err != nil {\n\t\tt.store.ItemDecRef(t, i)\n\t}\n\tif numEvicted > 64 {\n\t\tt.Write()\n\t}\n\treturn numEvicted",
			Rule: "A-who", Why: "eviction persists dirty nodes"},
		{ID: "c09-preserve-getsize", Props: []string{"C09"}, File: "item.go", Preserving: true,
			Old: "offset := atomic.LoadInt64(&c.store.size)\n\t\thlength", New: "offset := c.store.getSize()\n\t\thlength",
			Why: "use the getter wrapper"},
	}...)
}

package main

// C18 — iterators and re-entrant callbacks (DESIGN §4 C18): L3 no lock across user
// code / file I/O, I1–I4 channel typestate of the iterator, P1 pins released.

import (
	"fmt"
	"go/token"
	"go/types"

	"golang.org/x/tools/go/ssa"
)

// chanField: v is the channel stored in field <name> of the iterator struct.
func chanField(v ssa.Value) string {
	if _, isChan := v.Type().Underlying().(*types.Chan); !isChan {
		return ""
	}
	if base, ok := derefLoad(v); ok {
		if fa, ok := base.(*ssa.FieldAddr); ok {
			if _, st, name, ok := fieldOf(fa); ok && st != nil && st.Obj().Name() == "iterator" {
				return name
			}
		}
	}
	return ""
}

type chanOp struct {
	fn   *ssa.Function
	in   ssa.Instruction
	kind string // send | recv | close
	ch   string // field name
	ok   bool   // recv with ,ok
}

func (w *World) chanOps() []chanOp {
	var out []chanOp
	for _, fn := range w.Funcs {
		if !w.InLib(fn) {
			continue
		}
		eachInstr(fn, func(in ssa.Instruction) {
			switch x := in.(type) {
			case *ssa.Send:
				if c := chanField(x.Chan); c != "" {
					out = append(out, chanOp{fn, in, "send", c, false})
				}
			case *ssa.UnOp:
				if x.Op == token.ARROW {
					if c := chanField(x.X); c != "" {
						out = append(out, chanOp{fn, in, "recv", c, x.CommaOk})
					}
				}
			case *ssa.Call:
				if b, ok := x.Common().Value.(*ssa.Builtin); ok && b.Name() == "close" {
					if c := chanField(x.Common().Args[0]); c != "" {
						out = append(out, chanOp{fn, in, "close", c, false})
					}
				}
			case *ssa.Select:
				for _, st := range x.States {
					if c := chanField(st.Chan); c != "" {
						out = append(out, chanOp{fn, in, "select", c, false})
					}
				}
			}
		})
	}
	return out
}

// producer side: functions reachable from the targets of `go` statements.
func (w *World) producerFns() map[*ssa.Function]bool {
	var roots []*ssa.Function
	for _, fn := range w.Funcs {
		if !w.InLib(fn) {
			continue
		}
		eachInstr(fn, func(in ssa.Instruction) {
			if g, ok := in.(*ssa.Go); ok {
				if f := g.Common().StaticCallee(); f != nil {
					roots = append(roots, f)
				}
			}
		})
	}
	return w.G.ReachFrom(roots...).Set
}

func closedFlagFact(b *ssa.BasicBlock) (known bool, val bool) {
	for _, f := range factsAt(b) {
		if _, ok := isLoadOfField(f.Cond, "iterator", "closed"); ok {
			return true, f.Pol
		}
	}
	return false, false
}

func ruleI1(w *World, r *Report) {
	const rule = "I1"
	ops := w.chanOps()
	prod := w.producerFns()
	// who may do what
	for i, op := range ops {
		key := fmt.Sprintf("%s › %s %s#%d", w.Name(op.fn), op.kind, op.ch, i+1)
		isProd := prod[op.fn]
		switch {
		case op.kind == "select":
			r.Unknown(rule, key, w.InstrPos(op.in), "select on an iterator channel: the typestate rules do not model it")
		case op.ch == "next" && op.kind == "send":
			r.Check(!isProd, rule, key+" › consumer only", w.InstrPos(op.in), "the consumer requests the next item", "the producer goroutine sends on its own request channel")
		case op.ch == "next" && op.kind == "close":
			r.Check(!isProd, rule, key+" › consumer only", w.InstrPos(op.in), "only the consumer closes the request channel", "the producer closes the request channel: the consumer's next send panics")
		case op.ch == "next" && op.kind == "recv":
			r.Check(isProd, rule, key+" › producer only", w.InstrPos(op.in), "the producer waits for requests", "the consumer receives from its own request channel")
		case op.ch == "items" && op.kind == "send":
			r.Check(isProd, rule, key+" › producer only", w.InstrPos(op.in), "the producer delivers items", "the consumer sends on the items channel")
		case op.ch == "items" && op.kind == "close":
			r.Check(isProd, rule, key+" › producer only", w.InstrPos(op.in), "only the producer closes the items channel", "the consumer closes the items channel: the producer's next send panics")
		case op.ch == "items" && op.kind == "recv":
			r.Check(!isProd, rule, key+" › consumer only", w.InstrPos(op.in), "the consumer takes items", "the producer receives from the items channel")
		}
	}
	// close(next): only when not closed, and the flag is set before returning
	for i, op := range ops {
		if op.kind != "close" || op.ch != "next" {
			continue
		}
		key := fmt.Sprintf("%s › close(next)#%d at most once", w.Name(op.fn), i+1)
		known, val := closedFlagFact(op.in.Block())
		if !(known && !val) {
			r.Bad(rule, key, w.InstrPos(op.in), "close(next) is not dominated by a test that the iterator is not yet closed: a second Close()/Next() closes a closed channel (panic)")
			continue
		}
		hit, path := pathAvoiding(op.fn, op.in, func(x ssa.Instruction) bool { _, ok := x.(*ssa.Return); return ok }, func(x ssa.Instruction) bool {
			st, _, ok := isStoreToField(x, "iterator", "closed")
			if !ok {
				return false
			}
			k, isK := st.Val.(*ssa.Const)
			return isK && k.Value != nil && k.Value.String() == "true"
		}, nil)
		if hit != nil {
			r.Bad(rule, key, w.InstrPos(op.in), "after close(next) a return is reachable without closed = true: the next call closes it again", blockPathString(w, path)...)
		} else {
			r.OK(rule, key, w.InstrPos(op.in), "guarded by !closed and followed by closed = true on every path")
		}
	}
	// the consumer never touches a channel once closed: every consumer-side op is under !closed
	for i, op := range ops {
		if prod[op.fn] || op.kind == "close" {
			continue
		}
		key := fmt.Sprintf("%s › %s %s#%d only while open", w.Name(op.fn), op.kind, op.ch, i+1)
		known, val := closedFlagFact(op.in.Block())
		r.Check(known && !val, rule, key, w.InstrPos(op.in), "dominated by !closed", "a consumer-side channel operation can run after the iterator was closed (send on a closed channel panics; receive blocks or spins)")
	}
	r.Floor(rule, 8)
}

// I2: every receive uses the ,ok form and the closed outcome ends the conversation.
func ruleI2(w *World, r *Report) {
	const rule = "I2"
	prod := w.producerFns()
	for i, op := range w.chanOps() {
		if op.kind != "recv" {
			continue
		}
		key := fmt.Sprintf("%s › recv %s#%d handles the closed channel", w.Name(op.fn), op.ch, i+1)
		u := op.in.(*ssa.UnOp)
		if !u.CommaOk {
			r.Bad(rule, key, w.InstrPos(op.in), "receive without the ,ok form: a closed channel looks like a request/item")
			continue
		}
		okv := ssa.Value(nil)
		if refs := u.Referrers(); refs != nil {
			for _, rf := range *refs {
				if ex, isEx := rf.(*ssa.Extract); isEx && ex.Index == 1 {
					okv = ex
				}
			}
		}
		if okv == nil || okv.Referrers() == nil || len(nonDebugRefs(*okv.Referrers())) == 0 {
			// a draining loop `for range ch` uses ok as the loop condition; otherwise ignoring ok is a bug
			r.Bad(rule, key, w.InstrPos(op.in), "the ok result of the receive is ignored")
			continue
		}
		// the !ok outcome: no further send / receive on the conversation channels before the function exits
		bad := ""
		for _, rf := range nonDebugRefs(*okv.Referrers()) {
			switch x := rf.(type) {
			case *ssa.If:
				// which arm is !ok
				c, pol := Guard{Cond: x.Cond, Pol: true}.atom()
				if c != okv {
					continue
				}
				arm := x.Block().Succs[1]
				if !pol {
					arm = x.Block().Succs[0]
				}
				wk := &Walker{Fn: op.fn}
				wk.OnInstr = func(env *Env, in ssa.Instruction, trail []*ssa.BasicBlock) bool {
					switch y := in.(type) {
					case *ssa.Send:
						if chanField(y.Chan) != "" {
							bad = "after the channel was found closed the function can still send on " + chanField(y.Chan) + " at " + w.InstrPos(in)
							return true
						}
					case *ssa.Return:
						return true
					case *ssa.UnOp:
						if y.Op == token.ARROW && y == u {
							return true // loop header of a drain
						}
					}
					return false
				}
				wk.RunBlock(arm, nil)
			case *ssa.Return:
				// returned as the visitor's keep-going answer: false stops the visit (C06 V2)
				if !prod[op.fn] {
					bad = "ok is returned from a consumer-side function"
				}
			case *ssa.Phi:
			}
		}
		if bad != "" {
			r.Bad(rule, key, w.InstrPos(op.in), bad)
		} else {
			r.OK(rule, key, w.InstrPos(op.in), "ok is tested (or returned as the visitor's keep-going answer); the closed outcome leads to exit without another send")
		}
	}
	r.Floor(rule, 3)
}

// I3: the producer's deferred epilogue closes items and drains next, and is installed first.
func ruleI3(w *World, r *Report) {
	const rule = "I3"
	prod := w.producerFns()
	found := false
	for fn := range prod {
		if !w.InLib(fn) {
			continue
		}
		eachInstr(fn, func(in ssa.Instruction) {
			df, ok := in.(*ssa.Defer)
			if !ok {
				return
			}
			// the deferred function: a closure, a literal without free variables, or a named
			// library function / method
			var cl *ssa.Function
			switch v := df.Common().Value.(type) {
			case *ssa.MakeClosure:
				cl, _ = v.Fn.(*ssa.Function)
			case *ssa.Function:
				cl = v
			}
			if cl == nil {
				if sc := df.Common().StaticCallee(); sc != nil && w.InLib(sc) {
					cl = sc
				}
			}
			if cl == nil || len(cl.Blocks) == 0 {
				return
			}
			closesItems, drains := false, false
			eachInstr(cl, func(x ssa.Instruction) {
				if c, ok := x.(*ssa.Call); ok {
					if b, ok := c.Common().Value.(*ssa.Builtin); ok && b.Name() == "close" && chanField(c.Common().Args[0]) == "items" {
						closesItems = true
					}
				}
				if u, ok := x.(*ssa.UnOp); ok && u.Op == token.ARROW && chanField(u.X) == "next" {
					for _, lp := range loopsOf(cl) {
						if lp.body[u.Block()] {
							drains = true
						}
					}
				}
			})
			if !closesItems && !drains {
				return
			}
			found = true
			key := w.Name(fn) + " › deferred epilogue"
			r.Check(closesItems, rule, key+" closes items", w.InstrPos(in), "close(items) on every exit (normal, early, panic)", "the producer's deferred epilogue does not close the items channel: a consumer blocked in Next() waits for ever after the producer ends")
			r.Check(drains, rule, key+" drains next", w.InstrPos(in), "for range next {} — pending and later requests are absorbed until the consumer closes", "the producer's deferred epilogue does not drain the request channel: a consumer's Next() after the producer ended blocks for ever on its send")
			// installed before any channel operation of the producer function
			first := true
			eachInstr(fn, func(x ssa.Instruction) {
				switch y := x.(type) {
				case *ssa.Send:
					if chanField(y.Chan) != "" && !instrDominates(in, x) {
						first = false
					}
				case *ssa.UnOp:
					if y.Op == token.ARROW && chanField(y.X) != "" && !instrDominates(in, x) {
						first = false
					}
				case *ssa.Call:
					if _, isB := y.Common().Value.(*ssa.Builtin); !isB && !instrDominates(in, x) && x != in {
						if y.Common().StaticCallee() == nil || w.InLib(y.Common().StaticCallee()) {
							first = false
						}
					}
				}
			})
			r.Check(first, rule, key+" installed first", w.InstrPos(in), "the defer dominates every channel operation and call of the producer", "a channel operation or call of the producer precedes the defer: an early exit or panic there skips the epilogue")
			// order inside the epilogue: close(items) before the drain loop (else the drain never ends while the consumer waits on items)
			var closeIn, recvIn ssa.Instruction
			eachInstr(cl, func(x ssa.Instruction) {
				if c, ok := x.(*ssa.Call); ok {
					if b, ok := c.Common().Value.(*ssa.Builtin); ok && b.Name() == "close" {
						closeIn = x
					}
				}
				if u, ok := x.(*ssa.UnOp); ok && u.Op == token.ARROW {
					recvIn = x
				}
			})
			if closeIn != nil && recvIn != nil {
				r.Check(instrDominates(closeIn, recvIn), rule, key+" closes items before draining", w.InstrPos(closeIn), "close(items) dominates the drain loop", "the epilogue drains next before closing items: the consumer blocked on items never closes next, both wait for ever")
			}
		})
	}
	if !found {
		r.Bad(rule, "producer › deferred epilogue", "-", "no producer goroutine function defers a closure that closes items / drains next")
	}
	// the producer is started with `go` by every Iterate* constructor
	for _, name := range []string{"(*Collection).IterateAscend", "(*Collection).IterateDescend"} {
		fn := w.Fn(name)
		if fn == nil {
			r.Unknown(rule, "anchor "+name, "-", "exported API not found")
			continue
		}
		hasGo := false
		for _, ff := range family(fn) {
			eachInstr(ff, func(in ssa.Instruction) {
				if g, ok := in.(*ssa.Go); ok {
					if f := g.Common().StaticCallee(); f != nil && prod[f] {
						hasGo = true
					}
				}
			})
		}
		r.Check(hasGo, rule, name+" › starts the producer goroutine", w.Pos(fn.Pos()), "go producer(it)", "the iterator constructor does not start the producer with `go`: the first Next() blocks for ever (or the whole visit runs before the first Next)")
	}
	// channels are unbuffered rendezvous channels created by the constructor
	if fn := w.Fn("newIterator"); fn != nil {
		n := 0
		eachInstr(fn, func(in ssa.Instruction) {
			if mk, ok := in.(*ssa.MakeChan); ok {
				n++
				k, isK := constInt(mk.Size)
				r.Check(isK && k == 0, rule, fmt.Sprintf("newIterator › channel#%d unbuffered", n), w.InstrPos(in), "make(chan T): request/deliver handshake", "a buffered iterator channel lets the producer run ahead of Next(): Result() and early Close() no longer line up")
			}
		})
	}
	r.Floor(rule, 6)
}

func init() {
	register(&Property{
		ID:    "C18",
		Level: "other",
		Rules: []Rule{{"L3", ruleL3}, {"L2", ruleL2}, {"I1", ruleI1}, {"I2", ruleI2}, {"I3", ruleI3}, {"P1", ruleP1}, {"I5", ruleI5}, {"V2", ruleV2}},
		Explanation: "L3 no gkvlite lock can be held at any visitor/comparator call or file sink (the precondition for calling the API re-entrantly from a callback) and L2 no mutex is re-acquired while held. Channel typestate of the iterator, extracted from the SSA: I1 who may send/receive/close on which channel; close(next) only under !closed and followed by closed = true; consumer operations only while open. I2 every receive uses ,ok and its closed outcome leads to exit without another send (or is returned as the visitor's keep-going answer). I3 the producer defers, before anything else, an epilogue that closes items and then drains next; constructors start the producer with go; channels are unbuffered. P1 the producer's version pin is released on every path (it reads only through the exported visit functions). I5 (see below) explores the product of the consumer and producer automata extracted from these functions for every sequence of Next/Close. NOT decided: run-time goroutine exit as observed by a scheduler; abandonment without Close() (a caller contract violation).",
		ControlSrc:  controlC18,
		Expect: []Expect{
			{"I1", "ZzCtlCloseAgain"},
			{"I2", "zzCtlProducer"},
		},
	})
}

const controlC18 = `package gkvlite

// positive controls for C18 (never part of /repo)
func (it *iterator) ZzCtlCloseAgain() { // unguarded close
	close(it.next)
}

func (t *Collection) zzCtlProducer(it *iterator) { // receive without ,ok
	<-it.next
	it.items <- nil
}

func (t *Collection) ZzCtlIterate(it *iterator) {
	go t.zzCtlProducer(it)
}
`

package main

// Constant layout evaluator (DESIGN §3.G): replays the straight-line codec functions
// over a symbolic integer domain (constants + named lengths) and extracts an ordered
// table of (operation, byte order, width, offset, field) events.

import (
	"fmt"
	"go/constant"
	"go/token"
	"go/types"
	"sort"
	"strings"

	"golang.org/x/tools/go/ssa"
)

// ---- symbolic integers

type symInt struct {
	k     int64
	terms map[string]int64
}

func symK(k int64) *symInt { return &symInt{k: k, terms: map[string]int64{}} }
func symV(name string) *symInt {
	return &symInt{terms: map[string]int64{name: 1}}
}
func (a *symInt) add(b *symInt, sign int64) *symInt {
	if a == nil || b == nil {
		return nil
	}
	r := symK(a.k + sign*b.k)
	for t, c := range a.terms {
		r.terms[t] += c
	}
	for t, c := range b.terms {
		r.terms[t] += sign * c
	}
	for t, c := range r.terms {
		if c == 0 {
			delete(r.terms, t)
		}
	}
	return r
}
func (a *symInt) scale(m int64) *symInt {
	if a == nil {
		return nil
	}
	r := symK(a.k * m)
	for t, c := range a.terms {
		if c*m != 0 {
			r.terms[t] = c * m
		}
	}
	return r
}
func (a *symInt) isConst() bool { return a != nil && len(a.terms) == 0 }
func (a *symInt) String() string {
	if a == nil {
		return "?"
	}
	var ts []string
	for t := range a.terms {
		ts = append(ts, t)
	}
	sort.Strings(ts)
	var parts []string
	for _, t := range ts {
		c := a.terms[t]
		switch c {
		case 1:
			parts = append(parts, t)
		default:
			parts = append(parts, fmt.Sprintf("%d*%s", c, t))
		}
	}
	if a.k != 0 || len(parts) == 0 {
		parts = append(parts, fmt.Sprintf("%d", a.k))
	}
	return strings.Join(parts, "+")
}
func (a *symInt) equal(b *symInt) bool {
	if a == nil || b == nil {
		return false
	}
	d := a.add(b, -1)
	return d.isConst() && d.k == 0
}

// ---- events

type layEv struct {
	Op    string // put | get | cmp | bufput | bufget | raw
	Order string // BE | LE | -
	Width string
	Off   string
	Field string
	Buf   string
	Ctx   string // handle (item/left/right) an inlined location event belongs to
	Alt   string // for put: "<type> <value>" naming used when the bytes are appended to a record
}

func (e layEv) String() string {
	return fmt.Sprintf("%s %s w=%s @%s %s [%s]", e.Op, e.Order, e.Width, e.Off, e.Field, e.Buf)
}

type bufRef struct {
	root string  // description of the underlying buffer
	off  *symInt // offset of this slice within the root
	ln   *symInt // length if known
}

type outcome struct {
	events []layEv
	rets   []interface{} // *symInt | *bufRef | nil
	isErr  bool
}

type layEval struct {
	w       *World
	notes   []string
	bufPos  map[string]*symInt // running position of bytes.Buffer objects by description
	globals map[string]*symInt
	busy    map[*ssa.Function]int
	// labelHandles: annotate inlined helper events with the node handle they work on
	labelHandles bool
	recLimited   bool
}

func newLayEval(w *World) *layEval {
	return &layEval{w: w, bufPos: map[string]*symInt{}, globals: map[string]*symInt{}, busy: map[*ssa.Function]int{}}
}

type frame struct {
	fn   *ssa.Function
	args []interface{}
	env  map[ssa.Value]interface{}
	bufs map[ssa.Value]*symInt // running position of bytes.Buffer values (by SSA value of the *Buffer)
	seen map[*ssa.BasicBlock]bool
	dead bool
}

// globalConstLen: the global is a []byte initialised from a string constant and never
// assigned elsewhere; returns its contents.
func (w *World) globalBytes(name string) (string, bool) {
	var g *ssa.Global
	for _, m := range w.Lib.Members {
		if gg, ok := m.(*ssa.Global); ok && gg.Name() == name {
			g = gg
		}
	}
	if g == nil {
		return "", false
	}
	val := ""
	n := 0
	for _, fn := range w.Funcs {
		if !w.InLib(fn) {
			continue
		}
		eachInstr(fn, func(in ssa.Instruction) {
			if st, ok := in.(*ssa.Store); ok && st.Addr == ssa.Value(g) {
				n++
				if fn.Name() != "init" {
					n += 100
				}
				// []byte("…") : convert []byte <- string const, or slice of a fresh array
				if cv, ok := st.Val.(*ssa.Convert); ok {
					if k, ok := cv.X.(*ssa.Const); ok && k.Value != nil && k.Value.Kind() == constant.String {
						val = constant.StringVal(k.Value)
					}
				}
			}
		})
	}
	if n != 1 || val == "" {
		return "", false
	}
	return val, true
}

// globalInt evaluates a package-level int variable from its single initialising store.
func (le *layEval) globalInt(name string) *symInt {
	if v, ok := le.globals[name]; ok {
		return v
	}
	le.globals[name] = nil
	var res *symInt
	n := 0
	for _, fn := range le.w.Funcs {
		if !le.w.InLib(fn) {
			continue
		}
		eachInstr(fn, func(in ssa.Instruction) {
			st, ok := in.(*ssa.Store)
			if !ok {
				return
			}
			g, ok := st.Addr.(*ssa.Global)
			if !ok || g.Name() != name {
				return
			}
			n++
			if fn.Name() == "init" {
				fr := &frame{fn: fn, env: map[ssa.Value]interface{}{}, bufs: map[ssa.Value]*symInt{}}
				res = le.evInt(fr, st.Val)
			} else {
				n += 100
			}
		})
	}
	if n != 1 {
		res = nil
	}
	le.globals[name] = res
	return res
}

func describe(v ssa.Value) string {
	switch x := v.(type) {
	case *ssa.Parameter:
		return x.Name()
	case *ssa.Global:
		return x.Name()
	case *ssa.Const:
		if x.Value == nil {
			return "nil"
		}
		return x.Value.String()
	case *ssa.UnOp:
		if x.Op == token.MUL {
			if fa, ok := x.X.(*ssa.FieldAddr); ok {
				_, st, name, ok := fieldOf(fa)
				if ok && st != nil {
					return st.Obj().Name() + "." + name
				}
			}
			if g, ok := x.X.(*ssa.Global); ok {
				return g.Name()
			}
			return describe(x.X)
		}
	case *ssa.Field:
		_, st, name, ok := fieldOf(x)
		if ok && st != nil {
			return st.Obj().Name() + "." + name
		}
	case *ssa.FieldAddr:
		_, st, name, ok := fieldOf(x)
		if ok && st != nil {
			return st.Obj().Name() + "." + name
		}
	case *ssa.Convert:
		return describe(x.X)
	case *ssa.ChangeType:
		return describe(x.X)
	case *ssa.MakeInterface:
		return describe(x.X)
	case *ssa.Call:
		if f := x.Common().StaticCallee(); f != nil {
			// getter: a method returning one field of its receiver
			if fld := getterField(f); fld != "" {
				return fld
			}
			return shortName(f.String()) + "()"
		}
	case *ssa.Alloc:
		if x.Comment != "" {
			return x.Comment
		}
	case *ssa.Slice:
		return describe(x.X)
	case *ssa.Extract:
		return fmt.Sprintf("%s#%d", describe(x.Tuple), x.Index)
	}
	if n := v.Name(); n != "" {
		return n
	}
	return "?"
}

// getterField: f returns exactly one field of its receiver.
var getterBusy = map[*ssa.Function]bool{}

func getterField(f *ssa.Function) string {
	if f.Signature.Recv() == nil || len(f.Blocks) == 0 || getterBusy[f] {
		return ""
	}
	getterBusy[f] = true
	defer delete(getterBusy, f)
	res := ""
	n := 0
	eachInstr(f, func(in ssa.Instruction) {
		if r, ok := in.(*ssa.Return); ok && len(r.Results) == 1 {
			n++
			d := describe(r.Results[0])
			if strings.Contains(d, ".") && !strings.Contains(d, "(") {
				res = d
			}
		}
	})
	if n == 1 {
		return res
	}
	return ""
}

func (le *layEval) note(format string, a ...interface{}) {
	le.notes = append(le.notes, fmt.Sprintf(format, a...))
}

func (le *layEval) evInt(fr *frame, v ssa.Value) *symInt {
	if x, ok := fr.env[v]; ok {
		if s, ok := x.(*symInt); ok {
			return s
		}
	}
	switch x := v.(type) {
	case *ssa.Const:
		if x.Value != nil && x.Value.Kind() == constant.Int {
			if i, ok := constant.Int64Val(x.Value); ok {
				return symK(i)
			}
		}
		return nil
	case *ssa.Parameter:
		for i, p := range fr.fn.Params {
			if p == x && i < len(fr.args) {
				if s, ok := fr.args[i].(*symInt); ok && s != nil {
					return s
				}
			}
		}
		return symV(x.Name())
	case *ssa.BinOp:
		a, b := le.evInt(fr, x.X), le.evInt(fr, x.Y)
		switch x.Op {
		case token.ADD:
			return a.add(b, 1)
		case token.SUB:
			return a.add(b, -1)
		case token.MUL:
			if a.isConst() {
				return b.scale(a.k)
			}
			if b.isConst() {
				return a.scale(b.k)
			}
		}
		return nil
	case *ssa.Convert:
		return le.evInt(fr, x.X)
	case *ssa.ChangeType:
		return le.evInt(fr, x.X)
	case *ssa.UnOp:
		if x.Op != token.MUL {
			return nil
		}
		if g, ok := x.X.(*ssa.Global); ok {
			if s := le.globalInt(g.Name()); s != nil {
				return s
			}
			return symV(g.Name())
		}
		if al, ok := x.X.(*ssa.Alloc); ok {
			if sv := singleStore(al); sv != nil {
				return le.evInt(fr, sv)
			}
		}
		return symV(describe(x))
	case *ssa.Field:
		return symV(describe(x))
	case *ssa.Phi:
		// a loop-carried value refers to itself through its back edge: not a layout constant
		if phiBusy[x] {
			return nil
		}
		phiBusy[x] = true
		defer delete(phiBusy, x)
		var first *symInt
		for i, e := range x.Edges {
			s := le.evInt(fr, e)
			if i == 0 {
				first = s
			} else if !first.equal(s) {
				return nil
			}
		}
		return first
	case *ssa.Extract:
		if t, ok := fr.env[x.Tuple].([]interface{}); ok && x.Index < len(t) {
			if s, ok := t[x.Index].(*symInt); ok {
				return s
			}
		}
		return nil
	case *ssa.Call:
		c := x.Common()
		if b, ok := c.Value.(*ssa.Builtin); ok {
			switch b.Name() {
			case "len":
				return le.lenOf(fr, c.Args[0])
			case "copy":
				return le.lenOf(fr, c.Args[1])
			}
			return nil
		}
		if f := c.StaticCallee(); f != nil && le.w.InLib(f) {
			if fld := getterField(f); fld != "" {
				return symV(fld)
			}
		}
		return symV(describe(x))
	}
	return nil
}

func (le *layEval) lenOf(fr *frame, v ssa.Value) *symInt {
	if br := le.evBuf(fr, v); br != nil && br.ln != nil {
		return br.ln
	}
	if g, ok := derefGlobal(v); ok {
		if s, ok := le.w.globalBytes(g.Name()); ok {
			return symK(int64(len(s)))
		}
		return symV("len(" + g.Name() + ")")
	}
	return symV("len(" + describe(v) + ")")
}

func (le *layEval) evBuf(fr *frame, v ssa.Value) *bufRef {
	if x, ok := fr.env[v]; ok {
		if b, ok := x.(*bufRef); ok {
			return b
		}
	}
	switch x := v.(type) {
	case *ssa.Parameter:
		for i, p := range fr.fn.Params {
			if p == x && i < len(fr.args) {
				if b, ok := fr.args[i].(*bufRef); ok && b != nil {
					return b
				}
			}
		}
		if _, ok := x.Type().Underlying().(*types.Slice); ok {
			return &bufRef{root: x.Name(), off: symK(0)}
		}
	case *ssa.MakeSlice:
		return &bufRef{root: "make(" + le.evInt(fr, x.Len).String() + ")", off: symK(0), ln: le.evInt(fr, x.Len)}
	case *ssa.Alloc:
		if arr, ok := deref(x.Type()).Underlying().(*types.Array); ok {
			return &bufRef{root: fmt.Sprintf("make(%d)", arr.Len()), off: symK(0), ln: symK(arr.Len())}
		}
	case *ssa.Slice:
		base := le.evBuf(fr, x.X)
		if base == nil {
			return nil
		}
		lo := symK(0)
		if x.Low != nil {
			lo = le.evInt(fr, x.Low)
		}
		var ln *symInt
		if x.High != nil {
			ln = le.evInt(fr, x.High).add(lo, -1)
		} else if base.ln != nil {
			ln = base.ln.add(lo, -1)
		}
		return &bufRef{root: base.root, off: base.off.add(lo, 1), ln: ln}
	case *ssa.UnOp:
		if x.Op == token.MUL {
			if al, ok := x.X.(*ssa.Alloc); ok {
				if sv := singleStore(al); sv != nil {
					return le.evBuf(fr, sv)
				}
			}
			if g, ok := x.X.(*ssa.Global); ok {
				if s, ok := le.w.globalBytes(g.Name()); ok {
					return &bufRef{root: g.Name(), off: symK(0), ln: symK(int64(len(s)))}
				}
			}
		}
	case *ssa.Call:
		if f := x.Common().StaticCallee(); f != nil && f.String() == "(*bytes.Buffer).Bytes" {
			return &bufRef{root: "buffer " + describe(x.Common().Args[0]), off: symK(0)}
		}
		// library helper returning a fresh buffer (render): evaluate it
		if f := x.Common().StaticCallee(); f != nil && le.w.InLib(f) && f.Signature.Results().Len() == 1 {
			if _, isSlice := f.Signature.Results().At(0).Type().Underlying().(*types.Slice); isSlice {
				var args []interface{}
				for _, a := range x.Common().Args {
					if isIntLike(a.Type()) {
						args = append(args, le.evInt(fr, a))
					} else {
						args = append(args, nil)
					}
				}
				if outs := le.evalFn(f, args); len(outs) > 0 {
					if br, ok := outs[0].rets[0].(*bufRef); ok {
						return br
					}
				}
			}
		}
	}
	return nil
}

func orderOf(v ssa.Value) string {
	d := describe(v)
	switch {
	case strings.Contains(d, "BigEndian"):
		return "BE"
	case strings.Contains(d, "LittleEndian"):
		return "LE"
	}
	if t := v.Type().String(); strings.Contains(t, "bigEndian") {
		return "BE"
	} else if strings.Contains(t, "littleEndian") {
		return "LE"
	}
	return "?"
}

func typeWidth(t types.Type) int64 {
	if b, ok := t.Underlying().(*types.Basic); ok {
		switch b.Kind() {
		case types.Int8, types.Uint8, types.Bool:
			return 1
		case types.Int16, types.Uint16:
			return 2
		case types.Int32, types.Uint32:
			return 4
		case types.Int64, types.Uint64:
			return 8
		}
	}
	return -1
}

// evalFn enumerates the non-error paths of fn and returns their outcomes.
func (le *layEval) evalFn(fn *ssa.Function, args []interface{}) []outcome {
	if len(fn.Blocks) == 0 {
		le.note("no body for %s", le.w.Name(fn))
		return nil
	}
	if le.busy[fn] > 1 {
		le.recLimited = true // the recursive arm is cut: the other arms decide the layout
		return nil
	}
	le.busy[fn]++
	defer func() { le.busy[fn]-- }()
	fr := &frame{fn: fn, args: args, env: map[ssa.Value]interface{}{}, bufs: map[ssa.Value]*symInt{}}
	var outs []outcome
	le.walkBlock(fr, fn.Blocks[0], nil, nil, &outs, 0)
	return outs
}

func cloneFrame(fr *frame) *frame {
	n := &frame{fn: fr.fn, args: fr.args, env: map[ssa.Value]interface{}{}, bufs: map[ssa.Value]*symInt{}}
	for k, v := range fr.env {
		n.env[k] = v
	}
	for k, v := range fr.bufs {
		n.bufs[k] = v
	}
	n.seen = map[*ssa.BasicBlock]bool{}
	for k, v := range fr.seen {
		n.seen[k] = v
	}
	return n
}

func (le *layEval) walkBlock(fr *frame, b *ssa.BasicBlock, pred *ssa.BasicBlock, events []layEv, outs *[]outcome, depth int) {
	if depth > 60 {
		le.note("path too long in %s (loop?)", le.w.Name(fr.fn))
		return
	}
	if fr.seen == nil {
		fr.seen = map[*ssa.BasicBlock]bool{}
	}
	if fr.seen[b] {
		return // loop: one iteration is enough for a layout
	}
	fr.seen[b] = true
	events = append([]layEv{}, events...)
	for _, in := range b.Instrs {
		switch x := in.(type) {
		case *ssa.Phi:
			if pred != nil {
				for i, p := range b.Preds {
					if p == pred {
						if s := le.evInt(fr, x.Edges[i]); s != nil {
							fr.env[x] = s
						} else if bb := le.evBuf(fr, x.Edges[i]); bb != nil {
							fr.env[x] = bb
						}
					}
				}
			}
		case *ssa.Call:
			le.evalCall(fr, x, &events)
			if fr.dead {
				return
			}
		case *ssa.Return:
			o := outcome{events: events}
			idx := errResultIndex(fr.fn)
			for i, r := range x.Results {
				if i == idx {
					if !isNilConst(r) && (isNonNilErrorValue(r) || !isNilConst(r)) {
						// a non-constant error that is the callee's own: treat as success only if nil const
						if isNonNilErrorValue(r) {
							o.isErr = true
						}
					}
					o.rets = append(o.rets, nil)
					continue
				}
				if s := le.evInt(fr, r); s != nil && isIntLike(r.Type()) {
					o.rets = append(o.rets, s)
				} else if bb := le.evBuf(fr, r); bb != nil {
					o.rets = append(o.rets, bb)
				} else {
					o.rets = append(o.rets, nil)
				}
			}
			if !o.isErr {
				*outs = append(*outs, o)
			}
			return
		case *ssa.Panic:
			return
		}
	}
	last := b.Instrs[len(b.Instrs)-1]
	switch t := last.(type) {
	case *ssa.Jump:
		le.walkBlock(fr, b.Succs[0], b, events, outs, depth+1)
	case *ssa.If:
		switch le.foldCond(fr, t.Cond) {
		case 1:
			le.walkBlock(fr, b.Succs[0], b, events, outs, depth+1)
		case 0:
			le.walkBlock(fr, b.Succs[1], b, events, outs, depth+1)
		default:
			le.walkBlock(cloneFrame(fr), b.Succs[0], b, events, outs, depth+1)
			le.walkBlock(cloneFrame(fr), b.Succs[1], b, events, outs, depth+1)
		}
	}
}

func isIntLike(t types.Type) bool {
	b, ok := t.Underlying().(*types.Basic)
	return ok && b.Info()&types.IsInteger != 0
}

// foldCond: 1 true, 0 false, -1 unknown.
func (le *layEval) foldCond(fr *frame, c ssa.Value) int {
	switch x := c.(type) {
	case *ssa.Const:
		if x.Value != nil && x.Value.Kind() == constant.Bool {
			if constant.BoolVal(x.Value) {
				return 1
			}
			return 0
		}
	case *ssa.UnOp:
		if x.Op == token.NOT {
			switch le.foldCond(fr, x.X) {
			case 1:
				return 0
			case 0:
				return 1
			}
		}
	case *ssa.BinOp:
		if !isIntLike(x.X.Type()) {
			// error results of inlined codec helpers: err != nil is false on their success paths
			if isErrorType(x.X.Type()) && isNilConst(x.Y) {
				if x.Op == token.NEQ {
					return 0
				}
				if x.Op == token.EQL {
					return 1
				}
			}
			return -1
		}
		a, b := le.evInt(fr, x.X), le.evInt(fr, x.Y)
		if a == nil || b == nil {
			return -1
		}
		d := a.add(b, -1)
		if !d.isConst() {
			return -1
		}
		var r bool
		switch x.Op {
		case token.EQL:
			r = d.k == 0
		case token.NEQ:
			r = d.k != 0
		case token.LSS:
			r = d.k < 0
		case token.LEQ:
			r = d.k <= 0
		case token.GTR:
			r = d.k > 0
		case token.GEQ:
			r = d.k >= 0
		default:
			return -1
		}
		if r {
			return 1
		}
		return 0
	}
	return -1
}

// destOf: where the result of a decoding call ends up (a struct field), following
// conversions.
func destOf(v ssa.Value, depth int) string {
	if depth > 4 {
		return "?"
	}
	refs := v.Referrers()
	if refs == nil {
		return "?"
	}
	for _, rf := range *refs {
		switch x := rf.(type) {
		case *ssa.Store:
			if x.Val == v {
				return describe(x.Addr)
			}
		case *ssa.Convert:
			if d := destOf(x, depth+1); d != "?" {
				return d
			}
		case *ssa.ChangeType:
			if d := destOf(x, depth+1); d != "?" {
				return d
			}
		}
	}
	return "?"
}

func (le *layEval) evalCall(fr *frame, call *ssa.Call, events *[]layEv) {
	c := call.Common()
	if b, ok := c.Value.(*ssa.Builtin); ok && b.Name() == "append" && len(c.Args) == 2 {
		le.evalAppend(fr, call, events)
		return
	}
	f := c.StaticCallee()
	if f == nil {
		return
	}
	name := f.String()
	switch {
	case strings.HasPrefix(name, "(encoding/binary.bigEndian).Put") || strings.HasPrefix(name, "(encoding/binary.littleEndian).Put"):
		bits := strings.TrimPrefix(name[strings.Index(name, ".Put")+4:], "Uint")
		br := le.evBuf(fr, c.Args[1])
		ev := layEv{Op: "put", Order: orderOf(c.Args[0]), Width: "u" + bits, Field: describe(c.Args[2])}
		ev.Alt = c.Args[2].Type().String() + " " + describe(c.Args[2])
		if s := le.evInt(fr, c.Args[2]); s != nil {
			ev.Alt = c.Args[2].Type().String() + " " + s.String()
		}
		if br != nil {
			ev.Off, ev.Buf = br.off.String(), br.root
			// PutUintN / UintN touch exactly the first N/8 bytes of the slice they are given; a
			// longer slice (an open-ended `b[off:]`) is fine, a provably shorter one panics
			if br.ln != nil && br.ln.isConst() && fmt.Sprint(br.ln.k) != widthBytes(bits) && br.ln.k < widthInt(bits) {
				ev.Width += "(slice " + br.ln.String() + " bytes!)"
			}
		} else {
			ev.Off = "?"
		}
		*events = append(*events, ev)
	case strings.HasPrefix(name, "(encoding/binary.bigEndian).Uint") || strings.HasPrefix(name, "(encoding/binary.littleEndian).Uint"):
		bits := name[strings.Index(name, ").Uint")+6:]
		br := le.evBuf(fr, c.Args[1])
		ev := layEv{Op: "get", Order: orderOf(c.Args[0]), Width: "u" + bits, Field: destOf(call, 0)}
		if br != nil {
			ev.Off, ev.Buf = br.off.String(), br.root
			// PutUintN / UintN touch exactly the first N/8 bytes of the slice they are given; a
			// longer slice (an open-ended `b[off:]`) is fine, a provably shorter one panics
			if br.ln != nil && br.ln.isConst() && fmt.Sprint(br.ln.k) != widthBytes(bits) && br.ln.k < widthInt(bits) {
				ev.Width += "(slice " + br.ln.String() + " bytes!)"
			}
		} else {
			ev.Off = "?"
		}
		*events = append(*events, ev)
	case name == "bytes.NewBuffer":
		if br := le.evBuf(fr, c.Args[0]); br != nil {
			fr.bufs[call] = br.off
			fr.env[call] = &bufRef{root: br.root, off: br.off}
		} else {
			fr.bufs[call] = symK(0)
			fr.env[call] = &bufRef{root: "buffer", off: symK(0)}
		}
	case name == "(*bytes.Buffer).Write":
		pos := fr.bufs[c.Args[0]]
		ln := le.lenOf(fr, c.Args[1])
		*events = append(*events, layEv{Op: "bufput", Order: "-", Width: ln.String(), Off: pos.String(), Field: describe(c.Args[1]), Buf: "record"})
		fr.bufs[c.Args[0]] = pos.add(ln, 1)
	case name == "encoding/binary.Write":
		pos := fr.bufs[c.Args[0]]
		if mi, ok := c.Args[0].(*ssa.MakeInterface); ok {
			pos = fr.bufs[mi.X]
		}
		val := c.Args[2]
		var wd int64 = -1
		fld := describe(val)
		if mi, ok := val.(*ssa.MakeInterface); ok {
			wd = typeWidth(mi.X.Type())
			fld = mi.X.Type().String() + " " + describe(mi.X)
			if s := le.evInt(fr, mi.X); s != nil {
				fld = mi.X.Type().String() + " " + s.String()
			}
		}
		*events = append(*events, layEv{Op: "bufput", Order: orderOf(c.Args[1]), Width: fmt.Sprint(wd), Off: pos.String(), Field: fld, Buf: "record"})
		np := pos.add(symK(wd), 1)
		if mi, ok := c.Args[0].(*ssa.MakeInterface); ok {
			fr.bufs[mi.X] = np
		} else {
			fr.bufs[c.Args[0]] = np
		}
		fr.env[call] = nil
	case name == "encoding/binary.Read":
		var key ssa.Value = c.Args[0]
		if mi, ok := c.Args[0].(*ssa.MakeInterface); ok {
			key = mi.X
		}
		pos := fr.bufs[key]
		root := "buffer"
		if br, ok := fr.env[key].(*bufRef); ok {
			root = br.root
		}
		val := c.Args[2]
		var wd int64 = -1
		fld := describe(val)
		if mi, ok := val.(*ssa.MakeInterface); ok {
			wd = typeWidth(deref(mi.X.Type()))
			fld = deref(mi.X.Type()).String() + " " + describe(mi.X)
		}
		*events = append(*events, layEv{Op: "bufget", Order: orderOf(c.Args[1]), Width: fmt.Sprint(wd), Off: pos.String(), Field: fld, Buf: root})
		fr.bufs[key] = pos.add(symK(wd), 1)
	case name == "encoding/json.Unmarshal":
		if br := le.evBuf(fr, c.Args[0]); br != nil {
			*events = append(*events, layEv{Op: "json", Order: "-", Width: "to end", Off: br.off.String(), Field: "JSON", Buf: br.root})
		}
	case name == "bytes.Equal":
		for i, a := range c.Args {
			if g, ok := derefGlobal(a); ok {
				other := c.Args[1-i]
				br := le.evBuf(fr, other)
				ev := layEv{Op: "cmp", Order: "-", Field: g.Name()}
				if br != nil {
					ev.Off, ev.Buf = br.off.String(), br.root
					if br.ln != nil {
						ev.Width = br.ln.String()
					} else {
						ev.Width = "to end"
					}
				}
				*events = append(*events, ev)
			}
		}
	default:
		if !le.w.InLib(f) {
			return
		}
		// inline library helpers that take or return positions / buffers
		interesting := false
		var args []interface{}
		for _, a := range c.Args {
			if _, isSlice := a.Type().Underlying().(*types.Slice); isSlice {
				if br := le.evBuf(fr, a); br != nil {
					args = append(args, br)
					interesting = true
					continue
				}
			}
			if isIntLike(a.Type()) {
				if s := le.evInt(fr, a); s != nil {
					args = append(args, s)
					continue
				}
			}
			args = append(args, nil)
		}
		res := f.Signature.Results()
		for i := 0; i < res.Len(); i++ {
			if _, isSlice := res.At(i).Type().Underlying().(*types.Slice); isSlice {
				interesting = true
			}
		}
		if !interesting {
			return
		}
		le.recLimited = false
		outs := le.evalFn(f, args)
		if len(outs) == 0 {
			if le.recLimited {
				fr.dead = true // this path only exists through unbounded recursion
				le.recLimited = false
				return
			}
			le.note("no success path through %s", le.w.Name(f))
			return
		}
		// all outcomes must agree on layout
		for _, o := range outs[1:] {
			if !sameLayout(o.events, outs[0].events) || !sameRets(o.rets, outs[0].rets) {
				le.note("layout of %s depends on a branch: %v vs %v", le.w.Name(f), renderEvents(outs[0].events), renderEvents(o.events))
			}
		}
		inl := append([]layEv{}, outs[0].events...)
		if le.labelHandles {
			ctx := "?"
			if f.Signature.Recv() != nil && len(c.Args) > 0 {
				ctx = handleName(c.Args[0])
			}
			if ctx == "?" {
				ctx = destHandle(call)
			}
			for i := range inl {
				if inl[i].Ctx == "" && ctx != "?" {
					inl[i].Ctx = ctx
				}
			}
		}
		*events = append(*events, inl...)
		if res.Len() == 1 {
			fr.env[call] = outs[0].rets[0]
		} else {
			fr.env[call] = outs[0].rets
		}
	}
}

func widthBytes(bits string) string {
	switch bits {
	case "16":
		return "2"
	case "32":
		return "4"
	case "64":
		return "8"
	}
	return "?"
}

func sameLayout(a, b []layEv) bool {
	if len(a) != len(b) {
		return false
	}
	for i := range a {
		if a[i].Op != b[i].Op || a[i].Order != b[i].Order || a[i].Width != b[i].Width || a[i].Off != b[i].Off {
			return false
		}
	}
	return true
}

func sameRets(a, b []interface{}) bool {
	if len(a) != len(b) {
		return false
	}
	for i := range a {
		sa, oka := a[i].(*symInt)
		sb, okb := b[i].(*symInt)
		if oka != okb {
			return false
		}
		if oka && sa != nil && sb != nil && !sa.equal(sb) {
			return false
		}
	}
	return true
}

func renderEvents(evs []layEv) []string {
	var out []string
	for _, e := range evs {
		out = append(out, fmt.Sprintf("%s %s %s @%s %s", e.Op, e.Order, e.Width, e.Off, e.Field))
	}
	return out
}

// destHandle: the node handle (item/left/right) a decoded location pointer is stored into.
func destHandle(call *ssa.Call) string {
	var vals []ssa.Value
	vals = append(vals, call)
	if refs := call.Referrers(); refs != nil {
		for _, rf := range *refs {
			if ex, ok := rf.(*ssa.Extract); ok {
				vals = append(vals, ex)
			}
		}
	}
	for _, v := range vals {
		refs := v.Referrers()
		if refs == nil {
			continue
		}
		for _, rf := range *refs {
			if st, ok := rf.(*ssa.Store); ok && st.Val == v {
				if h := handleName(st.Addr); h != "?" {
					return h
				}
			}
		}
	}
	return "?"
}

// evalAppend: rec = append(rec, x...) building a record: an event at the current length of
// rec.  When x is a scratch array that was just filled by a PutUintN, the event takes that
// put's byte order / width / value and the staging put disappears.
func (le *layEval) evalAppend(fr *frame, call *ssa.Call, events *[]layEv) {
	c := call.Common()
	base := le.evBuf(fr, c.Args[0])
	if base == nil || base.ln == nil {
		return
	}
	src := c.Args[1]
	ln := le.lenOf(fr, src)
	pos := base.off.add(base.ln, 1)
	ev := layEv{Op: "bufput", Order: "-", Width: ln.String(), Off: pos.String(), Field: describe(src), Buf: "record"}
	if sb := le.evBuf(fr, src); sb != nil && strings.HasPrefix(sb.root, "make(") {
		for i := len(*events) - 1; i >= 0; i-- {
			p := (*events)[i]
			if p.Op == "put" && p.Buf == sb.root && p.Off == sb.off.String() {
				ev.Order, ev.Field = p.Order, p.Alt
				ev.Width = widthBytes(strings.TrimPrefix(p.Width, "u"))
				*events = append((*events)[:i], (*events)[i+1:]...)
				break
			}
		}
	}
	*events = append(*events, ev)
	fr.env[call] = &bufRef{root: base.root, off: base.off, ln: base.ln.add(ln, 1)}
}

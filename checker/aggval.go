package main

// Values that travel through local struct variables: `t := pair{a: x, b: y}` … `t.a`,
// copies of whole structs between locals (`u := t`), results carried in a small struct.
// resolveAgg follows a field read back to the value that was stored into that field, when
// the local has exactly one relevant store (the shape produced by literals, by copies and
// by the normaliser's parameter / result temporaries).

import (
	"go/token"

	"golang.org/x/tools/go/ssa"
)

func resolveAgg(v ssa.Value, depth int) ssa.Value {
	if depth > 10 || v == nil {
		return v
	}
	switch x := v.(type) {
	case *ssa.UnOp:
		if x.Op != token.MUL {
			return v
		}
		if fa, ok := x.X.(*ssa.FieldAddr); ok {
			if al, isAl := fa.X.(*ssa.Alloc); isAl {
				if r := fieldValue(al, fa.Field, depth+1); r != nil {
					return resolveAgg(r, depth+1)
				}
			}
		}
	case *ssa.Field:
		if ld, ok := x.X.(*ssa.UnOp); ok && ld.Op == token.MUL {
			if al, isAl := ld.X.(*ssa.Alloc); isAl {
				if r := fieldValue(al, x.Field, depth+1); r != nil {
					return resolveAgg(r, depth+1)
				}
			}
		}
	case *ssa.Convert:
		// keep the conversion, resolve below it (callers strip conversions themselves)
		return v
	}
	return v
}

// fieldValue: the single value stored into field idx of local struct al, directly or by a
// whole-struct copy from another local; nil when there is none or more than one.
func fieldValue(al *ssa.Alloc, idx int, depth int) ssa.Value {
	if depth > 10 || al.Referrers() == nil {
		return nil
	}
	var fieldStores, wholeStores []ssa.Value
	escapes := false
	for _, rf := range *al.Referrers() {
		switch r := rf.(type) {
		case *ssa.Store:
			if r.Addr == ssa.Value(al) {
				wholeStores = append(wholeStores, r.Val)
			}
		case *ssa.FieldAddr:
			if r.Field != idx || r.Referrers() == nil {
				continue
			}
			for _, u := range *r.Referrers() {
				switch y := u.(type) {
				case *ssa.Store:
					if y.Addr == ssa.Value(r) {
						fieldStores = append(fieldStores, y.Val)
					}
				case *ssa.UnOp:
				default:
					escapes = true // address of the field handed on
				}
			}
		case *ssa.UnOp, *ssa.DebugRef:
		default:
			escapes = true // the struct's address is handed on: it may be written elsewhere
		}
	}
	if escapes {
		return nil
	}
	// a whole-struct store of a fresh zero value (`x := *new(T)`, `var x T` spelled by the
	// normaliser) initialises; it does not compete with the one real store
	var realWhole []ssa.Value
	for _, s := range wholeStores {
		if _, isZero := s.(*ssa.Const); isZero {
			continue // `var x T` / `x := T{}`: the zero value
		}
		if ld, ok := s.(*ssa.UnOp); ok && ld.Op == token.MUL {
			if src, ok := ld.X.(*ssa.Alloc); ok && neverWritten(src) {
				continue
			}
		}
		realWhole = append(realWhole, s)
	}
	wholeStores = realWhole
	switch {
	case len(fieldStores) == 1 && len(wholeStores) == 0:
		return fieldStores[0]
	case len(fieldStores) == 0 && len(wholeStores) == 1:
		switch s := wholeStores[0].(type) {
		case *ssa.UnOp:
			if s.Op == token.MUL {
				if src, ok := s.X.(*ssa.Alloc); ok {
					return fieldValue(src, idx, depth+1)
				}
			}
		case *ssa.Phi:
			return nil
		}
	}
	return nil
}

// neverWritten: nothing is ever stored into al or into one of its fields / elements.
func neverWritten(al *ssa.Alloc) bool {
	if al.Referrers() == nil {
		return true
	}
	for _, rf := range *al.Referrers() {
		switch r := rf.(type) {
		case *ssa.Store:
			if r.Addr == ssa.Value(al) {
				return false
			}
		case *ssa.UnOp, *ssa.DebugRef:
		default:
			return false
		}
	}
	return true
}

package main

import (
	"golang.org/x/tools/go/ssa"
)

// callOfValue: v is the result (or an extracted result) of a call; returns the call.
func callOfValue(v ssa.Value) *ssa.Call {
	switch x := v.(type) {
	case *ssa.Call:
		return x
	case *ssa.Extract:
		if c, ok := x.Tuple.(*ssa.Call); ok {
			return c
		}
	}
	return nil
}

// reachesSink: fn (transitively) contains a sink with one of the methods.
func (w *World) reachesSink(fn *ssa.Function, methods ...string) *Sink {
	reach := w.G.ReachFrom(fn)
	for _, s := range w.G.Sinks {
		if !reach.Set[s.Fn] {
			continue
		}
		for _, m := range methods {
			if s.Method == m {
				return s
			}
		}
	}
	return nil
}

// checkTruncateGuards (T3 of C08, A-trunc of C09, G1 of C04): the Truncate call is
// dominated by !readOnly and by the success arm of the backward scan, and its argument
// is an atomic load of the cursor.
func checkTruncateGuards(w *World, r *Report, rule string, s *Sink) {
	b := s.Instr.Block()
	okRO, okScan := false, false
	scanName := ""
	var scanCall *ssa.Call
	for _, g := range guardsOf(b) {
		c, pol := g.atom()
		if _, ok := isLoadOfField(c, "Store", "readOnly"); ok && !pol {
			okRO = true
		}
		if v, isNil, ok := g.nilFact(); ok && isNil && isErrorType(v.Type()) {
			if call := callOfValue(v); call != nil {
				if f := call.Common().StaticCallee(); f != nil && w.InLib(f) && w.reachesSink(f, "ReadAt") != nil && len(w.sizeWritesInReach(f)) > 0 {
					okScan = true
					scanName = w.Name(f)
					scanCall = call
				}
			}
		}
	}
	key := w.G.SinkName(s)
	r.Check(okRO, rule, key+" › guard !readOnly", w.InstrPos(s.Instr), "dominated by the false arm of the Store.readOnly test", "Truncate is not dominated by a false-arm test of Store.readOnly: a snapshot could truncate the file")
	r.Check(okScan, rule, key+" › after successful scan", w.InstrPos(s.Instr), "dominated by the success arm (err == nil) of the backward scan "+scanName, "Truncate is not dominated by the success arm of the backward root scan")
	arg := s.Instr.Common().Args[0]
	r.Check(w.isSizeLoad(arg), rule, key+" › argument", w.InstrPos(s.Instr), "argument is an atomic load of Store.size (the cursor left by the scan)", "Truncate argument is not the scanned Store.size")
	// T3c (round 6): the cursor the scan left is the cursor handed to Truncate — nothing on
	// a path from the scan's return to the Truncate may write Store.size (directly or in a
	// callee): the file would be cut somewhere other than the end of the root record found.
	if scanCall != nil {
		fn := s.Instr.Parent()
		trunc := ssa.Instruction(s.Instr)
		movers := func(in ssa.Instruction) bool {
			if in == ssa.Instruction(scanCall) || in == trunc {
				return false
			}
			for _, sw := range w.sizeWritesIn(fn) {
				if sw.Instr == in {
					return true
				}
			}
			if c, ok := in.(ssa.CallInstruction); ok {
				if f := c.Common().StaticCallee(); f != nil && w.InLib(f) && len(w.sizeWritesInReach(f)) > 0 {
					return true
				}
				if f := c.Common().StaticCallee(); f != nil {
					if _, isSetter := w.sizeSetters()[f]; isSetter {
						return true
					}
				}
			}
			return false
		}
		var bad ssa.Instruction
		if hit, _ := pathAvoidingCFG(fn, scanCall, movers, func(in ssa.Instruction) bool { return in == trunc }, nil); hit != nil {
			if again, _ := pathAvoidingCFG(fn, hit, func(in ssa.Instruction) bool { return in == trunc }, nil, nil); again != nil {
				bad = hit
			}
		}
		pos := w.InstrPos(s.Instr)
		if bad != nil {
			pos = w.InstrPos(bad)
		}
		r.Check(bad == nil, rule, key+" › cursor untouched between scan and Truncate", pos, "no write of Store.size lies on a path from the scan's return to the Truncate: the file is cut exactly where the scan stopped", "Store.size is written between the backward scan and the Truncate: the file is cut somewhere other than the end of the root record the scan found (a later FlushRevert or re-open loses flushed states)")
	}
}

// sizeWritesInReach: all writes to Store.size in functions reachable from fn.
func (w *World) sizeWritesInReach(fn *ssa.Function) []SizeWrite {
	var out []SizeWrite
	for f := range w.G.ReachFrom(fn).Set {
		if _, isSetter := w.sizeSetters()[f]; isSetter {
			continue // a setter wrapper's own store is judged at its call sites
		}
		if w.InLib(f) {
			out = append(out, w.sizeWritesIn(f)...)
		}
	}
	return out
}

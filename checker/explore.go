package main

// Path-sensitive forward exploration of one function's CFG with a small environment:
// φ-nodes are resolved along the edge taken, and local cells (named results, captured
// variables) remember the last value stored on the path.  Used by the error-flow,
// pairing and ordering rules.

import (
	"fmt"
	"go/token"
	"sort"
	"strings"

	"golang.org/x/tools/go/ssa"
)

type Env struct {
	vals  map[ssa.Value]ssa.Value // phi / alloc / freevar cell -> value on this path
	flags map[string]bool
	nils  map[ssa.Value]bool // value -> known nil (true) / known non-nil (false) from a test taken on this path
	// fields: last value stored on this path into a field of an object (`c.err = f()` …
	// `c.err != nil`), keyed by (resolved base, field index); forgotten at the next call
	fields map[fieldCell]ssa.Value
}

type fieldCell struct {
	base ssa.Value
	idx  int
}

func newEnv() *Env {
	return &Env{vals: map[ssa.Value]ssa.Value{}, flags: map[string]bool{}, nils: map[ssa.Value]bool{}, fields: map[fieldCell]ssa.Value{}}
}

func (e *Env) clone() *Env {
	n := newEnv()
	for k, v := range e.vals {
		n.vals[k] = v
	}
	for k, v := range e.flags {
		n.flags[k] = v
	}
	for k, v := range e.nils {
		n.nils[k] = v
	}
	for k, v := range e.fields {
		n.fields[k] = v
	}
	return n
}

func (e *Env) sig() string {
	var parts []string
	for k, v := range e.vals {
		parts = append(parts, fmt.Sprintf("%p=%p", k, v))
	}
	for k, v := range e.nils {
		parts = append(parts, fmt.Sprintf("nil(%p)=%v", k, v))
	}
	for k, v := range e.fields {
		parts = append(parts, fmt.Sprintf("fld(%p.%d)=%p", k.base, k.idx, v))
	}
	for k, v := range e.flags {
		if v {
			parts = append(parts, k)
		}
	}
	sort.Strings(parts)
	return strings.Join(parts, ",")
}

// Resolve chases φ-nodes and loads of tracked cells.
func (e *Env) Resolve(v ssa.Value) ssa.Value {
	for i := 0; i < 16; i++ {
		switch x := v.(type) {
		case *ssa.Phi:
			if r, ok := e.vals[x]; ok {
				v = r
				continue
			}
			return v
		case *ssa.UnOp:
			if x.Op == token.MUL {
				if r, ok := e.vals[x.X]; ok {
					v = r
					continue
				}
				if fa, isFa := x.X.(*ssa.FieldAddr); isFa && len(e.fields) > 0 {
					if r, ok := e.fields[fieldCell{e.Resolve(fa.X), fa.Field}]; ok {
						v = r
						continue
					}
				}
			}
			return v
		case *ssa.ChangeType:
			v = x.X
			continue
		case *ssa.MakeInterface:
			return v
		default:
			return v
		}
	}
	return v
}

type Walker struct {
	Fn *ssa.Function
	// OnInstr is called for every instruction executed on a path; returning true stops
	// exploring this path.
	OnInstr func(env *Env, in ssa.Instruction, trail []*ssa.BasicBlock) (stop bool)
	// Branch decides which successors of an If are followed.
	Branch func(env *Env, ifi *ssa.If) (t, f bool)
	// OnBackEdge is called when the path is about to take a loop back edge.
	OnBackEdge func(env *Env, from, to *ssa.BasicBlock, trail []*ssa.BasicBlock) (stop bool)
	// OnEdge is called for every CFG edge taken (with the env of that edge).
	OnEdge    func(env *Env, from, to *ssa.BasicBlock, succIdx int) (stop bool)
	MaxStates int
	states     int
	Truncated  bool
}

// Run explores all paths starting right after instruction `from` (or at entry when nil).
func (w *Walker) Run(from ssa.Instruction, env *Env) {
	if env == nil {
		env = newEnv()
	}
	if w.MaxStates == 0 {
		w.MaxStates = 20000
	}
	if len(w.Fn.Blocks) == 0 {
		return
	}
	b, i := w.Fn.Blocks[0], 0
	if from != nil {
		p := posOf(from)
		b, i = p.b, p.i+1
	}
	seen := map[string]bool{}
	w.walk(b, i, env, nil, seen)
}

// RunEdge explores all paths that start by taking successor k of block b (φ-nodes of the
// successor are resolved for that edge).
func (w *Walker) RunEdge(b *ssa.BasicBlock, k int, env *Env) {
	if env == nil {
		env = newEnv()
	}
	if w.MaxStates == 0 {
		w.MaxStates = 20000
	}
	s := b.Succs[k]
	idx := -1
	for pi, p := range s.Preds {
		if p == b {
			idx = pi
		}
	}
	newVals := map[ssa.Value]ssa.Value{}
	for _, in := range s.Instrs {
		phi, ok := in.(*ssa.Phi)
		if !ok {
			break
		}
		if idx >= 0 {
			newVals[phi] = env.Resolve(phi.Edges[idx])
		}
	}
	for k2, v := range newVals {
		env.vals[k2] = v
	}
	w.walk(s, 0, env, []*ssa.BasicBlock{b}, map[string]bool{})
}

// RunBlock explores all paths starting at the first instruction of block b.
func (w *Walker) RunBlock(b *ssa.BasicBlock, env *Env) {
	if env == nil {
		env = newEnv()
	}
	if w.MaxStates == 0 {
		w.MaxStates = 20000
	}
	w.walk(b, 0, env, nil, map[string]bool{})
}

func (w *Walker) walk(b *ssa.BasicBlock, i int, env *Env, trail []*ssa.BasicBlock, seen map[string]bool) {
	key := fmt.Sprintf("%d:%d|%s", b.Index, i, env.sig())
	if seen[key] {
		return
	}
	seen[key] = true
	w.states++
	if w.states > w.MaxStates {
		w.Truncated = true
		return
	}
	trail = append(trail, b)
	for ; i < len(b.Instrs); i++ {
		in := b.Instrs[i]
		if _, isPhi := in.(*ssa.Phi); isPhi {
			continue // resolved on edge entry
		}
		// a value computed again (next loop iteration) is a new value
		if v, ok := in.(ssa.Value); ok && len(env.nils) > 0 {
			delete(env.nils, v)
		}
		// track stores to local cells and to fields of objects
		if st, ok := in.(*ssa.Store); ok {
			switch a := st.Addr.(type) {
			case *ssa.Alloc, *ssa.FreeVar:
				env.vals[st.Addr] = env.Resolve(st.Val)
			case *ssa.FieldAddr:
				env.fields[fieldCell{env.Resolve(a.X), a.Field}] = env.Resolve(st.Val)
			}
		}
		// a call may write any field
		if _, isCall := in.(ssa.CallInstruction); isCall && len(env.fields) > 0 {
			env.fields = map[fieldCell]ssa.Value{}
		}
		if w.OnInstr != nil && w.OnInstr(env, in, trail) {
			return
		}
	}
	if len(b.Instrs) == 0 {
		return
	}
	last := b.Instrs[len(b.Instrs)-1]
	follow := make([]bool, len(b.Succs))
	for k := range follow {
		follow[k] = true
	}
	if ifi, ok := last.(*ssa.If); ok && len(b.Succs) == 2 {
		if w.Branch != nil {
			follow[0], follow[1] = w.Branch(env, ifi)
		}
		// arms the values on this path rule out (a result assigned a definite error or nil
		// earlier on the path and tested here)
		if v, known := envDecide(env, ifi.Cond); known {
			follow[0], follow[1] = follow[0] && v, follow[1] && !v
		}
	}
	for k, s := range b.Succs {
		if !follow[k] {
			continue
		}
		ne := env.clone()
		// remember what the arm taken says about a nil-tested value (`if err != nil`): a later
		// test of the same value on this path has only one feasible arm
		if ifi, ok := last.(*ssa.If); ok && len(b.Succs) == 2 && b.Succs[0] != b.Succs[1] {
			if x, trueMeansNil, isNil := nilTest(ifi.Cond); isNil {
				if rx := env.Resolve(x); nilState(rx) == -1 {
					ne.nils[rx] = (k == 0) == trueMeansNil
				}
			}
		}
		if w.OnEdge != nil && w.OnEdge(ne, b, s, k) {
			continue
		}
		if s.Dominates(b) { // back edge
			if w.OnBackEdge != nil && w.OnBackEdge(ne, b, s, trail) {
				continue
			}
		}
		// resolve φ-nodes of s along edge b→s (parallel assignment)
		idx := -1
		for pi, p := range s.Preds {
			if p == b {
				idx = pi
			}
		}
		newVals := map[ssa.Value]ssa.Value{}
		for _, in := range s.Instrs {
			phi, ok := in.(*ssa.Phi)
			if !ok {
				break
			}
			if idx >= 0 {
				newVals[phi] = env.Resolve(phi.Edges[idx])
			}
		}
		for k2, v := range newVals {
			ne.vals[k2] = v
		}
		w.walk(s, 0, ne, trail, seen)
	}
}

// nilTest: cond is (x == nil) or (x != nil) after folding NOT; returns x and whether the
// TRUE branch means "x is nil".
func nilTest(cond ssa.Value) (x ssa.Value, trueMeansNil bool, ok bool) {
	neg := false
	for {
		if u, isU := cond.(*ssa.UnOp); isU && u.Op == token.NOT {
			cond, neg = u.X, !neg
			continue
		}
		break
	}
	b, isBin := cond.(*ssa.BinOp)
	if !isBin || (b.Op != token.EQL && b.Op != token.NEQ) {
		return nil, false, false
	}
	switch {
	case isNilConst(b.Y):
		x = b.X
	case isNilConst(b.X):
		x = b.Y
	default:
		return nil, false, false
	}
	t := b.Op == token.EQL
	if neg {
		t = !t
	}
	return x, t, true
}

func trailString(w *World, trail []*ssa.BasicBlock) []string {
	var out []string
	for _, b := range trail {
		pos := "-"
		for _, in := range b.Instrs {
			if in.Pos().IsValid() {
				pos = w.Pos(in.Pos())
				break
			}
		}
		out = append(out, fmt.Sprintf("block %d %s @ %s", b.Index, b.Comment, pos))
	}
	if len(out) > 14 {
		out = append(out[:6], append([]string{"…"}, out[len(out)-7:]...)...)
	}
	return out
}

// envDecide: the truth value of a branch condition under the values of this path, when the
// condition is a constant or a nil test of a value known nil / known non-nil.
func envDecide(env *Env, cond ssa.Value) (val, known bool) {
	neg := false
	for {
		if u, isU := cond.(*ssa.UnOp); isU && u.Op == token.NOT {
			cond, neg = u.X, !neg
			continue
		}
		break
	}
	cond = env.Resolve(cond)
	if k, ok := cond.(*ssa.Const); ok && k.Value != nil && (k.Value.String() == "true" || k.Value.String() == "false") {
		return (k.Value.String() == "true") != neg, true
	}
	b, ok := cond.(*ssa.BinOp)
	if !ok || (b.Op != token.EQL && b.Op != token.NEQ) {
		return false, false
	}
	var x ssa.Value
	switch {
	case isNilConst(b.Y):
		x = b.X
	case isNilConst(b.X):
		x = b.Y
	default:
		return false, false
	}
	rx := env.Resolve(x)
	st := nilState(rx)
	if st == -1 {
		if isNil, known := env.nils[rx]; known {
			st = 0
			if isNil {
				st = 1
			}
		}
	}
	switch st {
	case 1:
		return ((b.Op == token.EQL) != neg), true
	case 0:
		return ((b.Op == token.NEQ) != neg), true
	}
	return false, false
}

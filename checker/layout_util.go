package main

func widthInt(bits string) int64 {
	switch bits {
	case "16":
		return 2
	case "32":
		return 4
	case "64":
		return 8
	}
	return 0
}

package main

import "golang.org/x/tools/go/ssa"

func widthInt(bits string) int64 {
	switch bits {
	case "16":
		return 2
	case "32":
		return 4
	case "64":
		return 8
	}
	return 0
}

// phiBusy guards evInt against φ-nodes that (through a loop's back edge) refer to themselves.
var phiBusy = map[*ssa.Phi]bool{}

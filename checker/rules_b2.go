package main

import (
	"fmt"
	"go/token"

	"golang.org/x/tools/go/ssa"
)

// counterTest: iff compares a counter variable with a linear form of another variable.
// Returns the counter's cell, the threshold T and the successor index on which
// "counter >= T" holds (exactly: == T for an equality test), whatever way round and with
// whatever operator the test is spelled.
func counterTest(iff *ssa.If, bind map[*ssa.FreeVar]ssa.Value) (cell ssa.Value, thr linForm, arm int, ok bool) {
	cond := iff.Cond
	neg := false
	for {
		if u, isU := cond.(*ssa.UnOp); isU && u.Op == token.NOT {
			cond, neg = u.X, !neg
			continue
		}
		break
	}
	bo, isB := cond.(*ssa.BinOp)
	if !isB {
		return nil, linForm{}, 0, false
	}
	op := bo.Op
	x, y := bo.X, bo.Y
	cx, cy := cellOfLoad(x, bind), cellOfLoad(y, bind)
	tx, okx := linOf(x, bind, 0)
	ty, oky := linOf(y, bind, 0)
	// the counter is the variable that is assigned more than once
	isCounter := func(c ssa.Value) bool {
		al, isAl := c.(*ssa.Alloc)
		if !isAl {
			return false
		}
		if singleStore(al) == nil {
			return true
		}
		// initialised once here, updated by a closure that captured it
		for fv, b := range bind {
			if b == ssa.Value(al) && fv.Referrers() != nil {
				for _, rf := range *fv.Referrers() {
					if st, isSt := rf.(*ssa.Store); isSt && st.Addr == ssa.Value(fv) {
						return true
					}
				}
			}
		}
		return false
	}
	switch {
	case cx != nil && isCounter(cx) && oky && ty.cell != nil && ty.cell != cx:
		cell, thr = cx, ty
	case cy != nil && isCounter(cy) && okx && tx.cell != nil && tx.cell != cy:
		cell, thr = cy, tx
		// threshold OP counter  ==  counter OP' threshold
		op = map[token.Token]token.Token{token.LSS: token.GTR, token.LEQ: token.GEQ, token.GTR: token.LSS, token.GEQ: token.LEQ, token.EQL: token.EQL, token.NEQ: token.NEQ}[op]
	default:
		return nil, linForm{}, 0, false
	}
	// the arm on which counter >= thr (or == thr)
	switch op {
	case token.GEQ, token.EQL:
		arm = 0
	case token.GTR:
		arm, thr.k = 0, thr.k+1
	case token.LSS, token.NEQ:
		arm = 1
	case token.LEQ:
		arm, thr.k = 1, thr.k+1
	default:
		return nil, linForm{}, 0, false
	}
	if neg {
		arm = 1 - arm
	}
	return cell, thr, arm, true
}

// B2: the collecting pass spaces the block start keys exactly as far apart as the
// presenting pass walks from each start key.
func ruleB2(w *World, r *Report) {
	const rule = "B2"
	for _, name := range []string{"(*Collection).VisitItemsAscendBlockEx", "(*Collection).VisitItemsRandom"} {
		fn := w.Fn(name)
		if fn == nil {
			r.Unknown(rule, "anchor "+name, "-", "exported API not found")
			continue
		}
		bind := closureBindings(fn)
		key := name + " › block stride of the collecting pass = items presented per block"
		// collecting pass: a closure that appends and resets its counter at a threshold
		var stride *linForm
		stridePos := ""
		for _, cl := range fn.AnonFuncs {
			appends := false
			eachInstr(cl, func(in ssa.Instruction) {
				if c, ok := in.(*ssa.Call); ok {
					if b, isB := c.Common().Value.(*ssa.Builtin); isB && b.Name() == "append" {
						appends = true
					}
				}
			})
			if !appends {
				continue
			}
			for _, b := range cl.Blocks {
				iff, ok := b.Instrs[len(b.Instrs)-1].(*ssa.If)
				if !ok {
					continue
				}
				cell, t, arm, okT := counterTest(iff, bind)
				if !okT || !storesConstTo(b.Succs[arm], cell, bind, 0) {
					continue
				}
				// items per block: the one that starts it (counter 0) plus those seen with
				// counter 1..T
				s := linForm{t.cell, t.k + 1}
				stride = &s
				stridePos = w.InstrPos(iff)
			}
		}
		if stride == nil {
			r.Unknown(rule, key, w.Pos(fn.Pos()), "collecting pass not recognised: no visitor closure that appends a start key and resets its counter at a threshold")
			continue
		}
		// presenting pass: a per-block visitor that stops (answers false) once its counter
		// reaches a threshold …
		var count *linForm
		countPos := ""
		for _, cl := range fn.AnonFuncs {
			for _, b := range cl.Blocks {
				iff, ok := b.Instrs[len(b.Instrs)-1].(*ssa.If)
				if !ok {
					continue
				}
				_, l, arm, okL := counterTest(iff, bind)
				if !okL {
					continue
				}
				tb := b.Succs[arm]
				ret, isRet := tb.Instrs[len(tb.Instrs)-1].(*ssa.Return)
				if !isRet || len(ret.Results) != 1 {
					continue
				}
				if c, isC := ret.Results[0].(*ssa.Const); !isC || c.Value == nil || c.Value.String() != "false" {
					continue
				}
				c := linForm{l.cell, l.k + 1} // counter values 0..L are presented
				count = &c
				countPos = w.InstrPos(iff)
			}
		}
		// … or a counted loop of rounds (one item of every block per round), counting down
		// (`for j := N; j > 0; j--`) or up (`for i := a; i <= L; i++`)
		if count == nil {
			eachInstr(fn, func(in ssa.Instruction) {
				p, ok := in.(*ssa.Phi)
				if !ok || count != nil || !isLoopHeaderPhi(p) {
					return
				}
				var init ssa.Value
				step := int64(0)
				for _, e := range p.Edges {
					if bo, isBo := e.(*ssa.BinOp); isBo && (bo.Op == token.SUB || bo.Op == token.ADD) && bo.X == ssa.Value(p) {
						if k, isK := constInt(bo.Y); isK && k == 1 {
							step = 1
							if bo.Op == token.SUB {
								step = -1
							}
							continue
						}
					}
					init = e
				}
				if init == nil || step == 0 || p.Referrers() == nil {
					return
				}
				for _, ref := range *p.Referrers() {
					bo, isBo := ref.(*ssa.BinOp)
					if !isBo || bo.X != ssa.Value(p) {
						continue
					}
					switch {
					case step == -1 && bo.Op == token.GTR:
						if k, isK := constInt(bo.Y); isK && k == 0 {
							if l, okL := linOf(init, bind, 0); okL && l.cell != nil {
								ll := l
								count, countPos = &ll, w.InstrPos(p)
							}
						}
					case step == +1 && (bo.Op == token.LEQ || bo.Op == token.LSS):
						a, isA := constInt(init)
						l, okL := linOf(bo.Y, bind, 0)
						if isA && okL && l.cell != nil {
							ll := linForm{l.cell, l.k - a}
							if bo.Op == token.LEQ {
								ll.k++
							}
							count, countPos = &ll, w.InstrPos(p)
						}
					}
				}
			})
		}
		if count == nil {
			r.Unknown(rule, key, w.Pos(fn.Pos()), "presenting pass not recognised: neither a per-block visitor that stops at a threshold nor a counted loop over the blocks")
			continue
		}
		if stride.cell == count.cell && stride.k == count.k {
			r.OK(rule, key, stridePos, fmt.Sprintf("start keys are %s items apart and %s items are presented from each", stride, count))
		} else {
			r.Bad(rule, key, stridePos, fmt.Sprintf("start keys are %s items apart but %s items are presented from each start key (at %s): neighbouring blocks overlap or leave a gap once blocks are longer than the minimum", stride, count, countPos))
		}
	}
	r.Floor(rule, 2)
}

package main

// Core of gkvcheck: loading /repo (optionally with an in-memory overlay), building
// SSA, indexing functions, and the obligation/report vocabulary shared by all rules.

import (
	"fmt"
	"go/token"
	"go/types"
	"os"
	"path/filepath"
	"sort"
	"strings"

	"golang.org/x/tools/go/packages"
	"golang.org/x/tools/go/ssa"
	"golang.org/x/tools/go/ssa/ssautil"
)

const modPath = "github.com/cbehopkins/gkvlite"

// World is one loaded, type-checked and SSA-built variant of the repository.
type World struct {
	Repo   string
	Fset   *token.FileSet
	Pkgs   []*packages.Package
	Prog   *ssa.Program
	Lib    *ssa.Package // package gkvlite
	LibT   *types.Package
	Funcs  []*ssa.Function          // every function and closure of the module (non-test)
	ByName map[string]*ssa.Function // short name -> function
	G      *Graph
	cache  map[string]interface{}
	// NormNotes: what normalize.go did to the source before analysis (helpers dissolved).
	NormNotes []string
}

// LoadWorld loads ./... of repo.  overlay maps absolute file names to contents.
func LoadWorld(repo string, overlay map[string][]byte, env []string, tags string) (*World, error) {
	if os.Getenv("GKV_NO_NORMALIZE") == "" && needsNormalisation(repo, overlay) {
		norm := normalizeOverlay(repo, overlay, env, tags)
		notes := append([]string{}, normalizeNotes...)
		if d := os.Getenv("GKV_DEBUG_NORM"); d != "" {
			for _, n := range notes {
				fmt.Fprintln(os.Stderr, "norm:", n)
			}
			os.MkdirAll(d, 0o755)
			for k, v := range norm {
				os.WriteFile(filepath.Join(d, filepath.Base(k)), v, 0o644)
			}
		}
		w, err := loadWorldRaw(repo, norm, env, tags)
		if err == nil {
			w.NormNotes = notes
			return w, nil
		}
		notes = append(notes, "normalised source did not load ("+err.Error()+"): the original source is analysed")
		w, err = loadWorldRaw(repo, overlay, env, tags)
		if w != nil {
			w.NormNotes = notes
		}
		return w, err
	}
	return loadWorldRaw(repo, overlay, env, tags)
}

func loadWorldRaw(repo string, overlay map[string][]byte, env []string, tags string) (*World, error) {
	cfg := &packages.Config{
		Mode:    packages.LoadAllSyntax,
		Dir:     repo,
		Overlay: overlay,
		Env:     append(os.Environ(), env...),
	}
	if tags != "" {
		cfg.BuildFlags = []string{"-tags=" + tags}
	}
	pkgs, err := packages.Load(cfg, "./...")
	if err != nil {
		return nil, fmt.Errorf("load: %v", err)
	}
	if len(pkgs) < 4 {
		return nil, fmt.Errorf("load: only %d packages found under %s (expected >= 4)", len(pkgs), repo)
	}
	var errs []string
	packages.Visit(pkgs, nil, func(p *packages.Package) {
		for _, e := range p.Errors {
			errs = append(errs, e.Error())
		}
	})
	if len(errs) > 0 {
		return nil, fmt.Errorf("type-check/load errors: %s", strings.Join(errs, "; "))
	}
	prog, spkgs := ssautil.AllPackages(pkgs, ssa.BuilderMode(0))
	prog.Build()
	w := &World{Repo: repo, Fset: prog.Fset, Pkgs: pkgs, Prog: prog, ByName: map[string]*ssa.Function{}, cache: map[string]interface{}{}}
	for i, p := range pkgs {
		if p.PkgPath == modPath {
			w.Lib = spkgs[i]
			w.LibT = p.Types
		}
	}
	if w.Lib == nil {
		return nil, fmt.Errorf("package %s not found", modPath)
	}
	for fn := range ssautil.AllFunctions(prog) {
		if fn.Synthetic != "" && fn.Parent() == nil {
			// wrappers, bound methods, init: keep only package init (holds var initialisers)
			if fn.Name() != "init" {
				continue
			}
		}
		if !w.InModule(fn) || fn.Blocks == nil {
			continue
		}
		w.Funcs = append(w.Funcs, fn)
	}
	sort.Slice(w.Funcs, func(i, j int) bool { return w.Name(w.Funcs[i]) < w.Name(w.Funcs[j]) })
	for _, fn := range w.Funcs {
		w.ByName[w.Name(fn)] = fn
	}
	w.G = BuildGraph(w)
	return w, nil
}

func fnPkg(fn *ssa.Function) *ssa.Package {
	for fn.Parent() != nil {
		fn = fn.Parent()
	}
	if fn.Pkg != nil {
		return fn.Pkg
	}
	if o := fn.Origin(); o != nil && o.Pkg != nil {
		return o.Pkg
	}
	return nil
}

// InModule reports whether fn belongs to a package of the gkvlite module.
func (w *World) InModule(fn *ssa.Function) bool {
	p := fnPkg(fn)
	if p == nil || p.Pkg == nil {
		return false
	}
	pp := p.Pkg.Path()
	return pp == modPath || strings.HasPrefix(pp, modPath+"/")
}

// InLib reports whether fn belongs to package gkvlite itself.
func (w *World) InLib(fn *ssa.Function) bool {
	p := fnPkg(fn)
	return p != nil && p == w.Lib
}

// Name gives a short stable name: "(*Collection).GetItem", "(*Store).walk",
// closures "(*Collection).EvictSomeItems$1", other packages "tools/slab.xyz".
func (w *World) Name(fn *ssa.Function) string {
	return shortName(fn.String())
}

func shortName(s string) string {
	s = strings.ReplaceAll(s, modPath+"/", "")
	s = strings.ReplaceAll(s, modPath+".", "")
	return s
}

func (w *World) Fn(name string) *ssa.Function { return w.ByName[name] }

// Pos renders a position relative to the repository root.
func (w *World) Pos(p token.Pos) string {
	if !p.IsValid() {
		return "-"
	}
	pp := w.Fset.Position(p)
	rel, err := filepath.Rel(w.Repo, pp.Filename)
	if err != nil {
		rel = pp.Filename
	}
	return fmt.Sprintf("%s:%d", rel, pp.Line)
}

func (w *World) InstrPos(in ssa.Instruction) string {
	if in == nil {
		return "-"
	}
	p := in.Pos()
	if !p.IsValid() {
		// fall back on any operand / the closest positioned instruction in the block
		b := in.Block()
		if b != nil {
			idx := -1
			for i, x := range b.Instrs {
				if x == in {
					idx = i
				}
			}
			for i := idx; i >= 0; i-- {
				if b.Instrs[i].Pos().IsValid() {
					return w.Pos(b.Instrs[i].Pos())
				}
			}
			for i := idx + 1; i >= 0 && i < len(b.Instrs); i++ {
				if b.Instrs[i].Pos().IsValid() {
					return w.Pos(b.Instrs[i].Pos())
				}
			}
		}
		if in.Parent() != nil {
			return w.Pos(in.Parent().Pos())
		}
	}
	return w.Pos(p)
}

// ---------------------------------------------------------------------------------
// Obligations

type Status string

const (
	Discharged Status = "discharged"
	Violated   Status = "violated"
	Known      Status = "known-finding"
	Undecided  Status = "undecided"
)

type Ob struct {
	Rule      string   `json:"rule"`
	Construct string   `json:"construct"`
	Pos       string   `json:"pos"`
	Status    Status   `json:"status"`
	Detail    string   `json:"detail,omitempty"`
	Witness   []string `json:"witness,omitempty"`
}

// Report collects the obligations of one property on one world.
type Report struct {
	Prop     string
	Obs      []*Ob
	Notes    []string
	Floors   map[string]int // rule -> minimal number of instances
	Info     map[string]interface{}
	seenKeys map[string]int
}

func NewReport(prop string) *Report {
	return &Report{Prop: prop, Floors: map[string]int{}, Info: map[string]interface{}{}, seenKeys: map[string]int{}}
}

// key uniqueness: identical (rule, construct) pairs get an ordinal suffix.
func (r *Report) add(rule, construct, pos string, st Status, detail string, witness ...string) *Ob {
	k := rule + "\x00" + construct
	r.seenKeys[k]++
	if n := r.seenKeys[k]; n > 1 {
		construct = fmt.Sprintf("%s #%d", construct, n)
	}
	ob := &Ob{Rule: rule, Construct: construct, Pos: pos, Status: st, Detail: detail, Witness: witness}
	r.Obs = append(r.Obs, ob)
	return ob
}

func (r *Report) OK(rule, construct, pos, detail string) *Ob {
	return r.add(rule, construct, pos, Discharged, detail)
}
func (r *Report) Bad(rule, construct, pos, detail string, witness ...string) *Ob {
	return r.add(rule, construct, pos, Violated, detail, witness...)
}
func (r *Report) Unknown(rule, construct, pos, detail string) *Ob {
	return r.add(rule, construct, pos, Undecided, detail)
}
func (r *Report) Check(ok bool, rule, construct, pos, okDetail, badDetail string, witness ...string) *Ob {
	if ok {
		return r.OK(rule, construct, pos, okDetail)
	}
	return r.Bad(rule, construct, pos, badDetail, witness...)
}
func (r *Report) Floor(rule string, n int) { r.Floors[rule] = n }
func (r *Report) Note(format string, a ...interface{}) {
	r.Notes = append(r.Notes, fmt.Sprintf(format, a...))
}

func (r *Report) Count(rule string) int {
	n := 0
	for _, o := range r.Obs {
		if o.Rule == rule {
			n++
		}
	}
	return n
}

// ---------------------------------------------------------------------------------
// small helpers over types

func deref(t types.Type) types.Type {
	if p, ok := t.Underlying().(*types.Pointer); ok {
		return p.Elem()
	}
	return t
}

func namedOf(t types.Type) *types.Named {
	t = deref(t)
	if n, ok := t.(*types.Named); ok {
		return n
	}
	if a, ok := t.(*types.Alias); ok {
		if n, ok := types.Unalias(a).(*types.Named); ok {
			return n
		}
	}
	return nil
}

// typeIs reports whether t (or *t) is the named type pkgPath.name.
func typeIs(t types.Type, pkgPath, name string) bool {
	n := namedOf(t)
	if n == nil || n.Obj() == nil {
		return false
	}
	if n.Obj().Name() != name {
		return false
	}
	if n.Obj().Pkg() == nil {
		return pkgPath == ""
	}
	return n.Obj().Pkg().Path() == pkgPath
}

func isLibType(t types.Type, name string) bool { return typeIs(t, modPath, name) }

func isErrorType(t types.Type) bool {
	return types.Identical(t, types.Universe.Lookup("error").Type())
}

// fieldName of a FieldAddr / Field instruction.
func fieldOf(v ssa.Value) (base ssa.Value, st *types.Named, name string, ok bool) {
	switch x := v.(type) {
	case *ssa.FieldAddr:
		t := deref(x.X.Type())
		s, ok2 := t.Underlying().(*types.Struct)
		if !ok2 {
			return nil, nil, "", false
		}
		return x.X, namedOf(t), s.Field(x.Field).Name(), true
	case *ssa.Field:
		t := x.X.Type()
		s, ok2 := t.Underlying().(*types.Struct)
		if !ok2 {
			return nil, nil, "", false
		}
		return x.X, namedOf(t), s.Field(x.Field).Name(), true
	}
	return nil, nil, "", false
}

// isFieldAddr reports v == &X.<field> where X has named struct type typ of the library.
func isFieldAddr(v ssa.Value, typ, field string) (ssa.Value, bool) {
	fa, ok := v.(*ssa.FieldAddr)
	if !ok {
		return nil, false
	}
	_, st, name, ok := fieldOf(fa)
	if !ok || st == nil || name != field || st.Obj().Name() != typ || st.Obj().Pkg() == nil || st.Obj().Pkg().Path() != modPath {
		return nil, false
	}
	return fa.X, true
}

func sortedKeys[V any](m map[string]V) []string {
	ks := make([]string, 0, len(m))
	for k := range m {
		ks = append(ks, k)
	}
	sort.Strings(ks)
	return ks
}

package main

// Source normalisation before analysis: helpers that the rules do not know are dissolved
// into their callers by a restricted, semantics-preserving source-level inlining.
//
// Two kinds of helper are recognised:
//   - unexported functions / methods of package gkvlite whose declaration key is not in the
//     frozen table knownFuncs (knownfuncs.go);
//   - local closures bound once to a variable (`fail := func(...) {...}`) and only ever
//     called directly.
// "Extract a helper" is the most common behaviour-preserving edit of a code base; without
// this step every rule that looks at one function's paths, guards or dominance would have
// to be interprocedural in its own way.
//
// The transformation is deliberately narrow (everything else is left alone and the helper
// is then kept):
//   - helper: not variadic, no type parameters, no defer / recover / labels / goto, not
//     (directly) recursive;
//   - call site: an expression statement; the only right-hand side of an assignment or
//     definition; the only operand of a return; the init statement or the whole
//     (possibly negated) condition of an if that is not in else-position; a defer
//     statement (becomes `defer func(params){ body }(args)`);
//   - every identifier of the helper body that is not local to the body must denote the
//     same object at the call site.
// Arguments are evaluated once, in order, into typed temporaries; results are assigned to
// typed temporaries; `return` becomes assignment + `break` out of a labelled
// `switch { default: … }`, which adds no loop to the control-flow graph.  //line
// directives keep reported positions on the original lines (inlined statements report the
// helper's own lines).  The transformed files are type-checked by the normal load; if
// that fails the original source is analysed instead (noted in the evidence).

import (
	"bytes"
	"fmt"
	"go/ast"
	"go/parser"
	"go/token"
	"go/types"
	"os"
	"path/filepath"
	"sort"
	"strings"

	"golang.org/x/tools/go/packages"
)

var normalizeNotes []string

func declKey(fd *ast.FuncDecl) string {
	if fd.Recv != nil && len(fd.Recv.List) == 1 {
		t := fd.Recv.List[0].Type
		if st, ok := t.(*ast.StarExpr); ok {
			t = st.X
		}
		if id, ok := t.(*ast.Ident); ok {
			return id.Name + "." + fd.Name.Name
		}
	}
	return fd.Name.Name
}

// localClosureNames: names bound by `x := func…` inside fd that are called directly.
func localClosureNames(body *ast.BlockStmt) []string {
	bound := map[string]bool{}
	called := map[string]bool{}
	ast.Inspect(body, func(n ast.Node) bool {
		switch x := n.(type) {
		case *ast.AssignStmt:
			if x.Tok == token.DEFINE && len(x.Lhs) == 1 && len(x.Rhs) == 1 {
				if _, ok := x.Rhs[0].(*ast.FuncLit); ok {
					if id, ok := x.Lhs[0].(*ast.Ident); ok {
						bound[id.Name] = true
					}
				}
			}
		case *ast.CallExpr:
			if id, ok := x.Fun.(*ast.Ident); ok {
				called[id.Name] = true
			}
		}
		return true
	})
	var out []string
	for n := range bound {
		if called[n] {
			out = append(out, n)
		}
	}
	return out
}

// unknownHelpers does a parse-only scan (cheap) of the library package's non-test files.
func unknownHelpers(repo string, overlay map[string][]byte) []string {
	ents, err := os.ReadDir(repo)
	if err != nil {
		return nil
	}
	var out []string
	fset := token.NewFileSet()
	for _, e := range ents {
		n := e.Name()
		if e.IsDir() || !strings.HasSuffix(n, ".go") || strings.HasSuffix(n, "_test.go") {
			continue
		}
		path := filepath.Join(repo, n)
		var src interface{}
		if b, ok := overlay[path]; ok {
			src = b
		}
		f, err := parser.ParseFile(fset, path, src, parser.SkipObjectResolution)
		if err != nil {
			continue
		}
		for _, d := range f.Decls {
			fd, ok := d.(*ast.FuncDecl)
			if !ok || fd.Body == nil {
				continue
			}
			ctl := strings.HasPrefix(fd.Name.Name, "zzCtl") || strings.HasPrefix(fd.Name.Name, "ZzCtl")
			if !ast.IsExported(fd.Name.Name) && !ctl && fd.Name.Name != "init" {
				if k := declKey(fd); !knownFuncs[k] {
					out = append(out, k)
				}
			}
			if !ctl {
				for _, c := range localClosureNames(fd.Body) {
					out = append(out, declKey(fd)+"$"+c)
				}
			}
		}
	}
	sort.Strings(out)
	return out
}

// normalizeOverlay returns overlay plus transformed versions of the files that call
// unknown helpers.  It never fails: on any difficulty the input overlay is returned.
func normalizeOverlay(repo string, overlay map[string][]byte, env []string, tags string) map[string][]byte {
	normalizeNotes = nil
	cur := overlay
	// a known function that was merely renamed gets its name back first
	// (types and fields first: function signatures are compared under the known type names)
	if tr, fr := detectTypeRenames(repo, cur); len(tr)+len(fr) > 0 {
		if next, ok := applyRenames(repo, cur, env, tags, nil, tr, fr); ok {
			cur = next
		}
	}
	if rn := detectRenames(repo, cur); len(rn) > 0 {
		if next, ok := applyRenames(repo, cur, env, tags, rn, nil, nil); ok {
			cur = next
		}
	}
	for round := 0; round < 5; round++ {
		unk := unknownHelpers(repo, cur)
		if len(unk) == 0 {
			break
		}
		next, changed := normalizeRound(repo, cur, env, tags, unk)
		if !changed {
			break
		}
		cur = next
	}
	return cur
}

type helperInfo struct {
	key     string
	obj     types.Object // *types.Func or the *types.Var a closure is bound to
	sig     *types.Signature
	recv    *ast.FieldList
	params  *ast.FieldList
	results *ast.FieldList
	body    *ast.BlockStmt
	file    *ast.File
	// what to blank out once every use is inlined
	declFrom, declTo token.Pos
	isClosure        bool
	isExpr           bool      // body is a single `return expr`: substituted as an expression
	litFrom, litTo   token.Pos // closure: range of the literal (identifiers inside are local)
	sites            int
	done             int
}

type splice struct {
	from, to int // byte offsets in the file
	text     string
}

func normalizeRound(repo string, overlay map[string][]byte, env []string, tags string, unk []string) (map[string][]byte, bool) {
	cfg := &packages.Config{
		// types of the imports come from export data (fast); only this package is parsed
		Mode:    packages.NeedName | packages.NeedFiles | packages.NeedCompiledGoFiles | packages.NeedImports | packages.NeedTypes | packages.NeedTypesSizes | packages.NeedSyntax | packages.NeedTypesInfo,
		Dir:     repo,
		Overlay: overlay,
		Env:     append(os.Environ(), env...),
	}
	if tags != "" {
		cfg.BuildFlags = []string{"-tags=" + tags}
	}
	pkgs, err := packages.Load(cfg, ".")
	if err != nil || len(pkgs) != 1 || len(pkgs[0].Errors) > 0 || pkgs[0].PkgPath != modPath {
		normalizeNotes = append(normalizeNotes, "normalisation skipped: package did not load cleanly")
		return overlay, false
	}
	p := pkgs[0]
	fset, info := p.Fset, p.TypesInfo
	isUnk := map[string]bool{}
	for _, k := range unk {
		isUnk[k] = true
	}
	helpers := map[types.Object]*helperInfo{}
	isTest := func(f *ast.File) bool { return strings.HasSuffix(fset.Position(f.Pos()).Filename, "_test.go") }
	for _, f := range p.Syntax {
		if isTest(f) {
			continue
		}
		for _, d := range f.Decls {
			fd, ok := d.(*ast.FuncDecl)
			if !ok || fd.Body == nil {
				continue
			}
			if isUnk[declKey(fd)] {
				obj, _ := info.Defs[fd.Name].(*types.Func)
				if obj != nil {
					h := &helperInfo{key: declKey(fd), obj: obj, sig: obj.Type().(*types.Signature), recv: fd.Recv, params: fd.Type.Params, results: fd.Type.Results, body: fd.Body, file: f, declFrom: fd.Pos(), declTo: fd.End()}
					if fd.Doc != nil {
						h.declFrom = fd.Doc.Pos()
					}
					if why := notInlinable(h, info); why != "" {
						normalizeNotes = append(normalizeNotes, fmt.Sprintf("helper %s kept: %s", h.key, why))
					} else {
						if len(fd.Body.List) == 1 && h.sig.Results().Len() == 1 {
							if rs, ok := fd.Body.List[0].(*ast.ReturnStmt); ok && len(rs.Results) == 1 {
								h.isExpr = true
							}
						}
						helpers[obj] = h
					}
				}
			}
			// local closures bound once and only called
			ast.Inspect(fd.Body, func(n ast.Node) bool {
				as, ok := n.(*ast.AssignStmt)
				if !ok || as.Tok != token.DEFINE || len(as.Lhs) != 1 || len(as.Rhs) != 1 {
					return true
				}
				lit, ok := as.Rhs[0].(*ast.FuncLit)
				id, ok2 := as.Lhs[0].(*ast.Ident)
				if !ok || !ok2 || !isUnk[declKey(fd)+"$"+id.Name] {
					return true
				}
				v, _ := info.Defs[id].(*types.Var)
				if v == nil {
					return true
				}
				sig, _ := v.Type().(*types.Signature)
				if sig == nil {
					return true
				}
				h := &helperInfo{key: declKey(fd) + "$" + id.Name, obj: v, sig: sig, params: lit.Type.Params, results: lit.Type.Results, body: lit.Body, file: f, declFrom: as.Pos(), declTo: as.End(), isClosure: true, litFrom: lit.Pos(), litTo: lit.End()}
				if why := notInlinable(h, info); why != "" {
					normalizeNotes = append(normalizeNotes, fmt.Sprintf("closure %s kept: %s", h.key, why))
					return true
				}
				helpers[v] = h
				return true
			})
		}
	}
	// a closure qualifies only if every use of its variable is the function of a call
	for _, f := range p.Syntax {
		if isTest(f) {
			continue
		}
		callFun := map[*ast.Ident]bool{}
		ast.Inspect(f, func(n ast.Node) bool {
			if c, ok := n.(*ast.CallExpr); ok {
				if id, ok := c.Fun.(*ast.Ident); ok {
					callFun[id] = true
				}
			}
			return true
		})
		ast.Inspect(f, func(n ast.Node) bool {
			id, ok := n.(*ast.Ident)
			if !ok {
				return true
			}
			if h := helpers[info.Uses[id]]; h != nil {
				h.sites++
				if h.isClosure && !callFun[id] {
					delete(helpers, h.obj)
					normalizeNotes = append(normalizeNotes, fmt.Sprintf("closure %s kept: used as a value", h.key))
				}
			}
			return true
		})
	}
	if len(helpers) == 0 {
		return overlay, false
	}
	srcOf := func(f *ast.File) ([]byte, string) {
		path := fset.Position(f.Pos()).Filename
		if b, ok := overlay[path]; ok {
			return b, path
		}
		b, _ := os.ReadFile(path)
		return b, path
	}
	out := map[string][]byte{}
	for k, v := range overlay {
		out[k] = v
	}
	changed := false
	// ids are unique over all rounds of one run: a later round inlines into text that
	// already holds labels and temporaries of earlier rounds
	perFile := map[string][]splice{}
	for _, f := range p.Syntax {
		src, path := srcOf(f)
		if isTest(f) || src == nil {
			continue
		}
		tf := fset.File(f.Pos())
		off := func(pos token.Pos) int { return tf.Offset(pos) }
		var sp []splice
		var inlined [][2]token.Pos
		// expression helpers (`func h(a T) R { return expr }`) are substituted wherever they
		// are called with simple arguments
		var exprRanges [][2]token.Pos
		ast.Inspect(f, func(n ast.Node) bool {
			call, ok := n.(*ast.CallExpr)
			if !ok {
				return true
			}
			h := helpers[calleeOf(call, info)]
			if h == nil || !h.isExpr {
				return true
			}
			for _, hh := range helpers {
				if hh.file == f && call.Pos() >= hh.body.Pos() && call.Pos() < hh.body.End() {
					return true // inside a helper body: next round
				}
			}
			for _, r := range exprRanges {
				if call.Pos() >= r[0] && call.End() <= r[1] {
					return true // nested in a call already substituted: next round
				}
			}
			hsrc, _ := srcOf(h.file)
			txt, ok := buildExprInline(fset, p.Types, info, src, off, f, call, h, hsrc)
			if !ok {
				return true
			}
			sp = append(sp, splice{off(call.Pos()), off(call.End()), txt})
			exprRanges = append(exprRanges, [2]token.Pos{call.Pos(), call.End()})
			h.done++
			return true
		})
		var visitList func(list []ast.Stmt)
		var visitStmt func(s ast.Stmt)
		insideHelper := func(pos token.Pos) bool {
			for _, h := range helpers {
				if h.file == f && pos >= h.body.Pos() && pos < h.body.End() {
					return true
				}
			}
			return false
		}
		tryInline := func(s ast.Stmt) bool {
			if insideHelper(s.Pos()) {
				return false // bodies of helpers are copied, not edited; their own calls wait
			}
			for _, r := range exprRanges {
				if r[0] >= s.Pos() && r[1] <= s.End() {
					return false // an expression helper was substituted inside: next round
				}
			}
			site := findSite(s, info, helpers)
			if site == nil {
				return false
			}
			h := helpers[site.callee]
			hsrc, _ := srcOf(h.file)
			normUniq++
			txt, ok := buildInline(fset, p.Types, info, src, off, s, site, h, hsrc, normUniq)
			if !ok {
				return false
			}
			sp = append(sp, txt...)
			inlined = append(inlined, [2]token.Pos{s.Pos(), s.End()})
			h.done++
			return true
		}
		visitStmt = func(s ast.Stmt) {
			switch x := s.(type) {
			case *ast.BlockStmt:
				visitList(x.List)
			case *ast.IfStmt:
				visitList(x.Body.List)
				if x.Else != nil {
					switch e := x.Else.(type) {
					case *ast.BlockStmt:
						visitList(e.List)
					case *ast.IfStmt:
						visitList(e.Body.List) // else-if: only the bodies
						if e.Else != nil {
							visitStmt(e.Else)
						}
					}
				}
			case *ast.ForStmt:
				visitList(x.Body.List)
			case *ast.RangeStmt:
				visitList(x.Body.List)
			case *ast.SwitchStmt:
				for _, c := range x.Body.List {
					visitList(c.(*ast.CaseClause).Body)
				}
			case *ast.TypeSwitchStmt:
				for _, c := range x.Body.List {
					visitList(c.(*ast.CaseClause).Body)
				}
			case *ast.SelectStmt:
				for _, c := range x.Body.List {
					visitList(c.(*ast.CommClause).Body)
				}
			case *ast.LabeledStmt:
				visitStmt(x.Stmt)
			}
		}
		visitList = func(list []ast.Stmt) {
			for _, s := range list {
				if tryInline(s) {
					continue // nested sites of this statement wait for the next round
				}
				visitStmt(s)
			}
		}
		for _, d := range f.Decls {
			fd, ok := d.(*ast.FuncDecl)
			if !ok || fd.Body == nil {
				continue
			}
			visitList(fd.Body.List)
			ast.Inspect(fd.Body, func(n ast.Node) bool {
				if fl, ok := n.(*ast.FuncLit); ok {
					for _, r := range inlined {
						if fl.Pos() >= r[0] && fl.End() <= r[1] {
							return false // inside a statement already replaced: next round
						}
					}
					visitList(fl.Body.List)
				}
				return true
			})
		}
		if len(sp) > 0 {
			perFile[path] = append(perFile[path], sp...)
		}
	}
	// a helper all of whose uses were inlined is blanked out (lines kept)
	for _, h := range helpers {
		switch {
		case h.done > 0 && h.done == h.sites:
			src, path := srcOf(h.file)
			tf := fset.File(h.file.Pos())
			from, to := tf.Offset(h.declFrom), tf.Offset(h.declTo)
			blank := strings.Repeat("\n", bytes.Count(src[from:to], []byte("\n")))
			// the helper's file may import packages only the helper used: keep them referenced
			keep := ""
			if !h.isClosure {
				seen := map[string]bool{}
				ast.Inspect(h.body, func(n ast.Node) bool {
					se, ok := n.(*ast.SelectorExpr)
					if !ok {
						return true
					}
					id, ok := se.X.(*ast.Ident)
					if !ok {
						return true
					}
					if _, isPkg := info.Uses[id].(*types.PkgName); !isPkg || seen[id.Name] {
						return true
					}
					switch info.Uses[se.Sel].(type) {
					case *types.TypeName:
						keep += fmt.Sprintf("var _ %s.%s; ", id.Name, se.Sel.Name)
						seen[id.Name] = true
					case *types.Func, *types.Var:
						keep += fmt.Sprintf("var _ = %s.%s; ", id.Name, se.Sel.Name)
						seen[id.Name] = true
					case *types.Const:
						keep += fmt.Sprintf("const _ = %s.%s; ", id.Name, se.Sel.Name)
						seen[id.Name] = true
					}
					return true
				})
			}
			perFile[path] = append(perFile[path], splice{from, to, keep + blank})
			normalizeNotes = append(normalizeNotes, fmt.Sprintf("helper %s dissolved into its %d call site(s)", h.key, h.done))
		case h.done > 0:
			normalizeNotes = append(normalizeNotes, fmt.Sprintf("helper %s inlined at %d of %d uses (kept)", h.key, h.done, h.sites))
			if h.isClosure {
				// partially inlined closures are fine: the variable is still used
			}
		default:
			normalizeNotes = append(normalizeNotes, fmt.Sprintf("helper %s kept: no call site in a supported position", h.key))
		}
	}
	for path, sp := range perFile {
		var src []byte
		if b, ok := overlay[path]; ok {
			src = b
		} else {
			src, _ = os.ReadFile(path)
		}
		sort.SliceStable(sp, func(i, j int) bool { return sp[i].from > sp[j].from })
		okSp := true
		for i := 1; i < len(sp); i++ {
			if sp[i].to > sp[i-1].from {
				okSp = false // overlapping edits: give up on this file for this round
			}
		}
		if !okSp {
			normalizeNotes = append(normalizeNotes, "overlapping edits in "+filepath.Base(path)+": file left as is")
			continue
		}
		b := append([]byte{}, src...)
		for _, s := range sp {
			b = append(b[:s.from], append([]byte(s.text), b[s.to:]...)...)
		}
		out[path] = b
		changed = true
	}
	return out, changed
}

func notInlinable(h *helperInfo, info *types.Info) string {
	if h.sig.Variadic() {
		return "variadic"
	}
	if h.sig.TypeParams() != nil || h.sig.RecvTypeParams() != nil {
		return "generic"
	}
	if len(h.body.List) == 0 {
		return "empty body"
	}
	why := ""
	var walk func(n ast.Node, inLit bool)
	walk = func(n ast.Node, inLit bool) {
		ast.Inspect(n, func(m ast.Node) bool {
			if why != "" {
				return false
			}
			switch x := m.(type) {
			case *ast.FuncLit:
				if m != n {
					walk(x.Body, true)
					return false
				}
			case *ast.DeferStmt:
				if !inLit {
					why = "defers"
				}
			case *ast.LabeledStmt:
				if !inLit {
					why = "labels"
				}
			case *ast.BranchStmt:
				if (x.Label != nil || x.Tok == token.GOTO) && !inLit {
					why = "labelled branch / goto"
				}
			case *ast.CallExpr:
				if id, ok := x.Fun.(*ast.Ident); ok && id.Name == "recover" {
					why = "recover"
				}
			case *ast.Ident:
				if info.Uses[x] == h.obj {
					why = "recursive"
				}
			}
			return true
		})
	}
	walk(h.body, false)
	return why
}

type callSite struct {
	call   *ast.CallExpr
	callee types.Object
	form   string // expr | assign | return | ifinit | ifcond | defer
}

func calleeOf(call *ast.CallExpr, info *types.Info) types.Object {
	switch f := call.Fun.(type) {
	case *ast.Ident:
		return info.Uses[f]
	case *ast.SelectorExpr:
		if sel := info.Selections[f]; sel != nil && sel.Kind() == types.MethodVal {
			return sel.Obj()
		}
	}
	return nil
}

func asHelperCall(e ast.Expr, info *types.Info, helpers map[types.Object]*helperInfo) (*ast.CallExpr, types.Object) {
	for {
		if p, ok := e.(*ast.ParenExpr); ok {
			e = p.X
			continue
		}
		break
	}
	c, ok := e.(*ast.CallExpr)
	if !ok {
		return nil, nil
	}
	fn := calleeOf(c, info)
	if fn == nil || helpers[fn] == nil {
		return nil, nil
	}
	return c, fn
}

func findSite(s ast.Stmt, info *types.Info, helpers map[types.Object]*helperInfo) *callSite {
	switch x := s.(type) {
	case *ast.ExprStmt:
		if c, fn := asHelperCall(x.X, info, helpers); c != nil {
			return &callSite{call: c, callee: fn, form: "expr"}
		}
	case *ast.DeferStmt:
		if c, fn := asHelperCall(x.Call, info, helpers); c != nil && !helpers[fn].isClosure {
			return &callSite{call: c, callee: fn, form: "defer"}
		}
	case *ast.AssignStmt:
		if len(x.Rhs) == 1 && (x.Tok == token.ASSIGN || x.Tok == token.DEFINE) {
			if c, fn := asHelperCall(x.Rhs[0], info, helpers); c != nil {
				return &callSite{call: c, callee: fn, form: "assign"}
			}
		}
	case *ast.ReturnStmt:
		if len(x.Results) == 1 {
			if c, fn := asHelperCall(x.Results[0], info, helpers); c != nil {
				return &callSite{call: c, callee: fn, form: "return"}
			}
		}
	case *ast.IfStmt:
		if x.Init != nil {
			if as, ok := x.Init.(*ast.AssignStmt); ok && len(as.Rhs) == 1 && (as.Tok == token.DEFINE || as.Tok == token.ASSIGN) {
				if c, fn := asHelperCall(as.Rhs[0], info, helpers); c != nil {
					return &callSite{call: c, callee: fn, form: "ifinit"}
				}
			}
			return nil
		}
		cond := x.Cond
		for {
			if p, ok := cond.(*ast.ParenExpr); ok {
				cond = p.X
				continue
			}
			if u, ok := cond.(*ast.UnaryExpr); ok && u.Op == token.NOT {
				cond = u.X
				continue
			}
			break
		}
		if c, fn := asHelperCall(cond, info, helpers); c != nil {
			return &callSite{call: c, callee: fn, form: "ifcond"}
		}
	}
	return nil
}

func fieldNames(fl *ast.FieldList) []string {
	var out []string
	if fl == nil {
		return nil
	}
	for _, f := range fl.List {
		if len(f.Names) == 0 {
			out = append(out, "_")
		}
		for _, n := range f.Names {
			out = append(out, n.Name)
		}
	}
	return out
}

// buildInline produces the splices that replace statement s.
var normUniq int

func buildInline(fset *token.FileSet, pkg *types.Package, info *types.Info, src []byte, off func(token.Pos) int, s ast.Stmt, site *callSite, h *helperInfo, hsrc []byte, id int) ([]splice, bool) {
	sig := h.sig
	callFile := fset.Position(s.Pos()).Filename
	helperFile := fset.Position(h.body.Pos()).Filename
	scope := pkg.Scope().Innermost(s.Pos())
	if scope == nil {
		return nil, false
	}
	impName := map[string]string{}
	bad := false
	qual := func(p *types.Package) string {
		if p == pkg {
			return ""
		}
		if n, ok := impName[p.Path()]; ok {
			return n
		}
		for sc := scope; sc != nil; sc = sc.Parent() {
			for _, name := range sc.Names() {
				if pn, ok := sc.Lookup(name).(*types.PkgName); ok && pn.Imported() == p {
					if _, here := scope.LookupParent(name, s.Pos()); here == pn {
						impName[p.Path()] = name
						return name
					}
				}
			}
		}
		bad = true
		return p.Name()
	}
	// every identifier of the body that is not local to it must mean the same thing at the
	// call site
	local := func(o types.Object) bool {
		if o.Pos() >= h.body.Pos() && o.Pos() < h.body.End() {
			return true
		}
		// parameters, receiver and named results are rebound by the inlined block
		for _, fl := range []*ast.FieldList{h.recv, h.params, h.results} {
			if fl != nil && o.Pos() >= fl.Pos() && o.Pos() < fl.End() {
				return true
			}
		}
		return false
	}
	okNames := true
	selIdent := map[*ast.Ident]bool{}
	ast.Inspect(h.body, func(n ast.Node) bool {
		if se, ok := n.(*ast.SelectorExpr); ok {
			selIdent[se.Sel] = true // resolved through its qualifier / operand, not by scope
		}
		return true
	})
	ast.Inspect(h.body, func(n ast.Node) bool {
		idn, ok := n.(*ast.Ident)
		if !ok || selIdent[idn] {
			return true
		}
		obj := info.Uses[idn]
		if obj == nil {
			return true
		}
		switch o := obj.(type) {
		case *types.PkgName:
			_, here := scope.LookupParent(idn.Name, s.Pos())
			if hp, ok := here.(*types.PkgName); !ok || hp.Imported() != o.Imported() {
				okNames = false
			}
		default:
			if obj.Parent() == nil || local(obj) {
				return true // fields, methods; the body's own variables
			}
			if _, here := scope.LookupParent(idn.Name, s.Pos()); here != obj {
				okNames = false
			}
		}
		return true
	})
	if !okNames {
		return nil, false
	}
	line := func(file string, pos token.Pos) string {
		return fmt.Sprintf("//line %s:%d\n", file, fset.Position(pos).Line)
	}
	tstr := func(t types.Type) string { return types.TypeString(t, qual) }
	text := func(from, to token.Pos) string { return string(src[off(from):off(to)]) }
	htf := fset.File(h.body.Pos())
	// parameter names (receiver first)
	type bind struct{ name, typ, arg, ftyp string } // typ "" = infer from arg; ftyp always the declared type
	var binds []bind
	if sig.Recv() != nil && !h.isClosure {
		sel, ok := site.call.Fun.(*ast.SelectorExpr)
		if !ok {
			return nil, false
		}
		rexpr := text(sel.X.Pos(), sel.X.End())
		rt := sig.Recv().Type()
		xt := info.TypeOf(sel.X)
		_, recvPtr := rt.Underlying().(*types.Pointer)
		_, xPtr := xt.Underlying().(*types.Pointer)
		switch {
		case recvPtr && !xPtr:
			rexpr = "&(" + rexpr + ")"
		case !recvPtr && xPtr:
			rexpr = "*(" + rexpr + ")"
		}
		name := "_"
		if h.recv != nil && len(h.recv.List) == 1 && len(h.recv.List[0].Names) == 1 {
			name = h.recv.List[0].Names[0].Name
		}
		if s := info.Selections[sel]; s == nil || len(s.Index()) != 1 {
			return nil, false // promoted through an embedded field: the receiver is not sel.X
		}
		binds = append(binds, bind{name, "", rexpr, tstr(rt)}) // the adjusted receiver has exactly the receiver type
	}
	pnames := fieldNames(h.params)
	if len(pnames) != len(site.call.Args) || len(pnames) != sig.Params().Len() {
		return nil, false
	}
	for i, a := range site.call.Args {
		pt := sig.Params().At(i).Type()
		typ := tstr(pt)
		// an argument that already has exactly the parameter's type needs no type spelled out
		// (which also keeps working where the call site shadows the type's name)
		if tv, ok := info.Types[a]; ok && tv.Value == nil && tv.Type != nil && types.Identical(tv.Type, pt) && !tv.IsNil() {
			typ = ""
		}
		binds = append(binds, bind{pnames[i], typ, text(a.Pos(), a.End()), tstr(pt)})
	}
	named := fieldNames(h.results)
	hasNamed := false
	for _, n := range named {
		if n != "_" {
			hasNamed = true
		}
	}
	var rnames []string
	if site.form != "defer" {
		for i := 0; i < sig.Results().Len(); i++ {
			rnames = append(rnames, fmt.Sprintf("zzR%d_%d", i, id))
		}
	}
	if bad {
		return nil, false
	}
	label := fmt.Sprintf("zzL_%d", id)
	// body with returns rewritten
	type edit struct {
		from, to int
		text     string
	}
	var edits []edit
	nret := 0
	ast.Inspect(h.body, func(m ast.Node) bool {
		switch x := m.(type) {
		case *ast.FuncLit:
			return false
		case *ast.ReturnStmt:
			nret++
			asg := ""
			switch {
			case len(rnames) == 0:
				// results (if any) are discarded (defer) — still evaluate the operands
				if len(x.Results) > 0 {
					var es, us []string
					for _, e := range x.Results {
						es = append(es, string(hsrc[htf.Offset(e.Pos()):htf.Offset(e.End())]))
						us = append(us, "_")
					}
					if len(x.Results) == 1 && sig.Results().Len() > 1 {
						us = nil
						for i := 0; i < sig.Results().Len(); i++ {
							us = append(us, "_")
						}
					}
					asg = strings.Join(us, ", ") + " = " + strings.Join(es, ", ") + "; "
				}
			case len(x.Results) == 0:
				asg = strings.Join(rnames, ", ") + " = " + strings.Join(named, ", ") + "; "
			default:
				var es []string
				for _, e := range x.Results {
					es = append(es, string(hsrc[htf.Offset(e.Pos()):htf.Offset(e.End())]))
				}
				asg = strings.Join(rnames, ", ") + " = " + strings.Join(es, ", ") + "; "
			}
			edits = append(edits, edit{htf.Offset(x.Pos()), htf.Offset(x.End()), "{ " + asg + "break " + label + " }"})
		}
		return true
	})
	if len(rnames) > 0 && hasNamed && len(named) != len(rnames) {
		return nil, false
	}
	b0, b1 := htf.Offset(h.body.Lbrace)+1, htf.Offset(h.body.Rbrace)
	body := append([]byte{}, hsrc[b0:b1]...)
	sort.Slice(edits, func(i, j int) bool { return edits[i].from > edits[j].from })
	for _, e := range edits {
		body = append(body[:e.from-b0], append([]byte(e.text), body[e.to-b0:]...)...)
	}
	// the inlined block proper: named results, label, body
	var core strings.Builder
	namedDecl := ""
	if hasNamed {
		// zero-valued, again in one short declaration (types resolved in the outer scope)
		var ns, zs []string
		for i, n := range named {
			if n != "_" {
				ns = append(ns, n)
				zs = append(zs, "*new("+tstr(sig.Results().At(i).Type())+")")
			}
		}
		if len(ns) > 0 {
			namedDecl = fmt.Sprintf("%s := %s; ", strings.Join(ns, ", "), strings.Join(zs, ", "))
			for _, n := range ns {
				namedDecl += fmt.Sprintf("_ = %s; ", n)
			}
		}
	}
	if nret > 0 {
		fmt.Fprintf(&core, "%s: ", label)
	}
	core.WriteString("switch { default:\n")
	fmt.Fprintf(&core, "//line %s:%d\n", helperFile, fset.Position(h.body.Lbrace).Line)
	core.Write(body)
	core.WriteString("\n" + line(callFile, s.Pos()))
	core.WriteString("}")
	if site.form == "defer" {
		var ps, as []string
		for i, b := range binds {
			n := b.name
			if n == "_" {
				n = fmt.Sprintf("zzP%d_%d", i, id)
			}
			ps = append(ps, n+" "+b.ftyp)
			as = append(as, b.arg)
		}
		txt := line(callFile, s.Pos()) + "defer func(" + strings.Join(ps, ", ") + ") { " + namedDecl + core.String() + " }(" + strings.Join(as, ", ") + ")" + resyncEnd(fset, callFile, s.End())
		return []splice{{off(s.Pos()), off(s.End()), txt}}, true
	}
	// temporaries in the caller's scope: results, then arguments in order
	var pre strings.Builder
	for i, rn := range rnames {
		fmt.Fprintf(&pre, "var %s %s; ", rn, tstr(sig.Results().At(i).Type()))
	}
	var blk strings.Builder
	blk.WriteString("{ " + namedDecl)
	// parameters are bound in one short declaration: its right-hand sides (typed
	// temporaries) are resolved before any of the names comes into scope, so a parameter
	// that shadows a type or another parameter's type name (`node *node`) is harmless
	var lhs, rhs []string
	for i, b := range binds {
		tmp := fmt.Sprintf("zzA%d_%d", i, id)
		if b.typ == "" {
			fmt.Fprintf(&pre, "%s := %s; ", tmp, b.arg)
		} else {
			fmt.Fprintf(&pre, "var %s %s = %s; ", tmp, b.typ, b.arg)
		}
		if b.name == "_" {
			fmt.Fprintf(&blk, "_ = %s; ", tmp)
		} else {
			lhs, rhs = append(lhs, b.name), append(rhs, tmp)
		}
	}
	if len(lhs) > 0 {
		fmt.Fprintf(&blk, "%s := %s; ", strings.Join(lhs, ", "), strings.Join(rhs, ", "))
		for _, n := range lhs {
			fmt.Fprintf(&blk, "_ = %s; ", n)
		}
	}
	blk.WriteString(core.String())
	blk.WriteString(" }")
	head := line(callFile, s.Pos()) + pre.String() + blk.String()
	resync := func(pos token.Pos) string { return "\n" + line(callFile, pos) }
	rlist := strings.Join(rnames, ", ")
	switch site.form {
	case "expr":
		if len(rnames) > 0 {
			head += "; _ = " + rnames[0]
			for _, r := range rnames[1:] {
				head += "; _ = " + r
			}
		}
		return []splice{{off(s.Pos()), off(s.End()), head + resyncEnd(fset, callFile, s.End())}}, true
	case "assign":
		as := s.(*ast.AssignStmt)
		if len(rnames) == 0 {
			return nil, false
		}
		lhs := text(as.Lhs[0].Pos(), as.Lhs[len(as.Lhs)-1].End())
		return []splice{{off(s.Pos()), off(s.End()), head + "; " + lhs + " " + as.Tok.String() + " " + rlist + resyncEnd(fset, callFile, s.End())}}, true
	case "return":
		return []splice{{off(s.Pos()), off(s.End()), head + "; return " + rlist + resyncEnd(fset, callFile, s.End())}}, true
	case "ifinit":
		is := s.(*ast.IfStmt)
		as := is.Init.(*ast.AssignStmt)
		if len(rnames) == 0 {
			return nil, false
		}
		return []splice{
			{off(s.End()), off(s.End()), " }"},
			{off(as.Rhs[0].Pos()), off(as.Rhs[0].End()), rlist},
			{off(s.Pos()), off(s.Pos()), "{\n" + head + resync(s.Pos())},
		}, true
	case "ifcond":
		if len(rnames) != 1 {
			return nil, false
		}
		return []splice{
			{off(s.End()), off(s.End()), " }"},
			{off(site.call.Pos()), off(site.call.End()), rnames[0]},
			{off(s.Pos()), off(s.Pos()), "{\n" + head + resync(s.Pos())},
		}, true
	}
	return nil, false
}

func resyncEnd(fset *token.FileSet, file string, end token.Pos) string {
	// the statement's last line keeps its number; what follows on later lines is unchanged
	return fmt.Sprintf("\n//line %s:%d\n", file, fset.Position(end).Line)
}

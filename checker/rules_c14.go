package main

// C14 — the version-4 file layout (DESIGN §4 C14): tables extracted from the encoders
// and decoders by the layout evaluator are compared with an independent v4 table kept
// here, and encoder ≡ decoder pairwise.

import (
	"fmt"
	"go/constant"
	"go/token"
	"go/types"
	"reflect"
	"strings"

	"golang.org/x/tools/go/ssa"
)

// the independent v4 table (from the format description in the property / README)
var (
	v4ItemHeader = []string{"BE u32 @0 length", "BE u32 @4 keyLength", "BE u32 @8 valLength", "BE u32 @12 priority"}
	v4Loc        = []string{"BE u64 @pos Offset", "BE u32 @pos+8 Length"}
	v4Node       = []string{"BE u64 @0 item.Offset", "BE u32 @8 item.Length", "BE u64 @12 left.Offset", "BE u32 @20 left.Length", "BE u64 @24 right.Offset", "BE u32 @32 right.Length", "BE u64 @36 numNodes", "BE u64 @44 numBytes"}
	v4RootWrite  = []string{"raw 6 @0 MagicBeg", "raw 6 @6 MagicBeg", "BE 4 @12 Version", "BE 4 @16 length", "raw J @20 JSON", "BE 8 @J+20 offset", "BE 4 @J+28 length", "raw 6 @J+32 MagicEnd", "raw 6 @J+38 MagicEnd"}
	v4Version    = int64(4)
	v4MagicBeg   = "0g1t2r"
	v4MagicEnd   = "3e4a5p"
)

func lastField(s string) string {
	// "itemBa.keyLength" -> "keyLength"; "node.item.loc / ploc.Offset" handled by callers
	if i := strings.LastIndex(s, "."); i >= 0 {
		return s[i+1:]
	}
	return s
}

func fnByName(w *World, names ...string) *ssa.Function {
	for _, n := range names {
		if f := w.Fn(n); f != nil {
			return f
		}
	}
	return nil
}

func bestOutcome(outs []outcome) *outcome {
	var best *outcome
	for i := range outs {
		if best == nil || len(outs[i].events) > len(best.events) {
			best = &outs[i]
		}
	}
	return best
}

func compareTable(r *Report, w *World, rule, key, pos string, got, want []string, notes []string) {
	if len(notes) > 0 {
		r.Unknown(rule, key, pos, "the layout evaluator could not interpret this codec: "+strings.Join(notes, "; "))
		return
	}
	if reflect.DeepEqual(got, want) {
		r.OK(rule, key, pos, "extracted table = v4 table: "+strings.Join(got, " | "))
		return
	}
	r.Bad(rule, key, pos, fmt.Sprintf("extracted layout differs from the version-4 layout.  extracted: [%s]  v4: [%s]", strings.Join(got, " | "), strings.Join(want, " | ")))
}

func ruleLayoutItemHeader(w *World, r *Report) {
	const rule = "Y1"
	enc := fnByName(w, "(itemBa).render")
	dec := fnByName(w, "(*itemBa).populate")
	if enc == nil || dec == nil {
		r.Unknown(rule, "item header codec", "-", "render/populate of the item header not found")
		return
	}
	for _, side := range []struct {
		fn   *ssa.Function
		op   string
		args []interface{}
	}{{enc, "put", []interface{}{nil, symV("hlength")}}, {dec, "get", []interface{}{nil, &bufRef{root: "b", off: symK(0)}}}} {
		le := newLayEval(w)
		outs := le.evalFn(side.fn, side.args)
		var got []string
		if o := bestOutcome(outs); o != nil {
			for _, e := range o.events {
				if e.Op != side.op {
					continue
				}
				got = append(got, fmt.Sprintf("%s %s @%s %s", e.Order, e.Width, e.Off, lastField(e.Field)))
			}
		} else {
			le.note("no success path")
		}
		compareTable(r, w, rule, w.Name(side.fn)+" › item header layout", w.Pos(side.fn.Pos()), got, v4ItemHeader, le.notes)
	}
	// header length constants
	for _, cn := range []string{"itemLocHdrLength", "priSz"} {
		if c, ok := w.LibT.Scope().Lookup(cn).(*types.Const); ok {
			v, _ := constant.Int64Val(c.Val())
			r.Check(v == 16, rule, "const "+cn+" == 16", w.Pos(c.Pos()), "16-byte item header", fmt.Sprintf("%s = %d: the item header is 16 bytes in v4", cn, v))
		} else {
			r.Unknown(rule, "const "+cn, "-", "constant not found")
		}
	}
}

func ruleLayoutLoc(w *World, r *Report) {
	const rule = "Y2"
	enc, dec := fnByName(w, "(*ploc).write"), fnByName(w, "(*ploc).read")
	if enc == nil || dec == nil {
		r.Unknown(rule, "location codec", "-", "ploc.write/read not found")
		return
	}
	for _, side := range []struct {
		fn *ssa.Function
		op string
	}{{enc, "put"}, {dec, "get"}} {
		le := newLayEval(w)
		outs := le.evalFn(side.fn, []interface{}{nil, &bufRef{root: "b", off: symK(0)}, symV("pos")})
		var got []string
		okRet := len(outs) > 0
		for i, o := range outs {
			if i > 0 && !sameLayout(o.events, outs[0].events) {
				le.note("layout depends on a branch (nil / empty location must encode like any other)")
			}
			// returned position
			found := false
			for _, rv := range o.rets {
				if s, ok := rv.(*symInt); ok && s != nil {
					found = true
					if !s.equal(symV("pos").add(symK(12), 1)) {
						okRet = false
					}
				}
			}
			if !found {
				okRet = false
			}
		}
		if o := bestOutcome(outs); o != nil {
			for _, e := range o.events {
				if e.Op == side.op {
					got = append(got, fmt.Sprintf("%s %s @%s %s", e.Order, e.Width, e.Off, lastField(e.Field)))
				}
			}
		} else {
			le.note("no success path")
		}
		compareTable(r, w, rule, w.Name(side.fn)+" › location layout", w.Pos(side.fn.Pos()), got, v4Loc, le.notes)
		r.Check(okRet, rule, w.Name(side.fn)+" › advances by 12", w.Pos(side.fn.Pos()), "returns pos+12 on every path", "the location codec does not advance the position by 12 on every path")
	}
	if c, ok := w.LibT.Scope().Lookup("plocLength").(*types.Const); ok {
		v, _ := constant.Int64Val(c.Val())
		r.Check(v == 12, rule, "const plocLength == 12", w.Pos(c.Pos()), "12-byte location", fmt.Sprintf("plocLength = %d", v))
	}
	// JSON form of a location: {"o": int64, "l": uint32}
	if tn, ok := w.LibT.Scope().Lookup("ploc").(*types.TypeName); ok {
		st := tn.Type().Underlying().(*types.Struct)
		var got []string
		for i := 0; i < st.NumFields(); i++ {
			tag := reflect.StructTag(st.Tag(i)).Get("json")
			got = append(got, fmt.Sprintf("%s %s json:%q", st.Field(i).Name(), st.Field(i).Type(), tag))
		}
		want := []string{`Offset int64 json:"o"`, `Length uint32 json:"l"`}
		r.Check(reflect.DeepEqual(got, want), rule, "ploc › JSON form {o:int64, l:uint32}", w.Pos(tn.Pos()), strings.Join(got, "; "), fmt.Sprintf("the JSON form of a root location changed: %v, v4 is %v", got, want))
	}
}

// nodeFieldOf maps the handle a location codec call works on to item/left/right.
func handleName(v ssa.Value) string {
	// receiver of Loc()/address of .loc: FieldAddr(node, item|left|right)
	for i := 0; i < 6 && v != nil; i++ {
		switch x := v.(type) {
		case *ssa.Call:
			if len(x.Common().Args) > 0 {
				v = x.Common().Args[0]
				continue
			}
			return "?"
		case *ssa.FieldAddr:
			_, st, name, ok := fieldOf(x)
			if ok && st != nil && st.Obj().Name() == "node" {
				return name
			}
			v = x.X
			continue
		case *ssa.UnOp:
			v = x.X
			continue
		}
		break
	}
	return "?"
}

func ruleLayoutNode(w *World, r *Report) {
	const rule = "Y3"
	enc, dec := fnByName(w, "(node).populateDiskStruct", "(*node).populateDiskStruct"), fnByName(w, "populateNode")
	encArgs := []interface{}{nil, symV("length")}
	// a codec helper that was folded into its only caller: evaluate the caller (the node
	// writer found by role / the node reader), which then contains the same puts and gets
	if enc == nil {
		if wr := w.writeRoles(); wr.nodeWriter != nil {
			enc, encArgs = wr.nodeWriter, []interface{}{nil, nil}
		}
	}
	if dec == nil {
		dec = w.Fn("(*nodeLoc).read")
	}
	if enc == nil || dec == nil {
		r.Unknown(rule, "node codec", "-", "neither populateDiskStruct/populateNode nor a node writer / reader to evaluate in their place")
		return
	}
	// the encoder: walk its instructions in the evaluator, but label inlined location
	// events with the handle they were called on
	for _, side := range []struct {
		fn   *ssa.Function
		op   string
		args []interface{}
	}{{enc, "put", encArgs}, {dec, "get", []interface{}{&bufRef{root: "b", off: symK(0), ln: symV("len(b)")}}}} {
		le := newLayEval(w)
		le.labelHandles = true
		outs := le.evalFn(side.fn, side.args)
		var got []string
		if o := bestOutcome(outs); o != nil {
			for _, e := range o.events {
				if e.Op == side.op {
					f := lastField(e.Field)
					if e.Ctx != "" {
						f = e.Ctx + "." + f
					}
					got = append(got, fmt.Sprintf("%s %s @%s %s", e.Order, e.Width, e.Off, f))
				}
			}
		} else {
			le.note("no success path")
		}
		compareTable(r, w, rule, w.Name(side.fn)+" › node record layout", w.Pos(side.fn.Pos()), got, v4Node, le.notes)
	}
	// record length 52 on both sides
	if wr := w.writeRoles(); wr.nodeWriter != nil {
		ok := false
		eachInstr(wr.nodeWriter, func(in ssa.Instruction) {
			if ms, isMs := in.(*ssa.MakeSlice); isMs && enc == wr.nodeWriter {
				if k, isK := constInt(ms.Len); isK && k == 52 {
					ok = true
				}
			}
			// make([]byte, 52) with a constant length is an array allocation sliced
			if al, isAl := in.(*ssa.Alloc); isAl && enc == wr.nodeWriter {
				if arr, isArr := deref(al.Type()).Underlying().(*types.Array); isArr && arr.Len() == 52 {
					ok = true
				}
			}
			if c, isC := in.(*ssa.Call); isC && c.Common().StaticCallee() == enc {
				le := newLayEval(w)
				fr := &frame{fn: wr.nodeWriter, env: map[ssa.Value]interface{}{}, bufs: map[ssa.Value]*symInt{}}
				if s := le.evInt(fr, c.Common().Args[len(c.Common().Args)-1]); s.isConst() && s.k == 52 {
					ok = true
				}
			}
		})
		r.Check(ok, rule, w.Name(wr.nodeWriter)+" › node record length 52", w.Pos(wr.nodeWriter.Pos()), "the encoder is asked for 52 bytes", "the node writer does not ask for a 52-byte record")
	}
	if rd := w.Fn("(*nodeLoc).read"); rd != nil {
		ok := false
		eachInstr(rd, func(in ssa.Instruction) {
			if b, isB := in.(*ssa.BinOp); isB && (b.Op == token.NEQ || b.Op == token.EQL) {
				if _, isLen := isLoadOfField(b.X, "ploc", "Length"); isLen {
					if k, isK := constInt(b.Y); isK && k == 52 {
						ok = true
					}
				}
			}
		})
		r.Check(ok, rule, "(*nodeLoc).read › checks record length 52", w.Pos(rd.Pos()), "loc.Length compared with 52", "the node reader does not insist on a 52-byte record")
	}
}

func ruleLayoutRoot(w *World, r *Report) {
	const rule = "Y4"
	ro := w.writeRoles()
	if ro.rootWriter == nil {
		r.Unknown(rule, "root-record writer", "-", "role not resolved")
		return
	}
	le := newLayEval(w)
	outs := le.evalFn(ro.rootWriter, []interface{}{nil, nil})
	var got []string
	if o := bestOutcome(outs); o != nil {
		for _, e := range o.events {
			if e.Op != "bufput" {
				continue
			}
			ord := e.Order
			if ord == "-" {
				ord = "raw"
			}
			const jl = "len(encoding/json.Marshal()#0)"
			wd := strings.ReplaceAll(e.Width, jl, "J")
			off := strings.ReplaceAll(e.Off, jl, "J")
			got = append(got, fmt.Sprintf("%s %s @%s %s", ord, wd, off, rootFieldName(strings.ReplaceAll(e.Field, jl, "J"))))
		}
	} else {
		le.note("no success path")
	}
	compareTable(r, w, rule, w.Name(ro.rootWriter)+" › root record layout", w.Pos(ro.rootWriter.Pos()), got, v4RootWrite, le.notes)

	// reader side
	type rd struct {
		fn   string
		args []interface{}
		want []string
	}
	trailer := &bufRef{root: "trailer", off: symK(0), ln: symK(24)}
	for _, x := range []rd{
		{"(*Store).scanBackwardsForMagicEnd", []interface{}{nil, trailer, nil}, []string{"cmp 6 @12 MagicEnd [trailer]", "cmp 6 @18 MagicEnd [trailer]"}},
		{"(*Store).readRootsEnd", []interface{}{nil, trailer}, []string{"bufget BE 8 @0 int64 [trailer]", "bufget BE 4 @8 uint32 [trailer]"}},
		{"(*Store).checkAndReadRoots", []interface{}{nil, symV("offset"), nil, trailer}, []string{"cmp 6 @0 MagicBeg [record]", "cmp 6 @6 MagicBeg [record]", "bufget BE 4 @12 uint32 [record]", "bufget BE 4 @16 uint32 [record]", "json @20 [record]"}},
	} {
		fn := w.Fn(x.fn)
		args := x.args
		folded := false
		if fn == nil {
			// the stage was folded into its caller: evaluate the scan driver / the open path and
			// look for the stage's events there (the 24-byte buffer is the trailer)
			for _, alt := range []string{"(*Store).readRootsScan", "(*Store).readRoots", "NewStoreEx"} {
				if f := w.Fn(alt); f != nil {
					fn, folded = f, true
					args = make([]interface{}, len(f.Params))
					break
				}
			}
		}
		if fn == nil {
			r.Unknown(rule, x.fn+" › reader layout", "-", "function not found, and no scan driver to evaluate in its place")
			continue
		}
		le := newLayEval(w)
		outs := le.evalFn(fn, args)
		var got []string
		if o := bestOutcome(outs); o != nil {
			for _, e := range o.events {
				buf := e.Buf
				if strings.HasPrefix(buf, "make(") {
					if folded && buf == "make(24)" {
						buf = "trailer"
					} else {
						buf = "record"
					}
				}
				switch e.Op {
				case "cmp":
					got = append(got, fmt.Sprintf("cmp %s @%s %s [%s]", e.Width, e.Off, e.Field, buf))
				case "bufget":
					f := e.Field
					if i := strings.Index(f, " "); i > 0 {
						f = f[:i]
					}
					got = append(got, fmt.Sprintf("bufget %s %s @%s %s [%s]", e.Order, e.Width, e.Off, f, buf))
				case "json":
					got = append(got, fmt.Sprintf("json @%s [%s]", e.Off, buf))
				}
			}
		} else {
			le.note("no success path")
		}
		if folded {
			// the caller's table contains the other stages too: this stage's events must occur in order
			i := 0
			for _, g := range got {
				if i < len(x.want) && g == x.want[i] {
					i++
				}
			}
			if i == len(x.want) {
				got = x.want
			}
			le.notes = nil // notes about branches of the other stages do not concern this one
		}
		compareTable(r, w, rule, x.fn+" › root record reader layout", w.Pos(fn.Pos()), got, x.want, le.notes)
	}
	// trailer length constants
	le2 := newLayEval(w)
	if s := le2.globalInt("rootsEndLen"); s == nil || !s.isConst() || s.k != 24 {
		r.Bad(rule, "rootsEndLen == 24", "-", fmt.Sprintf("trailer length evaluates to %v, v4 trailer is 8+4+2*6 = 24", s))
	} else {
		r.OK(rule, "rootsEndLen == 24", "-", "trailer = i64 offset | u32 length | MagicEnd x2")
	}
	if s := le2.globalInt("rootsLen"); s == nil || !s.isConst() || s.k != 44 {
		r.Bad(rule, "rootsLen == 44", "-", fmt.Sprintf("minimal record length evaluates to %v, v4 minimum is 44", s))
	} else {
		r.OK(rule, "rootsLen == 44", "-", "minimal root record = 2*6+4+4+24")
	}
}

func rootFieldName(f string) string {
	switch {
	case strings.Contains(f, "MagicBeg"):
		return "MagicBeg"
	case strings.Contains(f, "MagicEnd"):
		return "MagicEnd"
	case strings.Contains(f, "sJSON") || strings.Contains(f, "json"):
		return "JSON"
	case f == "uint32 4":
		return "Version"
	case f == "uint32 J+44":
		return "length"
	case strings.HasPrefix(f, "int64 "), strings.HasPrefix(f, "uint64 "):
		return "offset"
	}
	return f
}

func ruleLayoutConsts(w *World, r *Report) {
	const rule = "Y5"
	if c, ok := w.LibT.Scope().Lookup("Version").(*types.Const); ok {
		v, _ := constant.Int64Val(constant.ToInt(c.Val()))
		r.Check(v == v4Version && c.Type().String() == "uint32", rule, "const Version == uint32(4)", w.Pos(c.Pos()), "format version 4", fmt.Sprintf("Version = %s(%d)", c.Type(), v))
	} else {
		r.Unknown(rule, "const Version", "-", "not found")
	}
	for name, want := range map[string]string{"MagicBeg": v4MagicBeg, "MagicEnd": v4MagicEnd} {
		got, ok := w.globalBytes(name)
		switch {
		case !ok:
			r.Bad(rule, name+" is the v4 marker, assigned once", "-", name+" is not a []byte initialised once from a string constant (it is assigned elsewhere, or computed)")
		case got != want:
			r.Bad(rule, name+" is the v4 marker, assigned once", "-", fmt.Sprintf("%s = %q, the v4 marker is %q", name, got, want))
		default:
			r.OK(rule, name+" is the v4 marker, assigned once", "-", fmt.Sprintf("%q, only assigned by its initialiser", got))
		}
	}
	// every encoding/binary use in the library is big-endian
	n := 0
	for _, fn := range w.Funcs {
		if !w.InLib(fn) {
			continue
		}
		eachInstr(fn, func(in ssa.Instruction) {
			for _, op := range in.Operands(nil) {
				if g, ok := (*op).(*ssa.Global); ok && g.Pkg != nil && g.Pkg.Pkg.Path() == "encoding/binary" {
					n++
					r.Check(g.Name() == "BigEndian", rule, fmt.Sprintf("%s › byte order#%d", w.Name(fn), n), w.InstrPos(in), "BigEndian", "uses encoding/binary."+g.Name()+": v4 is big-endian throughout")
				}
			}
		})
	}
	// compile-time switches that change the layout
	if c, ok := w.LibT.Scope().Lookup("keyPSize").(*types.Const); ok {
		v, _ := constant.Int64Val(c.Val())
		r.Check(v == 4, rule, "const keyPSize == 4", w.Pos(c.Pos()), "32-bit key length field", fmt.Sprintf("keyPSize = %d: the key-length field of the item header would be %d bytes", v, v))
	}
	r.Floor(rule, 10)
}

// Y6: the item record as a whole: header | key | value, lengths consistent on both sides.
func ruleLayoutItemRecord(w *World, r *Report) {
	const rule = "Y6"
	ro := w.writeRoles()
	wr, rd := ro.itemWriter, w.Fn("(*itemLoc).read")
	if wr == nil || rd == nil {
		r.Unknown(rule, "item record codec", "-", "item writer/reader not found")
		return
	}
	le := newLayEval(w)
	fr := &frame{fn: wr, env: map[ssa.Value]interface{}{}, bufs: map[ssa.Value]*symInt{}}
	// writer: ds literal
	want := map[string]string{"length": "NumValBytes+len(Item.Key)+16", "keyLength": "len(Item.Key)", "valLength": "NumValBytes", "priority": "Item.Priority"}
	got := map[string]string{}
	eachInstr(wr, func(in ssa.Instruction) {
		st, ok := in.(*ssa.Store)
		if !ok {
			return
		}
		fa, ok := st.Addr.(*ssa.FieldAddr)
		if !ok {
			return
		}
		_, stn, name, ok := fieldOf(fa)
		if !ok || stn == nil || stn.Obj().Name() != "itemBa" {
			return
		}
		if s := le.evInt(fr, st.Val); s != nil {
			got[name] = normSym(s.String())
		}
	})
	var diffs []string
	for k, v := range want {
		if got[k] != v {
			diffs = append(diffs, fmt.Sprintf("%s = %s (v4: %s)", k, got[k], v))
		}
	}
	r.Check(len(diffs) == 0, rule, w.Name(wr)+" › header fields", w.Pos(wr.Pos()), fmt.Sprintf("length = 16+len(key)+len(value), keyLength = len(key), valLength = len(value), priority = priority: %v", got), "item header fields differ from v4: "+strings.Join(diffs, "; "))
	// writer: header+key at offset, value at offset + 16 + len(key)
	var hdrOff, valOff, hdrLen *symInt
	eachInstr(wr, func(in ssa.Instruction) {
		c, ok := in.(*ssa.Call)
		if !ok {
			return
		}
		if c.Common().IsInvoke() && c.Common().Method.Name() == "WriteAt" {
			hdrOff = le.evInt(fr, c.Common().Args[1])
			if br := le.evBuf(fr, c.Common().Args[0]); br != nil {
				hdrLen = br.ln
			}
		}
		if c.Common().StaticCallee() == ro.valWriter {
			valOff = le.evInt(fr, c.Common().Args[len(c.Common().Args)-1])
		}
	})
	okW := hdrOff != nil && valOff != nil && hdrLen != nil &&
		normSym(valOff.add(hdrOff, -1).String()) == "len(Item.Key)+16" && normSym(hdrLen.String()) == "len(Item.Key)+16"
	r.Check(okW, rule, w.Name(wr)+" › header|key at offset, value at offset+16+len(key)", w.Pos(wr.Pos()), "self-delimiting record: 16-byte header, key, value", fmt.Sprintf("item record placement differs from v4: header buffer %v bytes at %v, value at %v", hdrLen, hdrOff, valOff))
	// reader: header 16 at loc.Offset; key at +16; value at +16+keyLength, valLength bytes; total checked
	fr2 := &frame{fn: rd, env: map[ssa.Value]interface{}{}, bufs: map[ssa.Value]*symInt{}}
	var reads []string
	eachInstr(rd, func(in ssa.Instruction) {
		c, ok := in.(*ssa.Call)
		if !ok {
			return
		}
		if c.Common().IsInvoke() && c.Common().Method.Name() == "ReadAt" {
			off := le.evInt(fr2, c.Common().Args[1])
			ln := "?"
			if br := le.evBuf(fr2, c.Common().Args[0]); br != nil && br.ln != nil {
				ln = br.ln.String()
			} else {
				ln = "len(" + describe(c.Common().Args[0]) + ")"
			}
			reads = append(reads, fmt.Sprintf("read %s @%s", normSym(ln), normSym(off.String())))
		}
		if f := c.Common().StaticCallee(); f != nil && w.Name(f) == "(*Store).ItemValRead" {
			a := c.Common().Args
			reads = append(reads, fmt.Sprintf("value %s @%s", normSym(le.evInt(fr2, a[len(a)-1]).String()), normSym(le.evInt(fr2, a[len(a)-2]).String())))
		}
	})
	wantReads := []string{"read 16 @ploc.Offset", "read len(Item.Key) @ploc.Offset+16", "value itemBa.valLength @itemBa.keyLength+ploc.Offset+16"}
	r.Check(reflect.DeepEqual(reads, wantReads), rule, w.Name(rd)+" › header, key, value positions", w.Pos(rd.Pos()), strings.Join(reads, " | "), fmt.Sprintf("item reader positions differ from v4: got %v want %v", reads, wantReads))
	// total-length check on read
	okLen := false
	eachInstr(rd, func(in ssa.Instruction) {
		b, ok := in.(*ssa.BinOp)
		if !ok || (b.Op != token.NEQ && b.Op != token.EQL) {
			return
		}
		l, rr := le.evInt(fr2, b.X), le.evInt(fr2, b.Y)
		if l == nil || rr == nil {
			return
		}
		if normSym(l.String()) == "itemBa.length" && normSym(rr.String()) == "itemBa.keyLength+itemBa.valLength+16" {
			okLen = true
		}
	})
	r.Check(okLen, rule, w.Name(rd)+" › length = 16 + keyLength + valLength checked", w.Pos(rd.Pos()), "self-delimiting check present", "the reader does not check total length = 16 + keyLength + valLength")
}

func normSym(s string) string {
	s = strings.ReplaceAll(s, "(*Item).NumValBytes()", "NumValBytes")
	return s
}

func init() {
	register(&Property{
		ID:    "C14",
		Level: "other",
		Rules: []Rule{{"Y1", ruleLayoutItemHeader}, {"Y2", ruleLayoutLoc}, {"Y3", ruleLayoutNode}, {"Y4", ruleLayoutRoot}, {"Y5", ruleLayoutConsts}, {"Y6", ruleLayoutItemRecord}, {"O4", ruleO4}, {"O5", ruleO5}, {"O6", ruleO6}, {"O2b", ruleO2b}},
		Explanation: "An abstract evaluator over {integer constants, symbolic lengths} replays the straight-line encoders and decoders of /repo's current source (inlining the location helpers, folding constant branches, forking on the others and requiring identical layouts) and extracts an ordered table of (byte order, width, offset, field) events; the tables of both directions are compared with an independent version-4 table written in the checker: item header u32 total|u32 keyLen|u32 valLen|i32 priority (16 bytes) followed by key and value with total = 16+keyLen+valLen written and checked; location i64 offset|u32 length (12 bytes, nil encoded as zeros, JSON form {o,l}); node record item,left,right locations + u64 numNodes|u64 numBytes (52 bytes, length checked on read); root record MagicBeg x2|u32 Version|u32 length|JSON|i64 offset|u32 length|MagicEnd x2 with the reader's trailer (24 bytes) and body offsets; Version == 4, the two magic strings assigned only by their initialisers, every encoding/binary use big-endian, keyPSize == 4; plus children-before-parent (O4). Decides conformance of the byte layout for all inputs; NOT that an independent decoder recovers the flushed state (that also needs C02's protocol and C13's invariants).",
		ControlSrc: controlC14,
		Expect:     []Expect{{"Y5", "zzCtlLE"}},
	})
}

const controlC14 = `package gkvlite

import "encoding/binary"

// positive control for C14 (never part of /repo)
func zzCtlLE(b []byte, v uint32) { binary.LittleEndian.PutUint32(b, v) }
`

package main

// Effect recognisers (DESIGN §3.B) and small value utilities (§3.D).

import (
	"go/constant"
	"go/token"
	"go/types"
	"strings"

	"golang.org/x/tools/go/ssa"
)

// ---- generic instruction iteration

func eachInstr(fn *ssa.Function, f func(ssa.Instruction)) {
	for _, b := range fn.Blocks {
		for _, in := range b.Instrs {
			f(in)
		}
	}
}

func staticCalleeName(c ssa.CallInstruction) string {
	if c == nil {
		return ""
	}
	if f := c.Common().StaticCallee(); f != nil {
		return shortName(f.String())
	}
	return ""
}

// callsOf returns the call instructions in fn whose static callee's short name is name.
func callsOf(fn *ssa.Function, name string) []ssa.CallInstruction {
	var out []ssa.CallInstruction
	eachInstr(fn, func(in ssa.Instruction) {
		if c, ok := in.(ssa.CallInstruction); ok && staticCalleeName(c) == name {
			out = append(out, c)
		}
	})
	return out
}

// unwrap strips no-op conversions.
func unwrap(v ssa.Value) ssa.Value {
	for {
		switch x := v.(type) {
		case *ssa.ChangeType:
			v = x.X
		case *ssa.Convert:
			// only identity-width integer conversions are transparent
			if sameBasicKind(x.X.Type(), x.Type()) {
				v = x.X
			} else {
				return v
			}
		default:
			return v
		}
	}
}

func sameBasicKind(a, b types.Type) bool {
	ba, ok1 := a.Underlying().(*types.Basic)
	bb, ok2 := b.Underlying().(*types.Basic)
	return ok1 && ok2 && ba.Kind() == bb.Kind()
}

func constInt(v ssa.Value) (int64, bool) {
	c, ok := v.(*ssa.Const)
	if !ok || c.Value == nil || c.Value.Kind() != constant.Int {
		return 0, false
	}
	i, ok := constant.Int64Val(c.Value)
	return i, ok
}

func isNilConst(v ssa.Value) bool {
	c, ok := v.(*ssa.Const)
	return ok && c.Value == nil
}

// ---- Store.size (the scan cursor / logical end of file)

// isSizeAddr: v == &X.size with X a *Store.
func isSizeAddr(v ssa.Value) bool {
	_, ok := isFieldAddr(v, "Store", "size")
	return ok
}

type SizeOp struct {
	Instr ssa.Instruction
	Kind  string    // load | store | add | cas | plain-load | plain-store
	Val   ssa.Value // stored value / delta (nil for loads)
}

// sizeOpsIn: direct operations on Store.size inside fn (no wrappers).
func sizeOpsIn(fn *ssa.Function) []SizeOp {
	var out []SizeOp
	eachInstr(fn, func(in ssa.Instruction) {
		switch x := in.(type) {
		case ssa.CallInstruction:
			cn := ""
			if f := x.Common().StaticCallee(); f != nil {
				cn = f.String()
			}
			if strings.HasPrefix(cn, "sync/atomic.") && len(x.Common().Args) > 0 && isSizeAddr(x.Common().Args[0]) {
				a := x.Common().Args
				switch {
				case strings.HasPrefix(cn, "sync/atomic.Load"):
					out = append(out, SizeOp{in, "load", nil})
				case strings.HasPrefix(cn, "sync/atomic.Store"):
					out = append(out, SizeOp{in, "store", a[1]})
				case strings.HasPrefix(cn, "sync/atomic.Add"):
					out = append(out, SizeOp{in, "add", a[1]})
				case strings.HasPrefix(cn, "sync/atomic.Swap"):
					out = append(out, SizeOp{in, "store", a[1]})
				default:
					out = append(out, SizeOp{in, "cas", a[len(a)-1]})
				}
			}
		case *ssa.Store:
			if isSizeAddr(x.Addr) {
				out = append(out, SizeOp{in, "plain-store", x.Val})
			}
		case *ssa.UnOp:
			if x.Op == token.MUL && isSizeAddr(x.X) {
				out = append(out, SizeOp{in, "plain-load", nil})
			}
		}
	})
	return out
}

// sizeGetter: fn's every return value is an atomic load of the receiver's size.
func (w *World) sizeGetters() map[*ssa.Function]bool {
	if v, ok := w.cache["sizeGetters"]; ok {
		return v.(map[*ssa.Function]bool)
	}
	m := map[*ssa.Function]bool{}
	for _, fn := range w.Funcs {
		if !w.InLib(fn) || fn.Signature.Results().Len() != 1 {
			continue
		}
		ok, n := true, 0
		eachInstr(fn, func(in ssa.Instruction) {
			if r, isRet := in.(*ssa.Return); isRet {
				n++
				if !isDirectSizeLoad(r.Results[0]) {
					ok = false
				}
			}
		})
		if ok && n > 0 {
			m[fn] = true
		}
	}
	w.cache["sizeGetters"] = m
	return m
}

// sizeSetters: fn stores one of its parameters to size (atomic store) and does nothing
// else to size.  Maps fn -> index of the parameter (in call-argument numbering).
func (w *World) sizeSetters() map[*ssa.Function]int {
	if v, ok := w.cache["sizeSetters"]; ok {
		return v.(map[*ssa.Function]int)
	}
	m := map[*ssa.Function]int{}
	for _, fn := range w.Funcs {
		if !w.InLib(fn) {
			continue
		}
		ops := sizeOpsIn(fn)
		if len(ops) != 1 || ops[0].Kind != "store" {
			continue
		}
		if p, ok := ops[0].Val.(*ssa.Parameter); ok {
			for i, q := range fn.Params {
				if q == p {
					m[fn] = i
				}
			}
		}
	}
	w.cache["sizeSetters"] = m
	return m
}

func isDirectSizeLoad(v ssa.Value) bool {
	c, ok := v.(*ssa.Call)
	if !ok {
		return false
	}
	f := c.Common().StaticCallee()
	return f != nil && strings.HasPrefix(f.String(), "sync/atomic.Load") && len(c.Common().Args) == 1 && isSizeAddr(c.Common().Args[0])
}

// isSizeLoad: v is an atomic load of Store.size, directly or through a getter wrapper.
func (w *World) isSizeLoad(v ssa.Value) bool {
	v = unwrap(v)
	if isDirectSizeLoad(v) {
		return true
	}
	if c, ok := v.(*ssa.Call); ok {
		if f := c.Common().StaticCallee(); f != nil && w.sizeGetters()[f] {
			return true
		}
	}
	return false
}

// SizeWrite describes any write to Store.size visible in fn, including through setter wrappers.
type SizeWrite struct {
	Instr ssa.Instruction
	Kind  string // store | add | plain-store | cas
	Val   ssa.Value
}

func (w *World) sizeWritesIn(fn *ssa.Function) []SizeWrite {
	var out []SizeWrite
	for _, op := range sizeOpsIn(fn) {
		switch op.Kind {
		case "store", "add", "plain-store", "cas":
			out = append(out, SizeWrite{op.Instr, op.Kind, op.Val})
		}
	}
	setters := w.sizeSetters()
	eachInstr(fn, func(in ssa.Instruction) {
		if c, ok := in.(ssa.CallInstruction); ok {
			if f := c.Common().StaticCallee(); f != nil {
				if idx, ok := setters[f]; ok && f != fn {
					out = append(out, SizeWrite{in, "store", c.Common().Args[idx]})
				}
			}
		}
	})
	return out
}

// ---- non-negativity lattice (DESIGN §10)

func (w *World) nonNeg(v ssa.Value, depth int) bool {
	if depth > 12 {
		return false
	}
	v = unwrap(v)
	switch x := v.(type) {
	case *ssa.Const:
		if i, ok := constInt(x); ok {
			return i >= 0
		}
		return false
	case *ssa.Call:
		if b, ok := x.Common().Value.(*ssa.Builtin); ok {
			switch b.Name() {
			case "len", "cap", "copy":
				return true
			}
			return false
		}
		// a length callback of StoreCallbacks is assumed to return a length (neutral callbacks)
		if fld := callbackField(x.Common().Value); fld == "ItemValLength" {
			return true
		}
		// in-library function all of whose returns are non-negative
		if f := x.Common().StaticCallee(); f != nil && w.InLib(f) && f.Signature.Results().Len() == 1 {
			ok, n := true, 0
			eachInstr(f, func(in ssa.Instruction) {
				if r, isRet := in.(*ssa.Return); isRet {
					n++
					if !w.nonNeg(r.Results[0], depth+1) {
						ok = false
					}
				}
			})
			return ok && n > 0
		}
		return false
	case *ssa.Convert:
		// widening or same-size conversion of a non-negative int from an unsigned or
		// proven non-negative source
		src, ok1 := x.X.Type().Underlying().(*types.Basic)
		dst, ok2 := x.Type().Underlying().(*types.Basic)
		if !ok1 || !ok2 {
			return false
		}
		if src.Info()&types.IsUnsigned != 0 && basicBits(dst) > basicBits(src) {
			return true
		}
		if basicBits(dst) >= basicBits(src) {
			return w.nonNeg(x.X, depth+1)
		}
		return false
	case *ssa.BinOp:
		switch x.Op {
		case token.ADD, token.MUL:
			return w.nonNeg(x.X, depth+1) && w.nonNeg(x.Y, depth+1)
		}
		return false
	case *ssa.Phi:
		for _, e := range x.Edges {
			if e == x {
				continue
			}
			if !w.nonNeg(e, depth+1) {
				return false
			}
		}
		return true
	}
	return false
}

func basicBits(b *types.Basic) int {
	switch b.Kind() {
	case types.Int8, types.Uint8:
		return 8
	case types.Int16, types.Uint16:
		return 16
	case types.Int32, types.Uint32:
		return 32
	case types.Int64, types.Uint64:
		return 64
	case types.Int, types.Uint, types.Uintptr:
		return 63 // platform dependent: treat as narrower than 64 but wider than 32
	}
	return 0
}

// ---- publish effects

// isStoreToField: in is a Store to &X.<field> of library struct typ; returns X.
func isStoreToField(in ssa.Instruction, typ, field string) (*ssa.Store, ssa.Value, bool) {
	st, ok := in.(*ssa.Store)
	if !ok {
		return nil, nil, false
	}
	base, ok := isFieldAddr(st.Addr, typ, field)
	return st, base, ok
}

// isLoadOfField: v is a load *(&X.field).
func isLoadOfField(v ssa.Value, typ, field string) (ssa.Value, bool) {
	u, ok := v.(*ssa.UnOp)
	if !ok || u.Op != token.MUL {
		return nil, false
	}
	return isFieldAddr(u.X, typ, field)
}

// fieldStores returns every store to typ.field in the module (library only).
func (w *World) fieldStores(typ, field string) []*ssa.Store {
	var out []*ssa.Store
	for _, fn := range w.Funcs {
		if !w.InLib(fn) {
			continue
		}
		eachInstr(fn, func(in ssa.Instruction) {
			if st, _, ok := isStoreToField(in, typ, field); ok {
				out = append(out, st)
			}
		})
	}
	return out
}

// isFresh: v is allocated in its function (Alloc / composite literal address) or is the
// result of an allocator-style call (mkNode, mkNodeLoc, mkRootNodeLoc, MakePrivateCollection, make*).
func isFresh(v ssa.Value) bool {
	switch x := unwrap(v).(type) {
	case *ssa.Alloc:
		return true
	case *ssa.MakeMap, *ssa.MakeSlice, *ssa.MakeChan:
		return true
	case *ssa.Call:
		switch staticCalleeName(x) {
		case "(*Collection).mkNode", "(*Collection).mkNodeLoc", "(*Collection).mkRootNodeLoc", "(*Store).MakePrivateCollection", "copyColl":
			return true
		}
	}
	return false
}

package main

import (
	"fmt"
	"go/ast"
	"go/parser"
	"go/token"
	"os"
	"path/filepath"
	"strings"
)

// spliceAtFuncStart finds func name ("F" or "Recv.F") in the non-test files of the
// repository root package and inserts stmt right after the opening brace of its body.
func spliceAtFuncStart(repo, name, stmt string, overlay map[string][]byte) (string, []byte, error) {
	recv, fname := "", name
	if i := strings.Index(name, "."); i >= 0 {
		recv, fname = name[:i], name[i+1:]
	}
	files, _ := filepath.Glob(filepath.Join(repo, "*.go"))
	for _, f := range files {
		if strings.HasSuffix(f, "_test.go") {
			continue
		}
		src, ok := overlay[f]
		if !ok {
			var err error
			src, err = os.ReadFile(f)
			if err != nil {
				return "", nil, err
			}
		}
		fset := token.NewFileSet()
		af, err := parser.ParseFile(fset, f, src, 0)
		if err != nil {
			return "", nil, err
		}
		for _, d := range af.Decls {
			fd, ok := d.(*ast.FuncDecl)
			if !ok || fd.Name.Name != fname || fd.Body == nil {
				continue
			}
			r := ""
			if fd.Recv != nil && len(fd.Recv.List) == 1 {
				t := fd.Recv.List[0].Type
				if st, ok := t.(*ast.StarExpr); ok {
					t = st.X
				}
				if id, ok := t.(*ast.Ident); ok {
					r = id.Name
				}
			}
			if r != recv {
				continue
			}
			off := fset.Position(fd.Body.Lbrace).Offset + 1
			out := append([]byte{}, src[:off]...)
			out = append(out, []byte("\n"+stmt+"\n")...)
			out = append(out, src[off:]...)
			return f, out, nil
		}
	}
	return "", nil, fmt.Errorf("function %s not found in %s", name, repo)
}

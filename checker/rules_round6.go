package main

// Round-6 rules (DESIGN §11.6, round 6).
//
//  O5f  every root candidate is decoded into storage made for that candidate alone
//  I6   no gkvlite lock is held across a blocking channel operation
//  R7   bytes of an item are not used after the reference that keeps them alive is released
//  E1m / E1v  error flow restricted to the mutation path / the whole-collection enumerations
//  T3c  lives in shared_rules.go (checkTruncateGuards)
//
// and the attachment of existing rules to further properties whose statements need them.

import (
	"fmt"
	"go/token"
	"sort"

	"golang.org/x/tools/go/ssa"
)

// lateAttach functions run once at the start of run(), after every init() registered its
// property, so that attaching a rule does not depend on file initialisation order.
var lateAttach []func()

func attachRules(id string, rules ...Rule) {
	p := properties[id]
	if p == nil {
		panic("attachRules: unknown property " + id)
	}
	for _, nr := range rules {
		dup := false
		for _, r := range p.Rules {
			if r.Name == nr.Name {
				dup = true
			}
		}
		if !dup {
			p.Rules = append(p.Rules, nr)
		}
	}
}

// ---------------------------------------------------------------- O5f
//
// Recovery looks at candidates one after another and rejects most of them.  Whatever a
// rejected candidate was decoded into must die with it: if the decoder's target outlives
// the candidate (a map made once per scan, a field of the store, a parameter fed from
// either) then entries decoded from a candidate that was rejected *after* the decoder had
// started are still there when an older record is accepted — the store opens as a mixture of
// two states, one of which never was a completed Flush.  Structurally: on the open path,
// the target of every encoding/json.Unmarshal derives from storage allocated (a) in the
// activation that calls the decoder, or in a caller and handed down as an argument, and
// (b) such that every cycle through the decoding call site passes the allocation again.
func ruleO5f(w *World, r *Report) {
	const rule = "O5f"
	open := w.Fn("NewStoreEx")
	if open == nil {
		r.Unknown(rule, "anchor NewStoreEx", "-", "exported API not found")
		return
	}
	reach := w.G.ReachFrom(open).Set
	var fns []*ssa.Function
	for f := range reach {
		if w.InLib(f) {
			fns = append(fns, f)
		}
	}
	sort.Slice(fns, func(i, j int) bool { return w.Name(fns[i]) < w.Name(fns[j]) })
	for _, f := range fns {
		n := 0
		eachInstr(f, func(in ssa.Instruction) {
			c, ok := in.(*ssa.Call)
			if !ok {
				return
			}
			callee := c.Common().StaticCallee()
			if callee == nil || callee.String() != "encoding/json.Unmarshal" || len(c.Common().Args) < 2 {
				return
			}
			n++
			key := fmt.Sprintf("%s › json.Unmarshal#%d decodes into storage of this candidate only", w.Name(f), n)
			if why := w.staleTarget(f, c, c.Common().Args[1], 0, map[ssa.Value]bool{}); why != "" {
				r.Bad(rule, key, w.InstrPos(c), "the decoder's target outlives the candidate being examined ("+why+"): entries decoded from a candidate that is rejected afterwards leak into the record accepted later — the store opens as a mixture of two states")
			} else {
				r.OK(rule, key, w.InstrPos(c), "the target is allocated for this candidate (in this activation or handed down by the caller), and every cycle through the call re-allocates it")
			}
		})
	}
	r.Floor(rule, 2)
}

// staleTarget: "" if v (the decoder target, as used at instruction `at` of f) is storage
// made for this execution of `at`; otherwise the reason.
func (w *World) staleTarget(f *ssa.Function, at ssa.Instruction, v ssa.Value, depth int, seen map[ssa.Value]bool) string {
	if depth > 5 {
		return "provenance too deep to follow"
	}
	for _, rt := range w.Roots(v, false) {
		if seen[rt.Val] {
			continue
		}
		seen[rt.Val] = true
		switch rt.Kind {
		case "const":
			continue // nil target: the decoder allocates
		case "alloc":
			def, ok := rt.Val.(ssa.Instruction)
			if !ok || def.Parent() != f {
				return "allocated in another function: " + rt.String()
			}
			// every cycle through `at` must pass the allocation
			if hit, _ := pathAvoidingCFG(f, at, func(in ssa.Instruction) bool { return in == at }, func(in ssa.Instruction) bool { return in == def }, nil); hit != nil {
				return "allocated once at " + w.InstrPos(def) + " but used by every iteration of the loop around the decoding call"
			}
		case "param":
			p := rt.Val.(*ssa.Parameter)
			idx := -1
			for i, q := range f.Params {
				if q == p {
					idx = i
				}
			}
			sites := 0
			for _, e := range w.G.In[f] {
				if e.Kind != "static" {
					continue
				}
				ci, ok := e.Site.(ssa.CallInstruction)
				if !ok || idx < 0 || idx >= len(ci.Common().Args) {
					continue
				}
				sites++
				if why := w.staleTarget(e.From, e.Site, ci.Common().Args[idx], depth+1, seen); why != "" {
					return "parameter " + p.Name() + " of " + w.Name(f) + " ← " + why
				}
			}
			if sites == 0 {
				return "parameter " + p.Name() + " of " + w.Name(f) + " with no resolvable call site"
			}
		default:
			return rt.String()
		}
	}
	return ""
}

// ---------------------------------------------------------------- I6
//
// A channel send or receive can block until another goroutine acts.  If a lock is held at
// that point, and the other goroutine needs the same lock before it acts, neither ever
// proceeds.  The library's channel protocol (iterator producer/consumer) is therefore run
// with no lock held at any send or receive — the same discipline L3 states for user code and
// file I/O.
func ruleI6(w *World, r *Report) {
	const rule = "I6"
	li := w.Locks()
	for _, f := range w.Funcs {
		if !w.InLib(f) {
			continue
		}
		n := 0
		eachInstr(f, func(in ssa.Instruction) {
			what := ""
			switch x := in.(type) {
			case *ssa.Send:
				what = "send"
			case *ssa.UnOp:
				if x.Op == token.ARROW {
					what = "receive"
				}
			case *ssa.Select:
				if x.Blocking {
					what = "select"
				}
			}
			if what == "" {
				return
			}
			n++
			key := fmt.Sprintf("%s › channel %s#%d › no lock held", w.Name(f), what, n)
			held := li.MayHeld(in)
			if len(held) > 0 {
				r.Bad(rule, key, w.InstrPos(in), "a channel "+what+" may block while holding "+held.String()+": if the goroutine on the other side needs that lock before it answers, both wait for ever (Next/Close never return, the producer never exits)")
			} else {
				r.OK(rule, key, w.InstrPos(in), "no lock can be held at this blocking channel operation")
			}
		})
	}
	r.Floor(rule, 4)
}

// ---------------------------------------------------------------- R7
//
// The Key and Val slices of an item belong to whoever allocated the item (ItemAlloc may hand
// out recycled buffers); a reference (ItemAddRef … ItemDecRef) is what keeps them from being
// reused.  So the bytes must not be used after the reference taken for them is released in
// the same function: (a) a function that releases an item with a deferred ItemDecRef must not
// return a slice loaded from that item — the release runs before the caller looks at it;
// (b) after a direct ItemDecRef(x) no instruction may use a slice loaded from x before x is
// defined anew.
func ruleR7(w *World, r *Report) {
	const rule = "R7"
	for _, f := range w.Funcs {
		if !w.InLib(f) {
			continue
		}
		n := 0
		eachInstr(f, func(in ssa.Instruction) {
			ci, ok := in.(ssa.CallInstruction)
			if !ok || staticCalleeName(ci) != fnDecRef {
				return
			}
			args := ci.Common().Args
			if len(args) < 3 {
				return
			}
			item := args[2]
			n++
			key := fmt.Sprintf("%s › ItemDecRef#%d › item bytes not used after the release", w.Name(f), n)
			// slices loaded from fields of the released item
			derived := map[ssa.Value]bool{}
			eachInstr(f, func(x ssa.Instruction) {
				u, ok := x.(*ssa.UnOp)
				if !ok || u.Op != token.MUL {
					return
				}
				fa, ok := u.X.(*ssa.FieldAddr)
				if !ok {
					return
				}
				if _, st, name, ok := fieldOf(fa); ok && st != nil && st.Obj().Name() == "Item" && (name == "Key" || name == "Val") {
					if fa.X == item || sameVal(fa.X, item) {
						derived[u] = true
					}
				}
			})
			if len(derived) == 0 {
				r.OK(rule, key, w.InstrPos(in), "no slice of the released item is loaded in this function")
				return
			}
			carries := func(v ssa.Value) bool {
				seen := map[ssa.Value]bool{}
				var walk func(v ssa.Value, d int) bool
				walk = func(v ssa.Value, d int) bool {
					if v == nil || seen[v] || d > 8 {
						return false
					}
					seen[v] = true
					if derived[v] {
						return true
					}
					switch x := v.(type) {
					case *ssa.Phi:
						for _, e := range x.Edges {
							if walk(e, d+1) {
								return true
							}
						}
					case *ssa.Slice:
						return walk(x.X, d+1)
					case *ssa.ChangeType:
						return walk(x.X, d+1)
					case *ssa.MakeInterface:
						return walk(x.X, d+1)
					case *ssa.UnOp:
						if al, ok := x.X.(*ssa.Alloc); ok { // local cell / named result
							hit := false
							eachInstr(al.Parent(), func(y ssa.Instruction) {
								if st, ok := y.(*ssa.Store); ok && st.Addr == al && walk(st.Val, d+1) {
									hit = true
								}
							})
							return hit
						}
					}
					return false
				}
				return walk(v, 0)
			}
			usesDerived := func(x ssa.Instruction) bool {
				switch y := x.(type) {
				case *ssa.Return:
					for _, v := range y.Results {
						if carries(v) {
							return true
						}
					}
				case ssa.CallInstruction:
					if x == in {
						return false
					}
					for _, v := range y.Common().Args {
						if carries(v) {
							return true
						}
					}
				case *ssa.Store:
					return carries(y.Val)
				}
				return false
			}
			var bad ssa.Instruction
			if _, isDefer := in.(*ssa.Defer); isDefer {
				eachInstr(f, func(x ssa.Instruction) {
					if ret, ok := x.(*ssa.Return); ok && bad == nil && usesDerived(ret) {
						bad = ret
					}
				})
			} else {
				def, _ := item.(ssa.Instruction)
				bad, _ = pathAvoidingCFG(f, in, usesDerived, func(x ssa.Instruction) bool { return def != nil && x == def }, nil)
			}
			if bad != nil {
				r.Bad(rule, key, w.InstrPos(bad), "a Key/Val slice of the item is still used (returned, passed on or stored) after the reference that keeps it alive has been released: with an allocator that recycles buffers (a neutral ItemAlloc/ItemDecRef pair) the bytes change under the user — lookups and visits start from the wrong key")
			} else {
				r.OK(rule, key, w.InstrPos(in), "slices of the released item are not used after the release")
			}
		})
	}
	r.Floor(rule, 8)
}

// ---------------------------------------------------------------- E1m, E1v

func e1Within(rule string, floor int, roots ...string) func(w *World, r *Report) {
	return func(w *World, r *Report) {
		var fs []*ssa.Function
		for _, n := range roots {
			if f := w.Fn(n); f != nil {
				fs = append(fs, f)
			}
		}
		if len(fs) != len(roots) {
			r.Unknown(rule, "anchors "+fmt.Sprint(roots), "-", "exported API not found")
			return
		}
		reach := w.G.ReachFrom(fs...).Set
		for _, f := range w.Funcs {
			if !reach[f] || !w.InLib(f) {
				continue
			}
			for _, fc := range w.fallibleCalls(f) {
				w.checkErrorFlow(r, rule, fc)
			}
		}
		r.Floor(rule, floor)
	}
}

var ruleE1m = e1Within("E1m", 20, "(*Collection).SetItem", "(*Collection).Delete")
var ruleE1v = e1Within("E1v", 10, "(*Collection).Len", "(*Collection).VisitItemsRandom", "(*Collection).VisitItemsAscendBlockEx")

func init() {
	lateAttach = append(lateAttach, func() {
		// new rules
		attachRules("C03", Rule{"O5f", ruleO5f})
		attachRules("C02", Rule{"O5f", ruleO5f})
		attachRules("C08", Rule{"O5f", ruleO5f})
		attachRules("C18", Rule{"I6", ruleI6})
		attachRules("C05", Rule{"I6", ruleI6})
		attachRules("C07", Rule{"I6", ruleI6}, Rule{"L2", ruleL2}) // "never hangs": no lock leaked on an error path, none held across a channel operation
		attachRules("C15", Rule{"R7", ruleR7}, Rule{"F3", ruleF3}) // a bulk mark under shared ownership ends in ItemDecRef on items still reachable
		attachRules("C16", Rule{"R7", ruleR7}, Rule{"E1v", ruleE1v})
		attachRules("C17", Rule{"R7", ruleR7})
		attachRules("C13", Rule{"E1m", ruleE1m})
		// existing rules the statements of these properties need as well (round 6)
		attachRules("C02", Rule{"A-trunc", ruleATruncWho}) // flushed bytes are cut away by FlushRevert only
		attachRules("C05", Rule{"O1", ruleO1})              // every Flush that reports success wrote a root record
		attachRules("C11", Rule{"Z4", ruleZ4})              // a snapshot's frozen size never bounds a read

		p := properties["C18"]
		p.ControlSrc += `
func (t *Collection) ZzCtlLockedReceive(it *iterator) { // blocking receive under a lock
	t.rootLock.Lock()
	<-it.next
	t.rootLock.Unlock()
}
`
		p.Expect = append(p.Expect, Expect{"I6", "ZzCtlLockedReceive"})

		p = properties["C15"]
		p.ControlSrc += `
func (t *Collection) ZzCtlMinKey() []byte { // key bytes outlive the reference
	si, _ := t.MinItem(false)
	if si == nil {
		return nil
	}
	defer t.store.ItemDecRef(t, si)
	return si.Key
}
`
		p.Expect = append(p.Expect, Expect{"R7", "ZzCtlMinKey"})

		p = properties["C03"]
		p.ControlExtra = append(p.ControlExtra, `package gkvlite

import "encoding/json"

// positive control for O5f (never part of /repo): a decode target shared by all candidates
func (s *Store) zzCtlDecodeAll(cands [][]byte) {
	m := make(map[string]*Collection)
	for _, c := range cands {
		if json.Unmarshal(c, &m) == nil {
			return
		}
	}
}
`)
		p.ControlEdits = append(p.ControlEdits, ControlEdit{"NewStoreEx", "if zzCtlNever { (*Store)(nil).zzCtlDecodeAll(nil) }"})
		p.Expect = append(p.Expect, Expect{"O5f", "zzCtlDecodeAll"})
	})

	mutantCorpus = append(mutantCorpus, []Mutant{
		{ID: "r6-decode-into-current-map", Props: []string{"C03", "C02", "C08"}, File: "store.go",
			Old: "\tm := make(map[string]*Collection)\n\tif err := json.Unmarshal(data[2*len(MagicBeg)+4+4:], &m); err != nil {\n",
			New: "\tm := *s.getColl()\n\tif err := json.Unmarshal(data[2*len(MagicBeg)+4+4:], &m); err != nil {\n",
			Rule: "O5f", Why: "the decode target is the store's current map: entries of rejected candidates survive"},
		{ID: "r6-revert-resets-size", Props: []string{"C08", "C09", "C04"}, File: "store.go",
			Old: "\tif s.readOnly {\n\t\treturn nil\n\t}\n\treturn s.file.Truncate(atomic.LoadInt64(&s.size))\n",
			New: "\tif len(*s.getColl()) == 0 {\n\t\tatomic.StoreInt64(&s.size, 0)\n\t}\n\tif s.readOnly {\n\t\treturn nil\n\t}\n\treturn s.file.Truncate(atomic.LoadInt64(&s.size))\n",
			Rule: "T3", Why: "the cursor is moved between the scan and the Truncate"},
	}...)
}

package main

// Behaviour-preserving refactorings (DESIGN §11.7): patches written by independent
// sub-agents that change the shape of the code and nothing else, kept under
// /verif/preserving/<id>/patch.diff.  The thorough tier re-applies each one in memory and
// expects the property's rules to stay exactly as quiet as on the unchanged tree.  A patch
// that no longer applies to the current /repo is skipped.

import (
	"fmt"
	"path/filepath"
	"sort"
)

func preservingDirs() []string {
	dirs, _ := filepath.Glob(filepath.Join(*flagVerif, "preserving", "*", "patch.diff"))
	var out []string
	for _, d := range dirs {
		out = append(out, filepath.Dir(d))
	}
	sort.Strings(out)
	return out
}

// newFindings: obligations violated / undecided (or instance floors missed) in rep but not in base.
func newFindings(base, rep *Report) []*Ob {
	baseBad := map[string]bool{}
	for _, o := range base.Obs {
		if o.Status == Violated || o.Status == Undecided {
			baseBad[o.Rule+"|"+o.Construct] = true
		}
	}
	var out []*Ob
	for _, o := range rep.Obs {
		if (o.Status == Violated || o.Status == Undecided) && !baseBad[o.Rule+"|"+o.Construct] {
			out = append(out, o)
		}
	}
	for rule, fl := range rep.Floors {
		if rep.Count(rule) < fl && base.Count(rule) >= fl {
			out = append(out, &Ob{Rule: rule, Construct: "instance floor", Status: Violated, Detail: fmt.Sprintf("%d instances matched, floor is %d", rep.Count(rule), fl)})
		}
	}
	return out
}

// runPreserving: exit 0 silent, 3 skipped, 4 false alarm.
func runPreserving(p *Property, dir string) int {
	id := filepath.Base(dir)
	ov, skip := seedOverlay(dir)
	if skip != "" {
		fmt.Printf("PRESERVING %s skipped: %s\n", id, skip)
		return 3
	}
	base, err := LoadWorld(*flagRepo, nil, nil, "")
	if err != nil {
		fmt.Printf("PRESERVING %s skipped: base load failed: %v\n", id, err)
		return 3
	}
	w, err := LoadWorld(*flagRepo, ov, nil, "")
	if err != nil {
		fmt.Printf("PRESERVING %s skipped: does not compile on the current tree: %v\n", id, err)
		return 3
	}
	bad := newFindings(runRules(p, base), runRules(p, w))
	if len(bad) == 0 {
		fmt.Printf("PRESERVING %s (behaviour-preserving refactoring) silent as required\n", id)
		return 0
	}
	for _, o := range bad {
		fmt.Printf("PRESERVING %s FALSE-ALARM [%s] %s: %s\n", id, o.Rule, o.Construct, o.Detail)
	}
	return 4
}

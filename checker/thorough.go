package main

// Thorough tier: the quick rules again under other build configurations, plus the
// mutant corpus (single-edit in-memory variants of /repo that must flip a named
// obligation) and the behaviour-preserving variants (which must stay silent).

import (
	"bytes"
	"fmt"
	"os"
	"os/exec"
	"path/filepath"
	"sort"
	"strings"
	"sync"
)

type Mutant struct {
	ID         string
	Props      []string // properties whose rules must notice
	File       string   // relative to repo
	Old, New   string   // anchored rewrite: Old must occur exactly once
	Rule       string   // rule expected to fire ("" for preserving variants)
	Preserving bool     // behaviour-preserving: no new violation may appear
	Why        string
}

var mutantCorpus []Mutant

func mutantsFor(prop string) []Mutant {
	var out []Mutant
	for _, m := range mutantCorpus {
		for _, p := range m.Props {
			if p == prop {
				out = append(out, m)
			}
		}
	}
	sort.Slice(out, func(i, j int) bool { return out[i].ID < out[j].ID })
	return out
}

// applyMutant returns the overlay or "" reason for skipping.
func applyMutant(m Mutant) (map[string][]byte, string) {
	path := filepath.Join(*flagRepo, m.File)
	src, err := os.ReadFile(path)
	if err != nil {
		return nil, "file missing: " + m.File
	}
	n := bytes.Count(src, []byte(m.Old))
	if n != 1 {
		return nil, fmt.Sprintf("anchor occurs %d times (repository edited?)", n)
	}
	out := bytes.Replace(src, []byte(m.Old), []byte(m.New), 1)
	return map[string][]byte{path: out}, ""
}

// runMutant: exit 0 = mutant handled as expected (caught / silent for preserving),
// exit 3 = skipped, exit 4 = MISSED (checker blind) or false alarm on preserving variant.
func runMutant(p *Property, id string) int {
	var m *Mutant
	for i := range mutantCorpus {
		if mutantCorpus[i].ID == id {
			m = &mutantCorpus[i]
		}
	}
	if m == nil {
		fmt.Println("unknown mutant", id)
		return 2
	}
	ov, skip := applyMutant(*m)
	if skip != "" {
		fmt.Printf("MUTANT %s skipped: %s\n", id, skip)
		return 3
	}
	base, err := LoadWorld(*flagRepo, nil, nil, "")
	if err != nil {
		fmt.Printf("MUTANT %s: base load failed: %v\n", id, err)
		return 3
	}
	baseRep := runRules(p, base)
	baseBad := map[string]bool{}
	for _, o := range baseRep.Obs {
		if o.Status == Violated || o.Status == Undecided {
			baseBad[o.Rule+"|"+o.Construct] = true
		}
	}
	w, err := LoadWorld(*flagRepo, ov, nil, "")
	if err != nil {
		fmt.Printf("MUTANT %s skipped: does not compile: %v\n", id, err)
		return 3
	}
	rep := runRules(p, w)
	var newBad []*Ob
	for _, o := range rep.Obs {
		if (o.Status == Violated || o.Status == Undecided) && !baseBad[o.Rule+"|"+o.Construct] {
			newBad = append(newBad, o)
		}
	}
	// a floor failure also counts as noticing
	for rule, fl := range rep.Floors {
		if rep.Count(rule) < fl && baseRep.Count(rule) >= fl {
			newBad = append(newBad, &Ob{Rule: rule, Construct: "instance floor", Status: Violated})
		}
	}
	if m.Preserving {
		if len(newBad) == 0 {
			fmt.Printf("MUTANT %s (behaviour-preserving) silent as required\n", id)
			return 0
		}
		for _, o := range newBad {
			fmt.Printf("MUTANT %s FALSE-ALARM [%s] %s: %s\n", id, o.Rule, o.Construct, o.Detail)
		}
		return 4
	}
	for _, o := range newBad {
		// the named rule is the one expected for the mutant's first property; for the
		// other properties it is listed under, any of their rules noticing is enough
		if m.Rule == "" || o.Rule == m.Rule || p.ID != m.Props[0] {
			fmt.Printf("MUTANT %s caught by [%s] %s\n", id, o.Rule, o.Construct)
			return 0
		}
	}
	var others []string
	for _, o := range newBad {
		others = append(others, o.Rule)
	}
	fmt.Printf("MUTANT %s MISSED by rule %s of %s (other rules firing: %v)\n", id, m.Rule, p.ID, others)
	return 4
}

func runThorough(p *Property, rep *Report) (map[string]interface{}, int, []string) {
	extra := map[string]interface{}{}
	fails := 0
	var lines []string
	self, _ := os.Executable()
	type job struct {
		name string
		args []string
	}
	var jobs []job
	for _, v := range []string{"386", "race"} {
		jobs = append(jobs, job{"variant:" + v, []string{"-property", p.ID, "-tier", "quick", "-variant", v, "-noevidence", "-nocontrols", "-repo", *flagRepo, "-verif", *flagVerif}})
	}
	for _, m := range mutantsFor(p.ID) {
		jobs = append(jobs, job{"mutant:" + m.ID, []string{"-property", p.ID, "-mutant", m.ID, "-noevidence", "-repo", *flagRepo, "-verif", *flagVerif}})
	}
	for _, d := range seededFor(p.ID) {
		jobs = append(jobs, job{"mutant:seeded/" + filepath.Base(d), []string{"-property", p.ID, "-seeded", d, "-noevidence", "-repo", *flagRepo, "-verif", *flagVerif}})
	}
	for _, d := range preservingDirs() {
		jobs = append(jobs, job{"mutant:preserving/" + filepath.Base(d), []string{"-property", p.ID, "-preserving", d, "-noevidence", "-repo", *flagRepo, "-verif", *flagVerif}})
	}
	type res struct {
		name string
		code int
		out  string
	}
	results := make([]res, len(jobs))
	sem := make(chan struct{}, 10)
	var wg sync.WaitGroup
	for i, j := range jobs {
		wg.Add(1)
		go func(i int, j job) {
			defer wg.Done()
			sem <- struct{}{}
			defer func() { <-sem }()
			cmd := exec.Command(self, j.args...)
			cmd.Env = os.Environ()
			out, err := cmd.CombinedOutput()
			code := 0
			if err != nil {
				if ee, ok := err.(*exec.ExitError); ok {
					code = ee.ExitCode()
				} else {
					code = 99
				}
			}
			results[i] = res{j.name, code, string(out)}
		}(i, j)
	}
	wg.Wait()
	var mutRes []map[string]interface{}
	variants := map[string]string{}
	caught, skipped, silentOK, missed := 0, 0, 0, 0
	defer func() { extra["mutants_missed"] = missed }()
	for _, r := range results {
		last := strings.TrimSpace(r.out)
		if i := strings.LastIndex(last, "\n"); i >= 0 && strings.HasPrefix(r.name, "mutant:") {
			last = last[i+1:]
		}
		if strings.HasPrefix(r.name, "variant:") {
			// a variant must agree with the default configuration's verdict
			status := "agrees"
			baseFail := false
			for _, o := range rep.Obs {
				if o.Status == Violated || o.Status == Undecided {
					baseFail = true
				}
			}
			if (r.code != 0) != baseFail {
				status = fmt.Sprintf("DISAGREES (exit %d)", r.code)
				fails++
				lines = append(lines, fmt.Sprintf("VARIANT %s %s: verdict differs from default configuration:\n%s", p.ID, r.name, r.out))
				lines = append(lines, fmt.Sprintf("VIOLATION property=%s replay=%s", p.ID, r.name))
			}
			variants[r.name] = status
			continue
		}
		m := map[string]interface{}{"mutant": strings.TrimPrefix(r.name, "mutant:"), "result": last}
		mutRes = append(mutRes, m)
		switch r.code {
		case 0:
			if strings.Contains(last, "silent as required") {
				silentOK++
			} else {
				caught++
			}
		case 3:
			skipped++
		default:
			// A blind or over-eager checker is a defect of the checker, not of /repo.  The
			// corpus is anchored on today's source text; after an edit of /repo a mutant may
			// no longer mean what it meant, so a miss is recorded (stdout + evidence) and
			// fails the run only in strict mode (used while developing the checker).
			missed++
			lines = append(lines, fmt.Sprintf("CHECKER-SELFTEST %s %s: %s", p.ID, r.name, last))
			if os.Getenv("GKV_STRICT_SELFTEST") != "" {
				fails++
				lines = append(lines, fmt.Sprintf("VIOLATION property=%s replay=%s", p.ID, "selftest-"+r.name))
			}
		}
	}
	extra["build_variants"] = variants
	extra["mutants"] = mutRes
	extra["mutants_caught"] = caught
	extra["mutants_skipped"] = skipped
	extra["preserving_variants_silent"] = silentOK
	return extra, fails, lines
}

package main

import (
	"sort"

	"golang.org/x/tools/go/ssa"
)

// API roles (DESIGN §2.2).  Exported names are pinned by the test-suite and README.
var (
	writerAPI = map[string]string{
		"(*Store).Flush":        "appends dirty items/nodes and one root record",
		"(*Collection).Write":   "appends dirty items/nodes of one collection",
		"(*Store).CopyTo":       "writes to the destination store only",
		"(*Store).ItemValWrite": "value-write dispatch wrapper (writes by definition)",
	}
	truncAPI = map[string]string{
		"(*Store).FlushRevert": "the only API allowed to truncate",
	}
	mutatorAPI = map[string]bool{
		"(*Collection).SetItem": true, "(*Collection).Set": true, "(*Collection).SetAny": true,
		"(*Collection).Delete": true, "(*Collection).DeleteAny": true,
	}
	openAPI = map[string]bool{"NewStore": true, "NewStoreEx": true}
)

// entryReach caches reachability per exported entry.
func (w *World) entryReach() map[*ssa.Function]*Reach {
	if v, ok := w.cache["entryReach"]; ok {
		return v.(map[*ssa.Function]*Reach)
	}
	m := map[*ssa.Function]*Reach{}
	for _, e := range w.Exported() {
		m[e] = w.G.ReachFrom(e)
	}
	w.cache["entryReach"] = m
	return m
}

// entriesReaching: names of exported entries from which fn is reachable.
func (w *World) entriesReaching(fn *ssa.Function) []string {
	var out []string
	for e, r := range w.entryReach() {
		if r.Set[fn] {
			out = append(out, w.Name(e))
		}
	}
	sort.Strings(out)
	return out
}

// entriesReachingNoOpen: like entriesReaching, but an entry other than NewStore(Ex) is not
// credited with what it reaches only through opening another store (CopyTo opens its
// destination): the open path of that other store is the open API's business.
func (w *World) entriesReachingNoOpen(fn *ssa.Function) []string {
	var m map[*ssa.Function]*Reach
	if v, ok := w.cache["entryReachNoOpen"]; ok {
		m = v.(map[*ssa.Function]*Reach)
	} else {
		m = map[*ssa.Function]*Reach{}
		for _, e := range w.Exported() {
			if openAPI[w.Name(e)] {
				m[e] = w.G.ReachFrom(e)
			} else {
				m[e] = w.G.ReachFromFiltered(func(ed *Edge) bool { return openAPI[w.Name(ed.To)] }, e)
			}
		}
		w.cache["entryReachNoOpen"] = m
	}
	var out []string
	for e, r := range m {
		if r.Set[fn] {
			out = append(out, w.Name(e))
		}
	}
	sort.Strings(out)
	return out
}

func subsetOf(xs []string, sets ...map[string]bool) bool {
	for _, x := range xs {
		ok := false
		for _, s := range sets {
			if s[x] {
				ok = true
			}
		}
		if !ok {
			return false
		}
	}
	return true
}

func keysBool(m map[string]string) map[string]bool {
	o := map[string]bool{}
	for k := range m {
		o[k] = true
	}
	return o
}

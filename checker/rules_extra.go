package main

// Rules added after the first round of independently seeded changes (DESIGN §11.6), plus
// a few structural rules that widen what each property's check covers.

import (
	"fmt"
	"go/constant"
	"go/token"
	"go/types"
	"strings"

	"golang.org/x/tools/go/ssa"
)

// O2b: the root-record writer has no success path around its file write: every nil
// return has passed the WriteAt and the size store.  (A "nothing changed, skip the root
// record" shortcut makes Flush report durability for data no root record names.)
func ruleO2b(w *World, r *Report) {
	const rule = "O2b"
	ro := rolesOrFail(w, r, rule)
	if ro == nil {
		return
	}
	for _, fn := range []*ssa.Function{ro.rootWriter} {
		var bad string
		var badAt ssa.Instruction
		idx := errResultIndex(fn)
		sizeW := map[ssa.Instruction]bool{}
		for _, sw := range w.sizeWritesIn(fn) {
			sizeW[sw.Instr] = true
		}
		wk := &Walker{Fn: fn}
		wk.OnInstr = func(env *Env, in ssa.Instruction, trail []*ssa.BasicBlock) bool {
			for _, s := range w.G.SinksIn[fn] {
				if s.Instr == in && s.Method == "WriteAt" {
					env.flags["written"] = true
				}
			}
			if sizeW[in] {
				env.flags["advanced"] = true
			}
			if ret, ok := in.(*ssa.Return); ok {
				if isNilConst(env.Resolve(ret.Results[idx])) && bad == "" {
					switch {
					case !env.flags["written"]:
						bad, badAt = "a success return is reachable without the root record having been written: Flush reports success although the data just written is named by no root record", in
					case !env.flags["advanced"]:
						bad, badAt = "a success return is reachable without Store.size having been advanced past the root record: the next write overwrites it", in
					}
				}
				return true
			}
			return false
		}
		wk.Branch = func(env *Env, ifi *ssa.If) (bool, bool) {
			if x, trueMeansNil, ok := nilTest(ifi.Cond); ok && isErrorType(x.Type()) {
				return trueMeansNil, !trueMeansNil
			}
			return true, true
		}
		wk.Run(nil, nil)
		key := w.Name(fn) + " › every success return follows the write and the size advance"
		if bad != "" {
			r.Bad(rule, key, w.InstrPos(badAt), bad)
		} else {
			r.OK(rule, key, w.Pos(fn.Pos()), "no success path around the WriteAt / size store")
		}
	}
	// the data writers: a success return either wrote+advanced+recorded, or skipped because the
	// handle is already persisted / has nothing to write (the skip guard dominates)
	for _, fn := range []*ssa.Function{ro.itemWriter, ro.nodeWriter} {
		var bad string
		var badAt ssa.Instruction
		idx := errResultIndex(fn)
		wk := &Walker{Fn: fn}
		wk.OnInstr = func(env *Env, in ssa.Instruction, trail []*ssa.BasicBlock) bool {
			for _, s := range w.G.SinksIn[fn] {
				if s.Instr == in && s.Method == "WriteAt" {
					env.flags["written"] = true
				}
			}
			if c, ok := in.(*ssa.Call); ok && strings.HasSuffix(staticCalleeName(c), ".setLoc") {
				env.flags["recorded"] = true
			}
			if ret, ok := in.(*ssa.Return); ok {
				if isNilConst(env.Resolve(ret.Results[idx])) && bad == "" {
					if env.flags["written"] != env.flags["recorded"] {
						bad, badAt = "a success return has written the record without recording its location (or recorded a location without writing): the next Flush writes it again / the parent embeds a location with nothing behind it", in
					}
					if !env.flags["written"] && !env.flags["skip"] {
						bad, badAt = "a success return is reachable that neither wrote the record nor took the already-persisted / nothing-to-write skip", in
					}
				}
				return true
			}
			return false
		}
		wk.Branch = func(env *Env, ifi *ssa.If) (bool, bool) {
			if x, trueMeansNil, ok := nilTest(ifi.Cond); ok && isErrorType(x.Type()) {
				return trueMeansNil, !trueMeansNil
			}
			return true, true
		}
		wk.OnEdge = func(env *Env, from, to *ssa.BasicBlock, idx2 int) bool {
			ifi, ok := from.Instrs[len(from.Instrs)-1].(*ssa.If)
			if !ok {
				return false
			}
			for _, cf := range condFacts(ifi.Cond, idx2 == 0, 0) {
				// location already non-empty, or no in-memory object to write
				if c, isC := cf.Cond.(*ssa.Call); isC && staticCalleeName(c) == "(*ploc).isEmpty" && !cf.Pol {
					env.flags["skip"] = true
				}
				if b, isB := cf.Cond.(*ssa.BinOp); isB && isNilConst(b.Y) && (b.Op == token.EQL) == cf.Pol {
					env.flags["skip"] = true
				}
			}
			return false
		}
		wk.Run(nil, nil)
		key := w.Name(fn) + " › success = written and recorded, or legitimately skipped"
		if bad != "" {
			r.Bad(rule, key, w.InstrPos(badAt), bad)
		} else {
			r.OK(rule, key, w.Pos(fn.Pos()), "every success return wrote + recorded the location, or skipped an already-persisted / absent object")
		}
	}
	r.Floor(rule, 3)
}

// O5s: the backward scan for the last root record moves one byte at a time: every
// lowering of the cursor reachable from open is atomic.AddInt64(&size, -1).  (A larger
// step can jump over a trailer that straddles the window.)
func ruleScanStep(w *World, r *Report) {
	const rule = "O5s"
	open := w.Fn("NewStoreEx")
	if open == nil {
		r.Unknown(rule, "anchor NewStoreEx", "-", "exported API not found")
		return
	}
	n := 0
	for f := range w.G.ReachFrom(open).Set {
		if !w.InLib(f) {
			continue
		}
		for i, sw := range w.sizeWritesIn(f) {
			if sw.Kind == "store" {
				if g, _ := w.grownFromSize(sw.Val); g {
					continue
				}
				// absolute stores: the initial file size (Stat) and the reset to 0 at the floor
				continue
			}
			n++
			key := fmt.Sprintf("%s › cursor step#%d", w.Name(f), i+1)
			k, isK := constInt(unwrap(sw.Val))
			if sw.Kind == "add" && isK && k == -1 {
				r.OK(rule, key, w.InstrPos(sw.Instr), "steps back exactly one byte")
			} else {
				r.Bad(rule, key, w.InstrPos(sw.Instr), fmt.Sprintf("the scan cursor moves by %s, not by -1: a root-record trailer that does not line up with the step is never examined, so a completed Flush can be missed on recovery", sw.Val))
			}
		}
	}
	r.Floor(rule, 2)
}

// V3b: what the item-read function hands back.  A non-nil result is (i) the cached item on
// a path that established it has a value or none is wanted, (ii) the freshly read item
// after a successful install, or (iii) the result of retrying with the same value mode.
func ruleItemReadResult(w *World, r *Report) {
	const rule = "V3b"
	fn := w.Fn("(*itemLoc).read")
	if fn == nil {
		r.Unknown(rule, "anchor (*itemLoc).read", "-", "item-read function not found")
		return
	}
	var withValue *ssa.Parameter
	for _, p := range fn.Params {
		if p.Type().String() == "bool" {
			withValue = p
		}
	}
	var bad string
	var badAt ssa.Instruction
	nRet := 0
	wk := &Walker{Fn: fn}
	wk.OnInstr = func(env *Env, in ssa.Instruction, trail []*ssa.BasicBlock) bool {
		if c, ok := in.(*ssa.Call); ok && staticCalleeName(c) == "(*Store).ItemValRead" {
			env.flags["valread"] = true
		}
		ret, ok := in.(*ssa.Return)
		if !ok {
			return false
		}
		v := env.Resolve(ret.Results[0])
		if isNilConst(v) || !isNilConst(env.Resolve(ret.Results[1])) {
			return true
		}
		nRet++
		// (iii) retry
		if ex, isEx := v.(*ssa.Extract); isEx && ex.Index == 0 {
			if c, isC := ex.Tuple.(*ssa.Call); isC && c.Common().StaticCallee() == fn {
				if c.Common().Args[2] != ssa.Value(withValue) && bad == "" {
					bad, badAt = "the retry after a lost install race does not pass the caller's value mode on", in
				}
				return true
			}
		}
		// (ii) fresh item: installed on this path, value read if wanted
		if env.flags[fmt.Sprintf("installed:%p", v)] {
			if !env.flags["valread"] && !env.flags["novalue"] && bad == "" {
				bad, badAt = "a freshly read item is returned on a path where a value may be wanted but was not read", in
			}
			return true
		}
		// (i) cached item
		if c := callOfValue(v); c != nil && staticCalleeName(c) == "(*itemLoc).Item" {
			if !(env.flags[fmt.Sprintf("hasval:%p", v)] || env.flags["novalue"]) && bad == "" {
				bad, badAt = "a cached item is returned on a path that did not establish that it carries its value (or that none is wanted): a withValue=true reader can be handed an item whose Val is nil", in
			}
			return true
		}
		if bad == "" {
			bad, badAt = fmt.Sprintf("a non-nil item of unrecognised origin (%s) is returned", describeVal(v)), in
		}
		return true
	}
	wk.OnEdge = func(env *Env, from, to *ssa.BasicBlock, idx int) bool {
		ifi, ok := from.Instrs[len(from.Instrs)-1].(*ssa.If)
		if !ok {
			return false
		}
		for _, cf := range condFacts(ifi.Cond, idx == 0, 0) {
			if cf.Cond == ssa.Value(withValue) && !cf.Pol {
				env.flags["novalue"] = true
			}
			if b, isB := cf.Cond.(*ssa.BinOp); isB && isNilConst(b.Y) {
				if base, isVal := isLoadOfField(b.X, "Item", "Val"); isVal && (b.Op == token.EQL) != cf.Pol {
					env.flags[fmt.Sprintf("hasval:%p", env.Resolve(base))] = true
				}
			}
			if c, isC := cf.Cond.(*ssa.Call); isC && staticCalleeName(c) == "(*itemLoc).casItem" && cf.Pol {
				env.flags[fmt.Sprintf("installed:%p", env.Resolve(c.Common().Args[2]))] = true
			}
		}
		return false
	}
	wk.Branch = func(env *Env, ifi *ssa.If) (bool, bool) {
		if x, trueMeansNil, ok := nilTest(ifi.Cond); ok && isErrorType(x.Type()) {
			return trueMeansNil, !trueMeansNil
		}
		return true, true
	}
	wk.Run(nil, nil)
	key := "(*itemLoc).read › a returned item carries its value whenever one is wanted"
	switch {
	case wk.Truncated:
		r.Unknown(rule, key, w.Pos(fn.Pos()), "state budget exceeded")
	case bad != "":
		r.Bad(rule, key, w.InstrPos(badAt), bad)
	case nRet == 0:
		r.Unknown(rule, key, w.Pos(fn.Pos()), "no success return with an item found")
	default:
		r.OK(rule, key, w.Pos(fn.Pos()), "every success return hands back the cached item (known to carry its value, or none wanted), the freshly installed item (value read when wanted), or the retry's result")
	}
	r.Floor(rule, 1)
}

// E3b: the function that clears reclaim marks after a failed mutation visits every cached
// node: its recursion into the children is not conditioned on the node's own mark.
func ruleE3b(w *World, r *Report) {
	const rule = "E3b"
	n := 0
	for fn := range w.clearingFns() {
		n++
		key := w.Name(fn) + " › walks every cached node"
		bad := ""
		covered := map[string]bool{} // child fields the walk descends into
		markCond := func(b *ssa.BasicBlock) {
			for _, f := range factsAt(b) {
				if bo, isB := f.Cond.(*ssa.BinOp); isB {
					_, l := isLoadOfField(bo.X, "node", "next")
					_, rr := isLoadOfField(bo.Y, "node", "next")
					if l || rr {
						bad = "the descent into a child is conditioned on the parent's own mark: marks left deeper in the tree under an unmarked ancestor survive the failed mutation"
					}
				}
			}
		}
		// iteration down one side: the handle parameter is loop-carried and takes &n.<child>
		eachInstr(fn, func(in ssa.Instruction) {
			ph, ok := in.(*ssa.Phi)
			if !ok || !isLoopHeaderPhi(ph) {
				return
			}
			for i, e := range ph.Edges {
				if _, st, name, okF := fieldOf(e); okF && st != nil && st.Obj().Name() == "node" && (name == "left" || name == "right") {
					covered[name] = true
					markCond(ph.Block().Preds[i])
				}
			}
		})
		eachInstr(fn, func(in ssa.Instruction) {
			c, ok := in.(*ssa.Call)
			if !ok || c.Common().StaticCallee() != fn {
				return
			}
			for _, a := range c.Common().Args {
				if _, st, name, okF := fieldOf(a); okF && st != nil && st.Obj().Name() == "node" && (name == "left" || name == "right") {
					covered[name] = true
				}
			}
			for _, f := range factsAt(in.Block()) {
				if b, isB := f.Cond.(*ssa.BinOp); isB {
					if _, isNext := isLoadOfField(b.X, "node", "next"); isNext {
						bad = "the recursion into a child is conditioned on the parent's own mark: marks left deeper in the tree under an unmarked ancestor survive the failed mutation (split/union mark on the way back up, so a failure part-way leaves exactly that shape)"
					}
					if _, isNext := isLoadOfField(b.Y, "node", "next"); isNext {
						bad = "the recursion into a child is conditioned on the parent's own mark"
					}
				}
			}
		})
		// and no early return on an unmarked node before the recursion
		eachInstr(fn, func(in ssa.Instruction) {
			if _, ok := in.(*ssa.Return); !ok {
				return
			}
			for _, f := range factsAt(in.Block()) {
				if b, isB := f.Cond.(*ssa.BinOp); isB {
					_, l := isLoadOfField(b.X, "node", "next")
					_, rr := isLoadOfField(b.Y, "node", "next")
					if l || rr {
						// a return guarded by the mark test: is it before the recursive calls?
						reachRec := false
						eachInstr(fn, func(x ssa.Instruction) {
							if c, ok := x.(*ssa.Call); ok && c.Common().StaticCallee() == fn && instrDominates(x, in) {
								reachRec = true
							}
						})
						if !reachRec {
							bad = "the walk returns at the first node that does not carry the mark, without looking at its children"
						}
					}
				}
			}
		})
		if !(covered["left"] && covered["right"]) && bad == "" {
			bad = "the clearing walk does not descend into both children"
		}
		r.Check(bad == "", rule, key, w.Pos(fn.Pos()), "both children are visited whatever the node's own mark", bad)
	}
	if n == 0 {
		r.Unknown(rule, "mark-clearing function", "-", "no function that resets node.next of marked nodes found (E3 would have nothing to call)")
	}
}

// B1: state captured by a callback that is invoked once per loop iteration must be fresh
// in every iteration (allocated or re-initialised inside the loop body).
func ruleB1(w *World, r *Report) {
	const rule = "B1"
	n := 0
	for _, name := range []string{"(*Collection).VisitItemsAscendBlockEx", "(*Collection).VisitItemsRandom"} {
		fn := w.Fn(name)
		if fn == nil {
			r.Unknown(rule, "anchor "+name, "-", "exported API not found")
			continue
		}
		loops := loopsOf(fn)
		eachInstr(fn, func(in ssa.Instruction) {
			c, ok := in.(*ssa.Call)
			if !ok || c.Common().StaticCallee() == nil || !strings.Contains(w.Name(c.Common().StaticCallee()), "VisitItems") {
				return
			}
			var inner *loopInfo
			for _, lp := range loops {
				if lp.body[in.Block()] && (inner == nil || len(lp.body) < len(inner.body)) {
					inner = lp
				}
			}
			if inner == nil {
				return // the collecting pass: runs once
			}
			// the visitor closure
			var mc *ssa.MakeClosure
			for _, a := range c.Common().Args {
				v := a
				if ct, isCT := v.(*ssa.ChangeType); isCT {
					v = ct.X
				}
				if ld, isLd := v.(*ssa.UnOp); isLd && ld.Op == token.MUL {
					if al, isAl := ld.X.(*ssa.Alloc); isAl {
						if sv := singleStore(al); sv != nil {
							v = sv
							if ct, isCT := v.(*ssa.ChangeType); isCT {
								v = ct.X
							}
						}
					}
				}
				if m, isMC := v.(*ssa.MakeClosure); isMC {
					mc = m
				}
			}
			if mc == nil {
				return
			}
			cl := mc.Fn.(*ssa.Function)
			for i, b := range mc.Bindings {
				al, isAl := b.(*ssa.Alloc)
				if !isAl {
					continue
				}
				// only cells the closure writes (its private state)
				fv := cl.FreeVars[i]
				written := false
				if refs := fv.Referrers(); refs != nil {
					for _, rf := range *refs {
						if st, isSt := rf.(*ssa.Store); isSt && st.Addr == ssa.Value(fv) {
							written = true
						}
					}
				}
				if !written {
					continue
				}
				if _, isBasic := deref(al.Type()).Underlying().(*types.Basic); !isBasic {
					continue // result slices etc. are shared on purpose
				}
				n++
				key := fmt.Sprintf("%s › per-block visitor state %q is fresh for every block", name, al.Comment)
				fresh := inner.body[al.Block()]
				if !fresh {
					// or re-initialised in the loop body on every path before the visit call
					reinit := func(x ssa.Instruction) bool {
						st, isSt := x.(*ssa.Store)
						return isSt && st.Addr == ssa.Value(al)
					}
					if p := cycleAvoiding(inner, reinit); p == nil {
						fresh = true
					}
				}
				r.Check(fresh, rule, key, w.InstrPos(in), "allocated or re-initialised inside the loop body", "the counter/flag the per-block visitor keeps is shared across blocks and not reset in every iteration: a block that ends early (the partial last block, or a visitor that stops) leaves it non-zero and the next block stops early or runs on — items are skipped or repeated depending on the block order")
			}
		})
	}
	// Len: counts every visited item and never stops the visit
	if fn := w.Fn("(*Collection).Len"); fn != nil && len(fn.AnonFuncs) == 1 {
		cl := fn.AnonFuncs[0]
		okInc, okTrue := false, true
		eachInstr(cl, func(in ssa.Instruction) {
			if st, isSt := in.(*ssa.Store); isSt {
				if b, isB := st.Val.(*ssa.BinOp); isB && b.Op == token.ADD {
					if k, isK := constInt(b.Y); isK && k == 1 {
						okInc = true
					}
				}
			}
			if ret, isRet := in.(*ssa.Return); isRet {
				if k, isK := ret.Results[0].(*ssa.Const); !isK || k.Value == nil || k.Value.Kind() != constant.Bool || !constant.BoolVal(k.Value) {
					okTrue = false
				}
			}
		})
		n++
		r.Check(okInc && okTrue, rule, "(*Collection).Len › counts every visited item and never stops the visit", w.Pos(cl.Pos()), "l++; return true", "Len's visitor does not add one per item, or can stop the visit early")
		// and it visits ascending from the smallest key, key-only
		okVisit := false
		eachInstr(fn, func(in ssa.Instruction) {
			if c, isC := in.(*ssa.Call); isC && staticCalleeName(c) == "(*Collection).VisitItemsAscendEx" {
				_, fromMin := isLoadOfField(c.Common().Args[1], "Item", "Key")
				if fromMin {
					if mc := callOfValue(mustItemBase(c.Common().Args[1])); mc != nil && staticCalleeName(mc) == "(*Collection).MinItem" {
						okVisit = true
					}
				}
			}
		})
		r.Check(okVisit, rule, "(*Collection).Len › ascending visit from the smallest key", w.Pos(fn.Pos()), "VisitItemsAscendEx(MinItem().Key, …)", "Len does not visit from the smallest key on")
	}
	r.Floor(rule, 3)
}

func mustItemBase(v ssa.Value) ssa.Value {
	b, _ := isLoadOfField(v, "Item", "Key")
	return b
}

// P2: tree traversals start only from a version obtained through a pin (or one being
// constructed / released): nobody reads `.root` of a version it does not hold.
func ruleP2(w *World, r *Report) {
	const rule = "P2"
	n := 0
	for _, fn := range w.Funcs {
		if !w.InLib(fn) {
			continue
		}
		eachInstr(fn, func(in ssa.Instruction) {
			ld, ok := in.(*ssa.UnOp)
			if !ok || ld.Op != token.MUL {
				return
			}
			base, ok := isFieldAddr(ld.X, "rootNodeLoc", "root")
			if !ok {
				return
			}
			n++
			key := fmt.Sprintf("%s › version root handle#%d taken from a held version", w.Name(fn), n)
			okHeld := false
			why := ""
			switch b := base.(type) {
			case *ssa.Call:
				switch staticCalleeName(b) {
				case "(*Collection).rootAddRef", "(*Collection).mkRootNodeLoc":
					okHeld, why = true, "result of "+staticCalleeName(b)
				}
			case *ssa.Parameter:
				okHeld, why = true, "version handed in by a caller that holds it"
			case *ssa.Lookup:
				// Flush: rnls[name] — the pin map
				okHeld, why = true, "element of the pin map"
			case *ssa.UnOp:
				// closeCollection: r := t.root read under the lock, about to be released by this handle
				if _, isRoot := isLoadOfField(b, "Collection", "root"); isRoot && w.Locks().MustHeld(b)["Collection.rootLock"] {
					okHeld, why = true, "the handle's own reference, read under the lock"
				}
			case *ssa.Phi, *ssa.Alloc:
				okHeld, why = true, "local"
			}
			r.Check(okHeld, rule, key, w.InstrPos(in), why, "the tree handle of a version is read without that version being pinned by (or handed to) this function: a concurrent release can recycle its nodes under the reader")
		})
	}
	r.Floor(rule, 10)
}

// F6: the allocator hands out fully initialised objects (nothing of a recycled object's
// former life leaks into its new one).
func ruleF6(w *World, r *Report) {
	const rule = "F6"
	want := map[string][]string{
		"(*Collection).mkNode":        {"numNodes", "numBytes", "next"},
		"(*Collection).mkNodeLoc":     {"loc", "node", "next"},
		"(*Collection).mkRootNodeLoc": {"refs", "root", "next", "chainedCollection", "chainedRootNodeLoc"},
	}
	for name, fields := range want {
		fn := w.Fn(name)
		if fn == nil {
			r.Unknown(rule, "anchor "+name, "-", "test-pinned allocator not found")
			continue
		}
		set := map[string]bool{}
		collect := func(g *ssa.Function, only map[string]bool) {
			if g == nil {
				return
			}
			eachInstr(g, func(in ssa.Instruction) {
				if st, ok := in.(*ssa.Store); ok {
					if fa, ok := st.Addr.(*ssa.FieldAddr); ok {
						if _, _, f, ok := fieldOf(fa); ok && (only == nil || only[f]) {
							set[f] = true
						}
					}
				}
				if c, ok := in.(*ssa.Call); ok && strings.HasSuffix(staticCalleeName(c), ".Copy") {
					if fa, ok := c.Common().Args[0].(*ssa.FieldAddr); ok {
						if _, _, f, ok := fieldOf(fa); ok && (only == nil || only[f]) {
							set[f] = true
						}
					}
				}
			})
		}
		collect(fn, nil)
		// fields that carry no new content may equally be wiped by the matching free routine
		// (the repo does both, defensively): chain links of a version handle, the cached
		// location of a node handle
		freeOf := map[string]string{"(*Collection).mkNodeLoc": "(*Collection).freeNodeLoc", "(*Collection).mkRootNodeLoc": "(*Collection).freeRootNodeLoc"}
		collect(w.Fn(freeOf[name]), map[string]bool{"chainedCollection": true, "chainedRootNodeLoc": true, "loc": true})
		var missing []string
		all := append([]string{}, fields...)
		if name == "(*Collection).mkNode" {
			all = append(all, "item", "left", "right")
		}
		for _, f := range all {
			if !set[f] {
				missing = append(missing, f)
			}
		}
		r.Check(len(missing) == 0, rule, name+" › initialises every field of the object it hands out", w.Pos(fn.Pos()), strings.Join(all, ", ")+" all (re)assigned", fmt.Sprintf("a recycled object keeps its former %v: state of a dead version (or another store) leaks into the new object", missing))
	}
	// the reclaimLater slots of a recycled version handle are cleared
	if fn := w.Fn("(*Collection).mkRootNodeLoc"); fn != nil {
		ok := false
		eachInstr(fn, func(in ssa.Instruction) {
			if st, isSt := in.(*ssa.Store); isSt && isNilConst(st.Val) {
				if ia, isIA := st.Addr.(*ssa.IndexAddr); isIA {
					if _, isRL := isFieldAddr(ia.X, "rootNodeLoc", "reclaimLater"); isRL {
						ok = true
					}
				}
			}
		})
		r.Check(ok, rule, "(*Collection).mkRootNodeLoc › clears reclaimLater", w.Pos(fn.Pos()), "every slot set to nil", "a recycled version handle keeps the reclaimLater nodes of its former life")
	}
	// MakePrivateCollection: a new collection starts as an empty tree with one reference and its own lock
	if fn := w.Fn("(*Store).MakePrivateCollection"); fn != nil {
		okRefs, okRoot, okLock := false, false, false
		eachInstr(fn, func(in ssa.Instruction) {
			if st, _, ok := isStoreToField(in, "rootNodeLoc", "refs"); ok {
				if k, isK := constInt(st.Val); isK && k == 1 {
					okRefs = true
				}
			}
			if st, _, ok := isStoreToField(in, "rootNodeLoc", "root"); ok {
				if g, isG := st.Val.(*ssa.Global); isG && g.Name() == "emptyNodeLoc" {
					okRoot = true
				}
			}
			if st, _, ok := isStoreToField(in, "Collection", "rootLock"); ok {
				if _, isAl := st.Val.(*ssa.Alloc); isAl {
					okLock = true
				}
			}
		})
		r.Check(okRefs && okRoot && okLock, "M6", "(*Store).MakePrivateCollection › new collection = empty tree, one reference, own lock", w.Pos(fn.Pos()), "root: &rootNodeLoc{refs: 1, root: &emptyNodeLoc}, rootLock: &sync.Mutex{}", "a newly created collection does not start as the empty tree with exactly one reference and a lock of its own")
	}
}

// O6r: on open, each decoded collection gets exactly the root location that was recorded
// for it, as its initial version, and the decoded map is installed with names and store.
func ruleO6r(w *World, r *Report) {
	const rule = "O6r"
	fn := w.Fn("(*Collection).UnmarshalJSON")
	if fn == nil {
		r.Unknown(rule, "anchor (*Collection).UnmarshalJSON", "-", "not found")
		return
	}
	var plocCell *ssa.Alloc
	okDecode, okLoc, okPub := false, false, false
	eachInstr(fn, func(in ssa.Instruction) {
		if c, ok := in.(*ssa.Call); ok && c.Common().StaticCallee() != nil && c.Common().StaticCallee().String() == "encoding/json.Unmarshal" {
			if mi, isMI := c.Common().Args[1].(*ssa.MakeInterface); isMI {
				if al, isAl := mi.X.(*ssa.Alloc); isAl && isLibType(al.Type(), "ploc") {
					plocCell, okDecode = al, c.Common().Args[0] == ssa.Value(fn.Params[1])
				}
			}
		}
	})
	eachInstr(fn, func(in ssa.Instruction) {
		if st, base, ok := isStoreToField(in, "nodeLoc", "loc"); ok && plocCell != nil && st.Val == ssa.Value(plocCell) {
			if c := callOfValue(base); c != nil && staticCalleeName(c) == "(*Collection).mkNodeLoc" {
				okLoc = true
				// published as the initial version
				eachInstr(fn, func(x ssa.Instruction) {
					if cc, ok := x.(*ssa.Call); ok && staticCalleeName(cc) == "(*Collection).rootCAS" && isNilConst(cc.Common().Args[1]) {
						if mr := callOfValue(cc.Common().Args[2]); mr != nil && staticCalleeName(mr) == "(*Collection).mkRootNodeLoc" && mr.Common().Args[1] == ssa.Value(c) {
							okPub = true
						}
					}
				})
			}
		}
	})
	r.Check(okDecode && okLoc && okPub, rule, "(*Collection).UnmarshalJSON › initial version = the decoded root location", w.Pos(fn.Pos()), "json → ploc → fresh handle.loc → rootCAS(nil, version)", "the collection decoded on open does not get exactly the recorded root location as its initial version")
	// the loader names and binds every decoded collection before installing the map
	var loader *ssa.Function
	for _, cb := range w.G.Callbacks {
		if cb.Desc == "KeyCompareForCollection" {
			loader = cb.Fn
		}
	}
	if loader != nil {
		okName, okStore := false, false
		eachInstr(loader, func(in ssa.Instruction) {
			if st, _, ok := isStoreToField(in, "Collection", "name"); ok {
				if ex, isEx := st.Val.(*ssa.Extract); isEx && ex.Index == 1 {
					okName = true
				}
			}
			if st, _, ok := isStoreToField(in, "Collection", "store"); ok && st.Val == ssa.Value(loader.Params[0]) {
				okStore = true
			}
		})
		r.Check(okName && okStore, rule, w.Name(loader)+" › decoded collections get their name and store", w.Pos(loader.Pos()), "t.name = key of the JSON map; t.store = s", "a decoded collection is installed without its name or its store")
	}
}

// E4: the pointer result of a fallible call is not dereferenced on a path where the
// call's error may be non-nil.
func ruleE4(w *World, r *Report) {
	const rule = "E4"
	n := 0
	for _, fn := range w.Funcs {
		if !w.InLib(fn) || len(w.entriesReaching(fn)) == 0 {
			continue
		}
		for _, fc := range w.fallibleCalls(fn) {
			call, ok := fc.Call.(*ssa.Call)
			if !ok || fc.ErrIdx < 1 {
				continue
			}
			ptr := tupleExtract(call, 0)
			if ptr == nil {
				continue
			}
			if _, isPtr := ptr.Type().Underlying().(*types.Pointer); !isPtr {
				continue
			}
			e := fc.errValue()
			n++
			key := fc.key(w) + " › result used only on the success path"
			if e == nil {
				if ok2, why := w.cachedReRead(fc); ok2 {
					r.OK(rule, key, w.InstrPos(call), why)
				}
				continue // E1 reports the discarded error itself
			}
			var bad ssa.Instruction
			if refs := ptr.Referrers(); refs != nil {
				for _, rf := range *refs {
					var derefs bool
					switch x := rf.(type) {
					case *ssa.FieldAddr:
						derefs = x.X == ptr
					case *ssa.UnOp:
						derefs = x.Op == token.MUL && x.X == ptr
					}
					if !derefs {
						continue
					}
					okGuard := knownNonNil(rf.Block(), ptr)
					for _, g := range guardsOf(rf.Block()) {
						if x, isNil, ok := g.nilFact(); ok && x == e && isNil {
							okGuard = true
						}
					}
					if !okGuard {
						bad = rf
					}
				}
			}
			if bad != nil {
				r.Bad(rule, key, w.InstrPos(bad), "the pointer result of "+fc.Callee+" is dereferenced where its error is not known to be nil: on a file error this panics (or uses a half-built object) instead of reporting the error")
			} else {
				r.OK(rule, key, w.InstrPos(call), "every dereference is dominated by err == nil (or a nil check of the result)")
			}
		}
	}
	r.Floor(rule, 20)
}

package main

// C16 — whole-collection enumerations.  Decided clause N1 only (DESIGN §4 C16): the
// pointer results of getters that may return (nil, nil) — "no item" is a legitimate
// answer for an empty collection / absent key — are nil-checked before any field access.

import (
	"fmt"

	"golang.org/x/tools/go/ssa"
)

// mayNilNil: fn returns (*Item, error) and has a return of a nil item with a possibly
// nil error, or passes through such a function.
func (w *World) mayNilNilGetters() map[*ssa.Function]string {
	if v, ok := w.cache["mayNilNil"]; ok {
		return v.(map[*ssa.Function]string)
	}
	m := map[*ssa.Function]string{}
	cand := func(fn *ssa.Function) bool {
		res := fn.Signature.Results()
		return w.InLib(fn) && res.Len() == 2 && isLibType(res.At(0).Type(), "Item") && isErrorType(res.At(1).Type())
	}
	changed := true
	for changed {
		changed = false
		for _, fn := range w.Funcs {
			if !cand(fn) || m[fn] != "" {
				continue
			}
			// item getters proper: exported ones, and what they pass through
			why := ""
			wk := &Walker{Fn: fn}
			wk.OnInstr = func(env *Env, in ssa.Instruction, trail []*ssa.BasicBlock) bool {
				ret, ok := in.(*ssa.Return)
				if !ok {
					return false
				}
				item, errv := env.Resolve(ret.Results[0]), env.Resolve(ret.Results[1])
				if isNilConst(item) && (isNilConst(errv) || (!isNonNilErrorValue(errv) && !knownNonNil(in.Block(), errv))) {
					why = "return of (nil, possibly-nil error) at " + w.InstrPos(ret)
				}
				if ex, ok := item.(*ssa.Extract); ok {
					if c, ok := ex.Tuple.(*ssa.Call); ok {
						if f := c.Common().StaticCallee(); f != nil && m[f] != "" {
							why = "passes through " + w.Name(f)
						}
					}
				}
				return true
			}
			wk.Run(nil, nil)
			if why != "" {
				m[fn] = why
				changed = true
			}
		}
	}
	// keep the API-level getters: exported, or passed through by an exported getter.
	// (itemLoc.read also answers (nil, nil), but only for a handle that is neither cached
	// nor persisted, which the tree invariant excludes; its callers rely on that.)
	keep := map[*ssa.Function]string{}
	for fn, why := range m {
		if isExportedName(fn.Name()) {
			keep[fn] = why
		}
	}
	for changedK := true; changedK; {
		changedK = false
		for fn := range keep {
			eachInstr(fn, func(in ssa.Instruction) {
				if ret, ok := in.(*ssa.Return); ok {
					if ex, ok := ret.Results[0].(*ssa.Extract); ok {
						if c, ok := ex.Tuple.(*ssa.Call); ok {
							if f := c.Common().StaticCallee(); f != nil && m[f] != "" && keep[f] == "" {
								keep[f] = m[f]
								changedK = true
							}
						}
					}
				}
			})
		}
	}
	w.cache["mayNilNil"] = keep
	return keep
}

func ruleN1(w *World, r *Report) {
	const rule = "N1"
	getters := w.mayNilNilGetters()
	var names []string
	for f, why := range getters {
		names = append(names, w.Name(f)+": "+why)
	}
	r.Info["may_return_nil_nil"] = names
	for _, fn := range w.Funcs {
		if !w.InLib(fn) || len(w.entriesReaching(fn)) == 0 {
			continue
		}
		ord := map[string]int{}
		eachInstr(fn, func(in ssa.Instruction) {
			call, ok := in.(*ssa.Call)
			if !ok {
				return
			}
			f := call.Common().StaticCallee()
			if f == nil || getters[f] == "" {
				return
			}
			key := ordKey(ord, w.Name(fn), w.Name(f)) + " › result nil-checked before use"
			item := tupleExtract(call, 0)
			if item == nil {
				r.OK(rule, key, w.InstrPos(in), "item result unused")
				return
			}
			bad := w.uncheckedDeref(item, map[ssa.Value]bool{})
			if bad != nil {
				r.Bad(rule, key, w.InstrPos(in), fmt.Sprintf("%s may return (nil, nil) — e.g. on an empty collection — and its result is dereferenced at %s without a nil check", w.Name(f), w.InstrPos(bad)))
			} else {
				r.OK(rule, key, w.InstrPos(in), "every field access of the result is dominated by a != nil test (or the result is only compared / passed on)")
			}
		})
	}
	r.Floor(rule, 8)
}

// uncheckedDeref: first instruction dereferencing v (field access, load) in a block where
// v is not known non-nil.
func (w *World) uncheckedDeref(v ssa.Value, seen map[ssa.Value]bool) ssa.Instruction {
	if seen[v] {
		return nil
	}
	seen[v] = true
	refs := v.Referrers()
	if refs == nil {
		return nil
	}
	for _, rf := range *refs {
		switch x := rf.(type) {
		case *ssa.FieldAddr:
			if x.X == v && !knownNonNil(x.Block(), v) {
				return x
			}
		case *ssa.UnOp:
			if x.X == v && !knownNonNil(x.Block(), v) {
				return x
			}
		case *ssa.Phi:
			// the φ may be nil whenever v may: its dereferences need their own test
			if bad := w.uncheckedDerefPhi(x, v, seen); bad != nil {
				return bad
			}
		case *ssa.Store:
			// stored into a local cell (named result / captured variable): follow loads
			if x.Val == v {
				if al, ok := x.Addr.(*ssa.Alloc); ok {
					if lr := al.Referrers(); lr != nil {
						for _, u := range *lr {
							if ld, ok := u.(*ssa.UnOp); ok && ld.X == al {
								if bad := w.uncheckedDeref(ld, seen); bad != nil {
									return bad
								}
							}
						}
					}
				}
			}
		}
	}
	return nil
}

func (w *World) uncheckedDerefPhi(ph *ssa.Phi, from ssa.Value, seen map[ssa.Value]bool) ssa.Instruction {
	return w.uncheckedDeref(ph, seen)
}

func init() {
	register(&Property{
		ID:    "C16",
		Level: "other",
		Rules: []Rule{{"N1", ruleN1}, {"B1", ruleB1}, {"B2", ruleB2}, {"B3", ruleB3}, {"B4", ruleB4}, {"B5", ruleB5}, {"B6", ruleB6}, {"V2", ruleV2}},
		Explanation: "Decides only the structural clause 'Len() and the block visits work on an empty collection': the item results of the API-level getters whose summary (computed from their returns) says they may answer (nil, nil) — GetItem, MinItem, MaxItem and the walk they pass through — are compared with nil on every path before any field access, at every call site in the library. NOT decided, and not decidable by a sound static rule in reach: that every item is presented exactly once for every size and block permutation (the block arithmetic over run-time counts; see DESIGN §5 D5 for a confirmed duplicate visit of VisitItemsRandom that no rule here can see).",
		Assumptions: []string{"itemLoc.read answers (nil,nil) only for a handle that is neither cached nor persisted, which the tree invariant excludes (its callers are not constrained by N1)"},
		ControlSrc:  controlC16,
		Expect:      []Expect{{"N1", "ZzCtlFirstKey"}},
	})
}

const controlC16 = `package gkvlite

// positive control for C16 (never part of /repo)
func (t *Collection) ZzCtlFirstKey() ([]byte, error) {
	i, err := t.MinItem(false)
	if err != nil {
		return nil, err
	}
	defer t.store.ItemDecRef(t, i)
	return i.Key, nil
}
`

package main

// C06 — range visits (DESIGN §4 C06): V1 sign tables of the choice functions, V2 in-order
// visit skeleton with early stop, V3 delivered item read with the caller's value mode,
// V4 depth arithmetic, V5 wrapper transparency, V6 order guard transparency.

import (
	"fmt"
	"go/token"
	"strings"

	"golang.org/x/tools/go/ssa"
)

// signTable evaluates a comparison of v against 0 for v in {-,0,+}.
func signTable(c ssa.Value, v ssa.Value) (tbl [3]bool, ok bool) {
	neg := false
	for {
		if u, isU := c.(*ssa.UnOp); isU && u.Op == token.NOT {
			c, neg = u.X, !neg
			continue
		}
		break
	}
	b, isB := c.(*ssa.BinOp)
	if !isB {
		return tbl, false
	}
	op := b.Op
	var k int64
	switch {
	case b.X == v:
		kk, isK := constInt(b.Y)
		if !isK {
			return tbl, false
		}
		k = kk
	case b.Y == v:
		kk, isK := constInt(b.X)
		if !isK {
			return tbl, false
		}
		k = kk
		switch op {
		case token.LSS:
			op = token.GTR
		case token.LEQ:
			op = token.GEQ
		case token.GTR:
			op = token.LSS
		case token.GEQ:
			op = token.LEQ
		}
	default:
		return tbl, false
	}
	for i, s := range []int64{-1, 0, 1} {
		var r bool
		switch op {
		case token.LSS:
			r = s < k
		case token.LEQ:
			r = s <= k
		case token.GTR:
			r = s > k
		case token.GEQ:
			r = s >= k
		case token.EQL:
			r = s == k
		case token.NEQ:
			r = s != k
		default:
			return tbl, false
		}
		tbl[i] = r != neg
	}
	// only meaningful when compared with 0 (or ±1 thresholds that are equivalent on signs)
	return tbl, k >= -1 && k <= 1
}

func tblString(t [3]bool) string {
	var s []string
	for i, n := range []string{"-", "0", "+"} {
		if t[i] {
			s = append(s, n)
		}
	}
	return "{" + strings.Join(s, ",") + "}"
}

// recursive visitor: the library function that is recursive, takes a visitor callback and
// a choice function.
func (w *World) recursiveVisitor() *ssa.Function {
	for _, fn := range w.Funcs {
		if !w.InLib(fn) || !callsFn(fn, fn) {
			continue
		}
		hasVisitor, hasChoice := false, false
		for _, cb := range w.G.CbIn[fn] {
			if cb.Kind == "visitor" {
				hasVisitor = true
			}
			if cb.Kind == "internal" {
				hasChoice = true
			}
		}
		if hasVisitor && hasChoice {
			return fn
		}
	}
	return nil
}

func childField(v ssa.Value) string {
	if _, ok := isFieldAddr(v, "node", "left"); ok {
		return "left"
	}
	if _, ok := isFieldAddr(v, "node", "right"); ok {
		return "right"
	}
	return "?"
}

func ruleV1(w *World, r *Report) {
	const rule = "V1"
	rv := w.recursiveVisitor()
	if rv == nil {
		r.Unknown(rule, "recursive visitor", "-", "no recursive library function with a visitor callback and a choice function found")
		return
	}
	spec := map[string]struct {
		deliver   [3]bool
		near, far string
		meaning   string
	}{
		"(*Collection).VisitItemsAscendEx":  {[3]bool{true, true, false}, "left", "right", "key >= target, ascending"},
		"(*Collection).VisitItemsDescendEx": {[3]bool{false, false, true}, "right", "left", "key < target, descending"},
	}
	for api, sp := range spec {
		fn := w.Fn(api)
		if fn == nil {
			r.Unknown(rule, "anchor "+api, "-", "exported API not found")
			continue
		}
		var choice *ssa.Function
		var call *ssa.Call
		eachInstr(fn, func(in ssa.Instruction) {
			if c, ok := in.(*ssa.Call); ok && c.Common().StaticCallee() == rv {
				call = c
				for _, a := range c.Common().Args {
					if f, ok := a.(*ssa.Function); ok {
						choice = f
					}
				}
			}
		})
		if call == nil || choice == nil {
			r.Bad(rule, api+" › passes a choice function to the recursive visitor", w.Pos(fn.Pos()), "the API does not call the recursive visitor with a choice function")
			continue
		}
		// the choice function: single return (deliver, near, far)
		var ret *ssa.Return
		nret := 0
		eachInstr(choice, func(in ssa.Instruction) {
			if rt, ok := in.(*ssa.Return); ok {
				ret = rt
				nret++
			}
		})
		key := fmt.Sprintf("%s › choice %s", api, w.Name(choice))
		if nret != 1 || len(ret.Results) != 3 || len(choice.Params) != 2 {
			r.Unknown(rule, key, w.Pos(choice.Pos()), "choice function is not of the single-return (deliver, near, far) shape")
			continue
		}
		tbl, ok := signTable(ret.Results[0], choice.Params[0])
		if !ok {
			r.Unknown(rule, key, w.Pos(choice.Pos()), "deliver condition is not a comparison of the comparator result with zero")
			continue
		}
		near, far := childField(ret.Results[1]), childField(ret.Results[2])
		if tbl == sp.deliver && near == sp.near && far == sp.far {
			r.OK(rule, key, w.Pos(choice.Pos()), fmt.Sprintf("delivers for compare(target,key) in %s, explores %s then %s: %s", tblString(tbl), near, far, sp.meaning))
		} else {
			r.Bad(rule, key, w.Pos(choice.Pos()), fmt.Sprintf("sign table differs: delivers for compare(target,key) in %s (spec %s), near=%s far=%s (spec %s,%s) — spec: %s", tblString(tbl), tblString(sp.deliver), near, far, sp.near, sp.far, sp.meaning))
		}
		// entry call: pinned root, own target / withValue, the user's visitor (possibly wrapped), depth 0
		a := call.Common().Args
		// (o, t, n, target, withValue, visitor, depth, choice)
		okEntry := len(a) == 8
		why := ""
		if okEntry {
			if _, isRoot := isLoadOfField(a[2], "rootNodeLoc", "root"); !isRoot {
				okEntry, why = false, "the visit does not start at the pinned version's root"
			} else if c := callOfValue(mustLoadBase(a[2])); c == nil || staticCalleeName(c) != "(*Collection).rootAddRef" {
				okEntry, why = false, "the root visited is not the one pinned by rootAddRef"
			}
			if a[3] != ssa.Value(fn.Params[1]) {
				okEntry, why = false, "the target handed to the visit is not the caller's target"
			}
			if a[4] != ssa.Value(fn.Params[2]) {
				okEntry, why = false, "the value mode handed to the visit is not the caller's withValue"
			}
			if k, isK := constInt(a[6]); !isK || k != 0 {
				okEntry, why = false, "the visit does not start at depth 0"
			}
		}
		r.Check(okEntry, rule, api+" › entry call (pinned root, own target/withValue, depth 0)", w.InstrPos(call), "visitNodes(pinned.root, target, withValue, visitor, 0, choice)", why)
	}
	// comparator argument order inside the recursive visitor: compare(target, item key)
	n := 0
	for _, cb := range w.G.CbIn[rv] {
		if cb.Kind != "comparator" {
			continue
		}
		n++
		a := cb.Instr.Common().Args
		okOrder := len(a) == 2 && isParamNamed(a[0], rv, "[]byte") && isKeyLoad(a[1])
		r.Check(okOrder, rule, fmt.Sprintf("%s › comparator#%d called as compare(target, item.Key)", w.Name(rv), n), w.InstrPos(cb.Instr), "target first, item key second", "the comparator is called with its arguments swapped (or not on the item's key): the range is mirrored")
	}
	// the sign handed to the choice function is the comparator's verdict on every path: the
	// range is defined by the collection's own order, for every target (empty ones included)
	k := 0
	eachInstr(rv, func(in ssa.Instruction) {
		c, ok := in.(*ssa.Call)
		if !ok || c.Common().IsInvoke() {
			return
		}
		p, isP := c.Common().Value.(*ssa.Parameter)
		if !isP || p.Parent() != rv || len(c.Common().Args) != 2 || c.Common().Args[0].Type().String() != "int" {
			return
		}
		k++
		src := callOfValue(stripConv(c.Common().Args[0]))
		okSrc := false
		if src != nil {
			for _, cb := range w.G.CbIn[rv] {
				if cb.Kind == "comparator" && cb.Instr == ssa.CallInstruction(src) {
					okSrc = true
				}
			}
		}
		r.Check(okSrc, rule, fmt.Sprintf("%s › choice call#%d is driven by the comparator", w.Name(rv), k), w.InstrPos(in), "choiceFunc(compare(target, item.Key), node)", "the sign given to the choice function is not the comparator's result on every path (a constant or a short cut for some targets): under a custom comparator the delivered range is wrong for those targets")
	})
	r.Floor(rule, 5)
}

func mustLoadBase(v ssa.Value) ssa.Value {
	b, _ := isLoadOfField(v, "rootNodeLoc", "root")
	return b
}

func isParamNamed(v ssa.Value, fn *ssa.Function, typ string) bool {
	p, ok := v.(*ssa.Parameter)
	return ok && p.Parent() == fn && p.Type().String() == typ
}

func isKeyLoad(v ssa.Value) bool {
	_, ok := isLoadOfField(v, "Item", "Key")
	return ok
}

// V2–V4 on the recursive visitor.
func ruleV2(w *World, r *Report) {
	const rule = "V2"
	rv := w.recursiveVisitor()
	if rv == nil {
		r.Unknown(rule, "recursive visitor", "-", "not found")
		return
	}
	// roles inside rv
	var choiceCalls []*ssa.Call
	var visitorCalls []*ssa.Call
	var recCalls []*ssa.Call
	var depthParam, withValueParam *ssa.Parameter
	for _, p := range rv.Params {
		if p.Type().String() == "uint64" {
			depthParam = p
		}
		if p.Type().String() == "bool" {
			withValueParam = p
		}
	}
	eachInstr(rv, func(in ssa.Instruction) {
		c, ok := in.(*ssa.Call)
		if !ok {
			return
		}
		if c.Common().StaticCallee() == rv {
			recCalls = append(recCalls, c)
			return
		}
		for _, cb := range w.G.CbIn[rv] {
			if cb.Instr == ssa.CallInstruction(c) {
				switch cb.Kind {
				case "visitor":
					visitorCalls = append(visitorCalls, c)
				case "internal":
					choiceCalls = append(choiceCalls, c)
				}
			}
		}
	})
	if len(choiceCalls) == 0 || len(visitorCalls) == 0 || len(recCalls) == 0 {
		r.Unknown(rule, w.Name(rv)+" › skeleton roles", w.Pos(rv.Pos()), "choice / visitor / recursive calls not all found")
		return
	}
	isChoiceResult := func(v ssa.Value, idx int) bool {
		ex, ok := v.(*ssa.Extract)
		if !ok || ex.Index != idx {
			return false
		}
		for _, c := range choiceCalls {
			if ex.Tuple == ssa.Value(c) {
				return true
			}
		}
		return false
	}
	kindOfRec := func(env *Env, c *ssa.Call) string {
		arg := env.Resolve(c.Common().Args[2])
		switch {
		case isChoiceResult(arg, 1):
			return "near"
		case isChoiceResult(arg, 2):
			return "far"
		}
		if ph, ok := arg.(*ssa.Phi); ok {
			all := true
			for _, e := range ph.Edges {
				if !isChoiceResult(e, 2) && !isNilConst(e) {
					all = false
				}
			}
			if all {
				return "far"
			}
		}
		return "?"
	}
	var bad string
	var badAt ssa.Instruction
	fail := func(m string, in ssa.Instruction) {
		if bad == "" {
			bad, badAt = m, in
		}
	}
	wk := &Walker{Fn: rv}
	wk.OnInstr = func(env *Env, in ssa.Instruction, trail []*ssa.BasicBlock) bool {
		fl := env.flags
		if c, ok := in.(*ssa.Call); ok {
			for _, rc := range recCalls {
				if rc != c {
					continue
				}
				switch kindOfRec(env, c) {
				case "near":
					if !fl["deliver"] || fl["near"] || fl["visited"] || fl["far"] || fl["stop"] {
						fail("the near-subtree recursion happens out of place (not once, first, on the delivering arm)", in)
					}
					fl["near"] = true
					fl["lastnear:"+c.Name()] = true
				case "far":
					if fl["stop"] {
						fail("the far subtree is explored although the visit was told to stop", in)
					}
					if fl["deliver"] && !(fl["near"] && fl["visited"]) {
						fail("on the delivering arm the far subtree is explored before the near subtree and the item itself (order broken)", in)
					}
					if fl["deliver"] && !fl["ansOK"] {
						fail("the far subtree is explored without testing the visitor's answer: visiting does not stop when the visitor returns false", in)
					}
					if fl["far"] {
						fail("the far subtree is explored twice", in)
					}
					fl["far"] = true
				default:
					fail("a recursive call visits a subtree that is neither the near nor the far result of the choice function", in)
				}
			}
			for _, vc := range visitorCalls {
				if vc == c {
					if !fl["deliver"] {
						fail("the item is delivered on the non-delivering arm of the choice", in)
					}
					if !fl["near"] {
						fail("the item is delivered before its near subtree (order broken)", in)
					}
					if fl["visited"] {
						fail("the item is delivered twice", in)
					}
					if fl["stop"] {
						fail("the item is delivered although the visit was told to stop", in)
					}
					if !fl["kgOK"] {
						fail("the item is delivered without testing the keep-going answer of the near-subtree visit: a stop requested deeper in the tree is ignored", in)
					}
					fl["visited"] = true
				}
			}
		}
		if ret, ok := in.(*ssa.Return); ok {
			if in.Block().Comment == "recover" || fl["err"] {
				return true
			}
			if !fl["stop"] && !fl["empty"] && !fl["far"] {
				fail("a non-stopping, non-error return is reachable without exploring the far subtree (items beyond this node are skipped)", in)
			}
			if fl["stop"] {
				// must report keepGoing == false
				v := env.Resolve(ret.Results[0])
				if k, isK := v.(*ssa.Const); !isK || k.Value == nil || k.Value.String() != "false" {
					fail("after a stop the function does not return keepGoing=false: the caller continues visiting", in)
				}
			}
			return true
		}
		if _, ok := in.(*ssa.Panic); ok {
			return true
		}
		return false
	}
	wk.Branch = func(env *Env, ifi *ssa.If) (bool, bool) {
		if k, ok := ifi.Cond.(*ssa.Const); ok && k.Value != nil {
			t := k.Value.String() == "true"
			return t, !t
		}
		return true, true
	}
	wk.OnEdge = func(env *Env, from, to *ssa.BasicBlock, idx int) bool {
		ifi, ok := from.Instrs[len(from.Instrs)-1].(*ssa.If)
		if !ok {
			return false
		}
		c, pol := Guard{Cond: ifi.Cond, Pol: idx == 0}.atom()
		// error arm
		if x, trueMeansNil, isNil := nilTest(ifi.Cond); isNil && isErrorType(x.Type()) {
			if (idx == 0) != trueMeansNil {
				env.flags["err"] = true
			}
			return false
		}
		// empty subtree arm: isEmpty() true or node == nil
		if call, isC := c.(*ssa.Call); isC && strings.HasSuffix(staticCalleeName(call), ".isEmpty") && pol {
			env.flags["empty"] = true
		}
		if x, trueMeansNil, isNil := nilTest(ifi.Cond); isNil && isLibType(x.Type(), "node") && (idx == 0) == trueMeansNil {
			env.flags["empty"] = true
		}
		// choice
		if isChoiceResult(c, 0) {
			env.flags["deliver"] = pol
		}
		// keepGoing of the near recursion / visitor answer
		if ex, isEx := c.(*ssa.Extract); isEx && ex.Index == 0 {
			for _, rc := range recCalls {
				if ex.Tuple == ssa.Value(rc) {
					if !pol {
						env.flags["stop"] = true
					} else {
						env.flags["kgOK"] = true
					}
				}
			}
		}
		for _, vc := range visitorCalls {
			if c == ssa.Value(vc) {
				if !pol {
					env.flags["stop"] = true
				} else {
					env.flags["ansOK"] = true
				}
			}
		}
		return false
	}
	wk.Run(nil, nil)
	if wk.Truncated {
		r.Unknown(rule, w.Name(rv)+" › in-order skeleton with early stop", w.Pos(rv.Pos()), "state budget exceeded")
	} else if bad != "" {
		r.Bad(rule, w.Name(rv)+" › in-order skeleton with early stop", w.InstrPos(badAt), bad)
	} else {
		r.OK(rule, w.Name(rv)+" › in-order skeleton with early stop", w.Pos(rv.Pos()), "on the delivering arm: near subtree, then the item, then the far subtree; otherwise the far subtree only; a false keep-going or visitor answer leads to return false with nothing further visited")
	}
	// V3: the delivered item
	for i, vc := range visitorCalls {
		key := fmt.Sprintf("%s › visitor#%d receives the item read with the caller's value mode", w.Name(rv), i+1)
		item := vc.Common().Args[0]
		c := callOfValue(item)
		ok := c != nil && staticCalleeName(c) == "(*itemLoc).read" && len(c.Common().Args) == 3 && c.Common().Args[2] == ssa.Value(withValueParam)
		why := "the item handed to the visitor is not the result of an item read whose value-mode argument is this function's own withValue parameter"
		if ok {
			// the handle read is the item slot of the node of this handle n
			h := c.Common().Args[0]
			okH := false
			var chk func(v ssa.Value, d int)
			chk = func(v ssa.Value, d int) {
				if d > 4 {
					return
				}
				if base, isItem := isFieldAddr(v, "node", "item"); isItem {
					if rc := callOfValue(base); rc != nil && staticCalleeName(rc) == "(*nodeLoc).read" && isParamNamed(rc.Common().Args[0], rv, "*"+modPath+".nodeLoc") {
						okH = true
					}
				}
				if ph, isPhi := v.(*ssa.Phi); isPhi {
					all := true
					for _, e := range ph.Edges {
						if isNilConst(e) {
							continue
						}
						okH = false
						chk(e, d+1)
						if !okH {
							all = false
						}
					}
					okH = all
				}
			}
			chk(h, 0)
			if !okH {
				ok, why = false, "the item delivered is not the item of the node being visited"
			}
		}
		r.Check(ok, "V3", key, w.InstrPos(vc), "visitor(item(n).read(withValue), depth)", why)
		// V4
		okD := len(vc.Common().Args) == 2 && vc.Common().Args[1] == ssa.Value(depthParam)
		r.Check(okD, "V4", fmt.Sprintf("%s › visitor#%d receives this node's depth", w.Name(rv), i+1), w.InstrPos(vc), "depth parameter passed through", "the depth handed to the visitor is not this invocation's depth")
	}
	for i, rc := range recCalls {
		d := rc.Common().Args[6]
		b, isB := d.(*ssa.BinOp)
		okD := false
		if isB && b.Op == token.ADD {
			k, isK := constInt(b.Y)
			okD = b.X == ssa.Value(depthParam) && isK && k == 1
		}
		r.Check(okD, "V4", fmt.Sprintf("%s › recursion#%d passes depth+1", w.Name(rv), i+1), w.InstrPos(rc), "depth + 1", "a child is visited with a depth other than depth+1")
		// same target, value mode, visitor, choice
		same := true
		for _, idx := range []int{3, 4, 5, 7} {
			if rc.Common().Args[idx] != ssa.Value(rv.Params[idx]) {
				same = false
			}
		}
		r.Check(same, "V4", fmt.Sprintf("%s › recursion#%d keeps target, value mode, visitor and choice", w.Name(rv), i+1), w.InstrPos(rc), "parameters passed through unchanged", "a recursive call changes the target / value mode / visitor / choice function")
	}
	r.Floor(rule, 1)
}

// V5: wrappers and iterators deliver the identical sequence.
func ruleV5(w *World, r *Report) {
	const rule = "V5"
	type wr struct{ wrapper, target string }
	for _, x := range []wr{{"(*Collection).VisitItemsAscend", "(*Collection).VisitItemsAscendEx"}, {"(*Collection).VisitItemsDescend", "(*Collection).VisitItemsDescendEx"}} {
		fn, tg := w.Fn(x.wrapper), w.Fn(x.target)
		if fn == nil || tg == nil {
			r.Unknown(rule, "anchor "+x.wrapper, "-", "exported API not found")
			continue
		}
		var call *ssa.Call
		n := 0
		eachInstr(fn, func(in ssa.Instruction) {
			if c, ok := in.(*ssa.Call); ok && c.Common().StaticCallee() != nil && w.InLib(c.Common().StaticCallee()) {
				n++
				if c.Common().StaticCallee() == tg {
					call = c
				}
			}
		})
		key := x.wrapper + " › forwards to " + x.target
		if call == nil || n != 1 {
			r.Bad(rule, key, w.Pos(fn.Pos()), "the wrapper does not consist of exactly one call of its Ex variant")
			continue
		}
		a := call.Common().Args
		ok := a[1] == ssa.Value(fn.Params[1]) && a[2] == ssa.Value(fn.Params[2])
		why := "target / withValue are not passed through unchanged"
		// the closure forwards the item and the answer
		vis := a[3]
		if ct, isCT := vis.(*ssa.ChangeType); isCT {
			vis = ct.X
		}
		if mc, isMC := vis.(*ssa.MakeClosure); ok && isMC {
			cl := mc.Fn.(*ssa.Function)
			okCl := false
			eachInstr(cl, func(in ssa.Instruction) {
				if ret, isRet := in.(*ssa.Return); isRet && len(ret.Results) == 1 {
					if c, isC := ret.Results[0].(*ssa.Call); isC && c.Common().StaticCallee() == nil && len(c.Common().Args) == 1 && c.Common().Args[0] == ssa.Value(cl.Params[0]) {
						okCl = true
					}
				}
			})
			if !okCl {
				ok, why = false, "the adapter closure does not return v(i) for the very item it was given"
			}
		} else if ok {
			ok, why = false, "the visitor is not adapted by a closure"
		}
		// the wrapper returns the Ex result
		eachInstr(fn, func(in ssa.Instruction) {
			if ret, isRet := in.(*ssa.Return); isRet && ret.Results[0] != ssa.Value(call) {
				ok, why = false, "the wrapper does not return the Ex variant's error"
			}
		})
		r.Check(ok, rule, key, w.InstrPos(call), "Ex(target, withValue, func(i, depth) bool { return v(i) })", why)
	}
	// iterators: constructor stores its parameters; producer closure visits with them, in the right direction
	for _, x := range []wr{{"(*Collection).IterateAscend", "(*Collection).VisitItemsAscend"}, {"(*Collection).IterateDescend", "(*Collection).VisitItemsDescend"}} {
		ctor := w.Fn(x.wrapper)
		if ctor == nil {
			r.Unknown(rule, "anchor "+x.wrapper, "-", "exported API not found")
			continue
		}
		var entry *ssa.Function
		var mk *ssa.Call
		for _, ff := range family(ctor) {
			eachInstr(ff, func(in ssa.Instruction) {
				if g, ok := in.(*ssa.Go); ok {
					entry = g.Common().StaticCallee()
				}
				if c, ok := in.(*ssa.Call); ok && staticCalleeName(c) == "newIterator" {
					mk = c
				}
			})
		}
		key := x.wrapper + " › visits with its own target/withValue in its own direction"
		if entry == nil || mk == nil {
			r.Bad(rule, key, w.Pos(ctor.Pos()), "constructor does not build an iterator and start a producer")
			continue
		}
		ok := mk.Common().Args[0] == ssa.Value(ctor.Params[1]) && mk.Common().Args[1] == ssa.Value(ctor.Params[2])
		why := "newIterator is not given the caller's target and withValue"
		found := false
		for _, f := range family(entry) {
			eachInstr(f, func(in ssa.Instruction) {
				c, isC := in.(*ssa.Call)
				if !isC || c.Common().StaticCallee() == nil {
					return
				}
				cn := w.Name(c.Common().StaticCallee())
				if cn == x.target {
					found = true
					_, okT := isLoadOfField(c.Common().Args[1], "iterator", "target")
					_, okV := isLoadOfField(c.Common().Args[2], "iterator", "withValue")
					if !okT || !okV {
						ok, why = false, "the producer does not visit with the iterator's stored target / withValue"
					}
				} else if strings.Contains(cn, "VisitItems") && cn != x.target {
					ok, why = false, "the producer of "+x.wrapper+" visits with "+cn
				}
			})
		}
		if !found {
			ok, why = false, "the producer never calls "+x.target
		}
		r.Check(ok, rule, key, w.Pos(ctor.Pos()), "newIterator(target, withValue); producer calls "+x.target+"(it.target, it.withValue, …)", why)
	}
	// newIterator stores its parameters into the fields the producer reads
	if ni := w.Fn("newIterator"); ni != nil {
		okT, okV := false, false
		eachInstr(ni, func(in ssa.Instruction) {
			if st, _, ok := isStoreToField(in, "iterator", "target"); ok && st.Val == ssa.Value(ni.Params[0]) {
				okT = true
			}
			if st, _, ok := isStoreToField(in, "iterator", "withValue"); ok && st.Val == ssa.Value(ni.Params[1]) {
				okV = true
			}
		})
		r.Check(okT && okV, rule, "newIterator › stores target and withValue", w.Pos(ni.Pos()), "it.target = target; it.withValue = withValue", "the iterator does not remember the caller's target / value mode")
	}
	// the item travels unchanged: producer sends its parameter, Next stores what it received, Result returns it
	okSend, okStore, okRes := false, false, false
	for _, op := range w.chanOps() {
		if op.kind == "send" && op.ch == "items" {
			if p, isP := op.in.(*ssa.Send).X.(*ssa.Parameter); isP && p.Parent() == op.fn {
				okSend = true
			}
		}
	}
	if nx := w.Fn("(*iterator).Next"); nx != nil {
		eachInstr(nx, func(in ssa.Instruction) {
			if st, _, ok := isStoreToField(in, "iterator", "result"); ok {
				if ex, isEx := st.Val.(*ssa.Extract); isEx && ex.Index == 0 {
					if u, isU := ex.Tuple.(*ssa.UnOp); isU && u.Op == token.ARROW && chanField(u.X) == "items" {
						okStore = true
					}
				}
			}
		})
	}
	if rs := w.Fn("(*iterator).Result"); rs != nil {
		eachInstr(rs, func(in ssa.Instruction) {
			if ret, isRet := in.(*ssa.Return); isRet {
				if _, ok := isLoadOfField(ret.Results[0], "iterator", "result"); ok {
					okRes = true
				}
			}
		})
	}
	r.Check(okSend && okStore && okRes, rule, "iterator › item passes producer → Next → Result unchanged", "-", "items <- i; result = <-items; Result() = result", "the iterator does not hand the visited item through unchanged")
	// V6: the ascending order guard forwards (i, depth) and the user's answer on its normal path
	if fn := w.Fn("(*Collection).VisitItemsAscendEx"); fn != nil {
		for _, cl := range fn.AnonFuncs {
			ok := false
			eachInstr(cl, func(in ssa.Instruction) {
				if ret, isRet := in.(*ssa.Return); isRet && len(ret.Results) == 1 {
					if c, isC := ret.Results[0].(*ssa.Call); isC && c.Common().StaticCallee() == nil && len(c.Common().Args) == 2 && c.Common().Args[0] == ssa.Value(cl.Params[0]) && c.Common().Args[1] == ssa.Value(cl.Params[1]) {
						ok = true
					}
				}
			})
			r.Check(ok, "V6", w.Name(cl)+" › order guard forwards (item, depth) and the visitor's answer", w.Pos(cl.Pos()), "return visitor(i, depth)", "the checking visitor of VisitItemsAscendEx does not forward the item, depth and answer unchanged")
			// and it fails only on prev > cur under the collection's comparator
			okCmp := false
			for _, cb := range w.G.CbIn[cl] {
				if cb.Kind == "comparator" {
					a := cb.Instr.Common().Args
					if isKeyLoad(a[0]) && isKeyLoad(a[1]) {
						if refs := cb.Instr.(*ssa.Call).Referrers(); refs != nil {
							for _, rf := range *refs {
								if b, isB := rf.(*ssa.BinOp); isB {
									if tbl, ok2 := signTable(b, cb.Instr.(*ssa.Call)); ok2 && tbl == [3]bool{false, false, true} {
										okCmp = true
									}
								}
							}
						}
					}
				}
			}
			r.Check(okCmp, "V6", w.Name(cl)+" › order guard trips only on prev > cur", w.Pos(cl.Pos()), "compare(prev.Key, cur.Key) > 0 ⇒ error", "the out-of-order guard does not test compare(prev, cur) > 0 (equal keys / ascending keys would be rejected, or descending accepted)")
		}
	}
	r.Floor(rule, 6)
}

func init() {
	register(&Property{
		ID:    "C06",
		Level: "other",
		Rules: []Rule{{"V1", ruleV1}, {"V2", ruleV2}, {"V3b", ruleItemReadResult}, {"V5", ruleV5}, {"E1r", ruleE1r}, {"V8", ruleV8}, {"Z4", ruleZ4}, {"S1c", ruleS1c}},
		Explanation: "V1 the choice function each API hands to the recursive visitor is evaluated over the finite sign domain of the comparator result: ascending delivers for compare(target,key) in {-,0} (key >= target) exploring left then right, descending delivers for {+} (key < target) exploring right then left; the comparator is called as compare(target, item.Key); the entry call starts at the pinned root with the caller's target / value mode and depth 0. V2 every path of the recursive visitor is explored with a small typestate: on the delivering arm near subtree → item → far subtree, otherwise far subtree only; a false keep-going or visitor answer leads to `return false` with nothing further visited; no success return skips the far subtree. V3 the delivered item is item(n).read(withValue) with the function's own withValue. V4 depth and parameters are passed through (depth+1 to children). V5 the non-Ex wrappers and the iterators forward target, value mode, item and answer unchanged and in their own direction. V6 the ascending order guard is transparent. With the search-tree order of C13, in-order = key order. NOT decided: the delivered sequence for all contents and cache states (in-visit eviction and re-read) as data.",
		ControlSrc:   controlC06,
		ControlEdits: []ControlEdit{{"Collection.VisitItemsAscend", "withValue = !withValue"}, {"ascendChoice", "cmp = -cmp"}},
		Expect:       []Expect{{"V5", "(*Collection).VisitItemsAscend › forwards"}, {"V1", "choice ascendChoice"}},
	})
}

const controlC06 = `package gkvlite
`

package main

// I5 (DESIGN §3.J): the consumer (any sequence of Next/Close) and the producer goroutine
// are interpreted abstractly straight from their SSA — channel operations, the branches
// on their ok results and on the closed flag are exact, every other condition is
// nondeterministic — and the product is explored exhaustively for deadlock, send on a
// closed channel and double close.  The only hand-modelled part is the visit machinery
// between the producer and its item callback: "the visitor is called zero or more times
// and never again after it returned false" (that contract is C06 V2).

import (
	"fmt"
	"go/token"
	"os"
	"sort"
	"strings"

	"golang.org/x/tools/go/ssa"
)

type aKind int

const (
	aUnknown aKind = iota
	aBool
	aClosure
	aChan
	aTuple
)

type aval struct {
	k   aKind
	b   bool
	fn  *ssa.Function
	ch  string
	tup []aval
}

func (a aval) String() string {
	switch a.k {
	case aBool:
		return fmt.Sprint(a.b)
	case aClosure:
		return "closure"
	case aChan:
		return "chan:" + a.ch
	case aTuple:
		var p []string
		for _, t := range a.tup {
			p = append(p, t.String())
		}
		return "(" + strings.Join(p, ",") + ")"
	}
	return "?"
}

type aframe struct {
	fn     *ssa.Function
	blk    int
	idx    int
	pred   int
	env    map[string]aval // by SSA value name (function-local)
	defers []*ssa.Function
	ret    string // name of the value in the caller that receives the result ("" = none)
	visit  bool   // this frame is a visitor invocation inside a VISIT loop
	inDef  bool   // running deferred functions before returning
}

type aproc struct {
	stack  []*aframe
	status string // run | send:<ch> | recv:<ch> | done | idle | visit
	// for recv: where to put the result
	visitFn *ssa.Function // closure of the active VISIT loop (producer)
}

type astate struct {
	cons, prod *aproc
	closedCh   map[string]bool
	closedFlag bool
	consCalls  int
	didClose   bool // consumer called Close() or Next() closed the iterator
	trace      []string
}

func cloneFrameA(f *aframe) *aframe {
	n := *f
	n.env = map[string]aval{}
	for k, v := range f.env {
		n.env[k] = v
	}
	n.defers = append([]*ssa.Function{}, f.defers...)
	return &n
}

func cloneProc(p *aproc) *aproc {
	n := &aproc{status: p.status, visitFn: p.visitFn}
	for _, f := range p.stack {
		n.stack = append(n.stack, cloneFrameA(f))
	}
	return n
}

func (s *astate) clone() *astate {
	n := &astate{cons: cloneProc(s.cons), prod: cloneProc(s.prod), closedCh: map[string]bool{}, closedFlag: s.closedFlag, consCalls: s.consCalls, didClose: s.didClose}
	for k, v := range s.closedCh {
		n.closedCh[k] = v
	}
	n.trace = append([]string{}, s.trace...)
	return n
}

func procKey(p *aproc) string {
	var parts []string
	parts = append(parts, p.status)
	for _, f := range p.stack {
		var ks []string
		for k, v := range f.env {
			if v.k == aBool || v.k == aTuple {
				ks = append(ks, k+"="+v.String())
			}
		}
		sort.Strings(ks)
		parts = append(parts, fmt.Sprintf("%s@%d.%d<%d[%s]d%d%v%v", f.fn.Name(), f.blk, f.idx, f.pred, strings.Join(ks, ","), len(f.defers), f.visit, f.inDef))
	}
	return strings.Join(parts, "|")
}

func (s *astate) key() string {
	var cc []string
	for k, v := range s.closedCh {
		if v {
			cc = append(cc, k)
		}
	}
	sort.Strings(cc)
	return procKey(s.cons) + "#" + procKey(s.prod) + "#" + strings.Join(cc, ",") + fmt.Sprint(s.closedFlag, s.didClose, s.consCalls > 0)
}

type autoModel struct {
	w          *World
	next       *ssa.Function // consumer Next
	closeFn    *ssa.Function // consumer Close
	prodEntry  *ssa.Function
	violations []string
	states     int
	trans      int
	maxCalls   int
}

func (m *autoModel) eval(s *astate, isCons bool, f *aframe, v ssa.Value) aval {
	switch x := v.(type) {
	case *ssa.Const:
		if x.Value != nil && (x.Value.String() == "true" || x.Value.String() == "false") {
			return aval{k: aBool, b: x.Value.String() == "true"}
		}
		return aval{}
	case *ssa.MakeClosure:
		return aval{k: aClosure, fn: x.Fn.(*ssa.Function)}
	case *ssa.ChangeType:
		return m.eval(s, isCons, f, x.X)
	case *ssa.Function:
		return aval{k: aClosure, fn: x}
	}
	if a, ok := f.env[v.Name()]; ok {
		return a
	}
	switch x := v.(type) {
	case *ssa.UnOp:
		if x.Op == token.MUL {
			if c := chanField(x); c != "" {
				return aval{k: aChan, ch: c}
			}
			if _, ok := isLoadOfField(x, "iterator", "closed"); ok {
				return aval{k: aBool, b: s.closedFlag}
			}
		}
		if x.Op == token.NOT {
			a := m.eval(s, isCons, f, x.X)
			if a.k == aBool {
				return aval{k: aBool, b: !a.b}
			}
		}
	case *ssa.Extract:
		t := m.eval(s, isCons, f, x.Tuple)
		if t.k == aTuple && x.Index < len(t.tup) {
			return t.tup[x.Index]
		}
	}
	return aval{}
}

// step executes one instruction of the process; returns successor states (nondeterminism).
// The process may end up blocked (status send:/recv:) or done.
func (m *autoModel) step(s *astate, isCons bool) []*astate {
	p := s.prod
	if isCons {
		p = s.cons
	}
	f := p.stack[len(p.stack)-1]
	b := f.fn.Blocks[f.blk]
	if f.inDef {
		// run the next deferred function, or really return
		if len(f.defers) > 0 {
			d := f.defers[len(f.defers)-1]
			f.defers = f.defers[:len(f.defers)-1]
			p.stack = append(p.stack, &aframe{fn: d, env: map[string]aval{}, pred: -1})
			return []*astate{s}
		}
		return m.popFrame(s, isCons, aval{})
	}
	in := b.Instrs[f.idx]
	adv := func() { f.idx++ }
	switch x := in.(type) {
	case *ssa.Phi:
		for i, pr := range b.Preds {
			if pr.Index == f.pred {
				f.env[x.Name()] = m.eval(s, isCons, f, x.Edges[i])
			}
		}
		adv()
	case *ssa.Send:
		ch := chanField(x.Chan)
		if ch == "" {
			adv()
			break
		}
		if s.closedCh[ch] {
			m.violate(s, fmt.Sprintf("send on closed channel %s at %s", ch, m.w.InstrPos(in)))
			return nil
		}
		p.status = "send:" + ch
		return []*astate{s}
	case *ssa.UnOp:
		if x.Op == token.ARROW {
			ch := chanField(x.X)
			if ch == "" {
				adv()
				break
			}
			if s.closedCh[ch] {
				if x.CommaOk {
					f.env[x.Name()] = aval{k: aTuple, tup: []aval{{}, {k: aBool, b: false}}}
				}
				adv()
				break
			}
			p.status = "recv:" + ch
			return []*astate{s}
		}
		adv()
	case *ssa.Call:
		c := x.Common()
		if bi, ok := c.Value.(*ssa.Builtin); ok {
			if bi.Name() == "close" {
				ch := chanField(c.Args[0])
				if ch != "" {
					if s.closedCh[ch] {
						m.violate(s, fmt.Sprintf("close of closed channel %s at %s", ch, m.w.InstrPos(in)))
						return nil
					}
					s.closedCh[ch] = true
					s.trace = append(s.trace, "close("+ch+")")
				}
			}
			adv()
			break
		}
		if callee := c.StaticCallee(); callee != nil {
			if m.w.InLib(callee) && m.touchesChannels(callee) {
				adv()
				nf := &aframe{fn: callee, env: map[string]aval{}, pred: -1, ret: x.Name()}
				for i, prm := range callee.Params {
					if i < len(c.Args) {
						nf.env[prm.Name()] = m.eval(s, isCons, f, c.Args[i])
					}
				}
				p.stack = append(p.stack, nf)
				break
			}
			// a library function that does not itself touch the channels but is handed a
			// visitor closure that does: the visit machinery (falls through to VISIT below)
			hasVis := false
			for _, a := range c.Args {
				if av := m.eval(s, isCons, f, a); av.k == aClosure && m.touchesChannels(av.fn) {
					hasVis = true
				}
			}
			if !hasVis {
				adv()
				break
			}
		}
		// dynamic call: a closure we know → inline; an unknown function given a visitor closure → VISIT loop
		cv := m.eval(s, isCons, f, c.Value)
		if cv.k == aClosure && c.StaticCallee() == nil {
			adv()
			nf := &aframe{fn: cv.fn, env: map[string]aval{}, pred: -1, ret: x.Name()}
			for i, prm := range cv.fn.Params {
				if i < len(c.Args) {
					nf.env[prm.Name()] = m.eval(s, isCons, f, c.Args[i])
				}
			}
			p.stack = append(p.stack, nf)
			break
		}
		var vis *ssa.Function
		for _, a := range c.Args {
			av := m.eval(s, isCons, f, a)
			if av.k == aClosure && m.touchesChannels(av.fn) {
				vis = av.fn
			}
		}
		if vis == nil {
			adv()
			break
		}
		// VISIT: nondeterministically call the visitor once more, or finish the visit
		adv()
		fin := s.clone()
		more := s
		mp := more.prod
		if isCons {
			mp = more.cons
		}
		mf := mp.stack[len(mp.stack)-1]
		mf.idx-- // come back to this call after the visitor returns true
		mp.stack = append(mp.stack, &aframe{fn: vis, env: map[string]aval{}, pred: -1, ret: "$visit", visit: true})
		more.trace = append(more.trace, "visit item")
		return []*astate{more, fin}
	case *ssa.Defer:
		if mc, ok := x.Common().Value.(*ssa.MakeClosure); ok {
			f.defers = append(f.defers, mc.Fn.(*ssa.Function))
		} else if fn := x.Common().StaticCallee(); fn != nil && m.w.InLib(fn) && m.touchesChannels(fn) {
			f.defers = append(f.defers, fn)
		}
		adv()
	case *ssa.Go:
		adv()
	case *ssa.Store:
		if st, _, ok := isStoreToField(in, "iterator", "closed"); ok {
			a := m.eval(s, isCons, f, st.Val)
			if a.k == aBool {
				s.closedFlag = a.b
				if a.b {
					s.didClose = true
				}
			}
		}
		adv()
	case *ssa.RunDefers:
		adv()
		for i := len(f.defers) - 1; i >= 0; i-- {
			p.stack = append(p.stack, &aframe{fn: f.defers[i], env: map[string]aval{}, pred: -1})
		}
		// frames run in LIFO order: the last pushed runs first, so push in reverse
		n := len(f.defers)
		top := p.stack[len(p.stack)-n:]
		for i, j := 0, len(top)-1; i < j; i, j = i+1, j-1 {
			top[i], top[j] = top[j], top[i]
		}
		f.defers = nil
	case *ssa.Return:
		var rv aval
		if len(x.Results) == 1 {
			rv = m.eval(s, isCons, f, x.Results[0])
		}
		if len(f.defers) > 0 {
			f.inDef = true
			return []*astate{s}
		}
		return m.popFrame(s, isCons, rv)
	case *ssa.Jump:
		f.pred, f.blk, f.idx = f.blk, b.Succs[0].Index, 0
	case *ssa.If:
		c := m.eval(s, isCons, f, x.Cond)
		if c.k == aBool {
			t := b.Succs[1]
			if c.b {
				t = b.Succs[0]
			}
			f.pred, f.blk, f.idx = f.blk, t.Index, 0
			break
		}
		o := s.clone()
		op := o.prod
		if isCons {
			op = o.cons
		}
		of := op.stack[len(op.stack)-1]
		f.pred, f.blk, f.idx = f.blk, b.Succs[0].Index, 0
		of.pred, of.blk, of.idx = of.blk, b.Succs[1].Index, 0
		return []*astate{s, o}
	case *ssa.Panic:
		// unwinding runs the deferred functions
		f.inDef = true
	default:
		adv()
	}
	return []*astate{s}
}

func (m *autoModel) popFrame(s *astate, isCons bool, rv aval) []*astate {
	p := s.prod
	if isCons {
		p = s.cons
	}
	f := p.stack[len(p.stack)-1]
	p.stack = p.stack[:len(p.stack)-1]
	if len(p.stack) == 0 {
		if isCons {
			p.status = "idle"
			if f.fn == m.next && rv.k == aBool && !rv.b {
				s.didClose = true // Next() answered false: the iteration is over for the consumer
			}
		} else {
			p.status = "done"
			s.trace = append(s.trace, "producer exits")
		}
		return []*astate{s}
	}
	caller := p.stack[len(p.stack)-1]
	if f.visit {
		// the visit machinery: false ⇒ never call the visitor again (skip the pending VISIT call)
		if rv.k == aBool && !rv.b {
			caller.idx++
			return []*astate{s}
		}
		if rv.k != aBool {
			o := s.clone()
			op := o.prod
			if isCons {
				op = o.cons
			}
			op.stack[len(op.stack)-1].idx++
			return []*astate{s, o}
		}
		return []*astate{s}
	}
	if f.ret != "" {
		caller.env[f.ret] = rv
	}
	return []*astate{s}
}

func (m *autoModel) violate(s *astate, msg string) {
	tr := s.trace
	if len(tr) > 24 {
		tr = tr[len(tr)-24:]
	}
	m.violations = append(m.violations, msg+"  trace: "+strings.Join(tr, " → "))
}

var touchCache = map[*ssa.Function]bool{}

// touchesChannels: fn (or what it statically calls / the closures it creates) operates
// on the iterator's channels or its closed flag.
func (m *autoModel) touchesChannels(fn *ssa.Function) bool {
	if v, ok := touchCache[fn]; ok {
		return v
	}
	touchCache[fn] = false
	res := false
	for f := range m.w.G.ReachFrom(fn).Set {
		eachInstr(f, func(in ssa.Instruction) {
			switch x := in.(type) {
			case *ssa.Send:
				if chanField(x.Chan) != "" {
					res = true
				}
			case *ssa.UnOp:
				if x.Op == token.ARROW && chanField(x.X) != "" {
					res = true
				}
			case *ssa.Call:
				if b, ok := x.Common().Value.(*ssa.Builtin); ok && b.Name() == "close" && chanField(x.Common().Args[0]) != "" {
					res = true
				}
			}
		})
	}
	touchCache[fn] = res
	return res
}

// runToBlock advances one process until it blocks, finishes or branches.
func (m *autoModel) settle(s *astate, isCons bool, out *[]*astate, depth int) {
	p := s.prod
	if isCons {
		p = s.cons
	}
	if depth > 4000 {
		m.violate(s, "internal: process does not reach a blocking point")
		return
	}
	if p.status != "run" {
		*out = append(*out, s)
		return
	}
	succ := m.step(s, isCons)
	m.trans++
	for _, n := range succ {
		m.settle(n, isCons, out, depth+1)
	}
}

func (m *autoModel) explore() {
	touchCache = map[*ssa.Function]bool{}
	init := &astate{cons: &aproc{status: "idle"}, prod: &aproc{status: "run"}, closedCh: map[string]bool{}}
	init.prod.stack = []*aframe{{fn: m.prodEntry, env: map[string]aval{}, pred: -1}}
	seen := map[string]bool{}
	var queue []*astate
	push := func(s *astate) {
		// settle both processes
		var a []*astate
		m.settle(s, false, &a, 0)
		for _, x := range a {
			var b []*astate
			m.settle(x, true, &b, 0)
			for _, y := range b {
				k := y.key()
				if !seen[k] {
					seen[k] = true
					queue = append(queue, y)
				}
			}
		}
	}
	push(init)
	for len(queue) > 0 && len(m.violations) == 0 {
		s := queue[0]
		queue = queue[1:]
		m.states++
		if os.Getenv("GKV_DEBUG_I5") != "" {
			fmt.Printf("I5 state %d: %s\n", m.states, s.key())
		}
		if m.states > 200000 {
			m.violate(s, "internal: state budget exceeded")
			return
		}
		n := 0
		cs, ps := s.cons.status, s.prod.status
		// rendezvous
		for _, ch := range []string{"next", "items"} {
			if cs == "send:"+ch && ps == "recv:"+ch || cs == "recv:"+ch && ps == "send:"+ch {
				o := s.clone()
				for _, pr := range []*aproc{o.cons, o.prod} {
					f := pr.stack[len(pr.stack)-1]
					in := f.fn.Blocks[f.blk].Instrs[f.idx]
					if u, ok := in.(*ssa.UnOp); ok && u.CommaOk {
						f.env[u.Name()] = aval{k: aTuple, tup: []aval{{}, {k: aBool, b: true}}}
					}
					f.idx++
					pr.status = "run"
				}
				o.trace = append(o.trace, "sync("+ch+")")
				push(o)
				n++
			}
		}
		// a receiver on a closed channel proceeds; a sender panics
		for _, who := range []bool{true, false} {
			pr := s.prod
			if who {
				pr = s.cons
			}
			if strings.HasPrefix(pr.status, "recv:") && s.closedCh[pr.status[5:]] {
				o := s.clone()
				op := o.prod
				if who {
					op = o.cons
				}
				op.status = "run" // the step sees the closed channel and yields ok=false
				push(o)
				n++
			}
			if strings.HasPrefix(pr.status, "send:") && s.closedCh[pr.status[5:]] {
				m.violate(s, "send on closed channel "+pr.status[5:]+" (sender was blocked when the channel was closed)")
				return
			}
		}
		// the consumer between calls
		if cs == "idle" {
			{
				// any further call: the state key does not count calls, so every sequence of
				// Next/Close of any length is covered by the finite graph
				for _, fn := range []*ssa.Function{m.next, m.closeFn} {
					o := s.clone()
					o.cons.status = "run"
					o.cons.stack = []*aframe{{fn: fn, env: map[string]aval{}, pred: -1}}
					o.consCalls++
					o.trace = append(o.trace, fn.Name()+"()")
					push(o)
					n++
				}
			}
			// the consumer may also stop here for good: then, if it has closed the iterator,
			// the producer must be able to finish on its own
			if (s.closedFlag || s.didClose) && ps != "done" {
				// can the producer move without the consumer?
				if !(strings.HasPrefix(ps, "recv:") && s.closedCh[ps[5:]]) {
					m.violate(s, "after Close() / after Next() answered false the producer goroutine is stuck in "+ps+" and never exits (goroutine and pinned version leak)")
					return
				}
			}
			continue
		}
		if n == 0 {
			// consumer is inside Next()/Close() and nothing can move
			m.violate(s, fmt.Sprintf("deadlock: consumer blocked in %s while the producer is %s", cs, ps))
			return
		}
	}
}

func ruleI5(w *World, r *Report) {
	const rule = "I5"
	next, closeFn := w.Fn("(*iterator).Next"), w.Fn("(*iterator).Close")
	if next == nil || closeFn == nil {
		r.Unknown(rule, "anchors (*iterator).Next / Close", "-", "iterator methods not found")
		return
	}
	n := 0
	for _, name := range []string{"(*Collection).IterateAscend", "(*Collection).IterateDescend"} {
		ctor := w.Fn(name)
		if ctor == nil {
			continue
		}
		var entry *ssa.Function
		for _, ff := range family(ctor) {
			eachInstr(ff, func(in ssa.Instruction) {
				if g, ok := in.(*ssa.Go); ok {
					entry = g.Common().StaticCallee()
				}
			})
		}
		key := name + " › product of consumer and producer automata"
		if entry == nil {
			r.Bad(rule, key, w.Pos(ctor.Pos()), "no producer goroutine is started")
			continue
		}
		m := &autoModel{w: w, next: next, closeFn: closeFn, prodEntry: entry, maxCalls: 4}
		m.explore()
		n++
		r.Info[name+" states"] = m.states
		r.Info[name+" transitions"] = m.trans
		if len(m.violations) > 0 {
			r.Bad(rule, key, w.Pos(entry.Pos()), m.violations[0])
		} else {
			r.OK(rule, key, w.Pos(entry.Pos()), fmt.Sprintf("%d product states, %d interpreter steps: the finite product graph covers every sequence of Next/Close calls and every number of items: no deadlock, no send on a closed channel, no double close, and the producer always exits once the iterator is closed", m.states, m.trans))
		}
	}
	r.Floor(rule, 2)
}

package main

// C01 — sorted-map behaviour (DESIGN §4 C01): (a) argument validation dominates every
// effect of SetItem with exact thresholds, (b) lookup orientation of GetItem / Min / Max,
// (c) the set-algebra skeleton of SetItem and Delete over union/split/join (whose own
// order, content and aggregate rules are C13's), (d) GetTotals.

import (
	"fmt"
	"go/token"
	"math"
	"strings"

	"golang.org/x/tools/go/ssa"
)

// interval facts about an integer expression from dominating guards.
type ival struct{ lo, hi float64 }

func applyCmp(iv *ival, op token.Token, k float64, pol bool) {
	// fact: (x op k) == pol
	if !pol {
		switch op {
		case token.LSS:
			op = token.GEQ
		case token.LEQ:
			op = token.GTR
		case token.GTR:
			op = token.LEQ
		case token.GEQ:
			op = token.LSS
		case token.EQL:
			op = token.NEQ
		case token.NEQ:
			op = token.EQL
		}
	}
	switch op {
	case token.LSS:
		iv.hi = math.Min(iv.hi, k-1)
	case token.LEQ:
		iv.hi = math.Min(iv.hi, k)
	case token.GTR:
		iv.lo = math.Max(iv.lo, k+1)
	case token.GEQ:
		iv.lo = math.Max(iv.lo, k)
	case token.EQL:
		iv.lo, iv.hi = math.Max(iv.lo, k), math.Min(iv.hi, k)
	case token.NEQ:
		if iv.lo == k {
			iv.lo = k + 1
		}
		if iv.hi == k {
			iv.hi = k - 1
		}
	}
}

func ruleSetValidation(w *World, r *Report) {
	const rule = "S-valid"
	fn := w.Fn("(*Collection).SetItem")
	if fn == nil {
		r.Unknown(rule, "anchor (*Collection).SetItem", "-", "exported API not found")
		return
	}
	item := fn.Params[1]
	// first effect: the pin
	var first ssa.Instruction
	var effects []ssa.Instruction
	eachInstr(fn, func(in ssa.Instruction) {
		c, ok := in.(ssa.CallInstruction)
		if !ok {
			return
		}
		switch staticCalleeName(c) {
		case "(*Collection).rootAddRef", "(*Collection).mkNode", "(*Store).ItemAddRef", "(*Store).union", "(*Collection).rootCAS", "(*Collection).mkNodeLoc", "(*Collection).mkRootNodeLoc":
			effects = append(effects, in)
			if first == nil || instrDominates(in, first) {
				first = in
			}
		}
	})
	if first == nil {
		r.Unknown(rule, "(*Collection).SetItem › effects", w.Pos(fn.Pos()), "no pin / allocation / publish call found")
		return
	}
	for _, e := range effects {
		if e != first && !instrDominates(first, e) {
			r.Bad(rule, "(*Collection).SetItem › validation dominates every effect", w.InstrPos(e), "an effect is not dominated by the first (validated) effect")
		}
	}
	keyLen := ival{0, math.Inf(1)} // len() >= 0
	prio := ival{math.Inf(-1), math.Inf(1)}
	keyNonNil, valNonNil := false, false
	isItemField := func(v ssa.Value, field string) bool {
		base, ok := isLoadOfField(v, "Item", field)
		return ok && base == ssa.Value(item)
	}
	for _, f := range factsAt(first.Block()) {
		b, ok := f.Cond.(*ssa.BinOp)
		if !ok {
			continue
		}
		// nil tests
		if isNilConst(b.Y) && (b.Op == token.EQL || b.Op == token.NEQ) {
			nonNil := (b.Op == token.NEQ) == f.Pol
			if isItemField(b.X, "Key") && nonNil {
				keyNonNil = true
			}
			if isItemField(b.X, "Val") && nonNil {
				valNonNil = true
			}
			continue
		}
		k, isK := constInt(b.Y)
		if !isK {
			// `k op x` is `x op' k` (comparisons written constant-first)
			if k2, isK2 := constInt(b.X); isK2 {
				op := b.Op
				switch op {
				case token.LSS:
					op = token.GTR
				case token.LEQ:
					op = token.GEQ
				case token.GTR:
					op = token.LSS
				case token.GEQ:
					op = token.LEQ
				}
				b = &ssa.BinOp{Op: op, X: b.Y, Y: b.X}
				k, isK = k2, true
			}
		}
		if !isK {
			continue
		}
		// len(item.Key) op k
		if c, isC := b.X.(*ssa.Call); isC {
			if bi, isB := c.Common().Value.(*ssa.Builtin); isB && bi.Name() == "len" && isItemField(c.Common().Args[0], "Key") {
				applyCmp(&keyLen, b.Op, float64(k), f.Pol)
			}
		}
		if isItemField(b.X, "Priority") {
			applyCmp(&prio, b.Op, float64(k), f.Pol)
		}
	}
	if keyLen.lo >= 1 {
		keyNonNil = true // a nil slice has length 0
	}
	r.Check(keyLen.lo == 1 && keyLen.hi == 65535, rule, "(*Collection).SetItem › accepts exactly 1 <= len(Key) <= 65535", w.InstrPos(first), "key length interval [1, 65535]", fmt.Sprintf("before its first effect SetItem knows only %v <= len(Key) <= %v: empty or oversized keys get in, or valid keys are refused", keyLen.lo, keyLen.hi))
	r.Check(keyNonNil, rule, "(*Collection).SetItem › rejects a nil key", w.InstrPos(first), "Key != nil (directly or through len >= 1)", "a nil key is not rejected before the first effect")
	r.Check(valNonNil, rule, "(*Collection).SetItem › rejects a nil value", w.InstrPos(first), "Val != nil", "a nil value is not rejected before the first effect")
	r.Check(prio.lo == 0 && math.IsInf(prio.hi, 1), rule, "(*Collection).SetItem › accepts exactly Priority >= 0", w.InstrPos(first), "priority interval [0, +inf)", fmt.Sprintf("before its first effect SetItem knows only %v <= Priority <= %v", prio.lo, prio.hi))
	// every way out of the function that does not pass the first effect returns a definite
	// error (paths the values rule out are not explored)
	okArms := true
	idxErr := errResultIndex(fn)
	wkA := &Walker{Fn: fn}
	wkA.OnInstr = func(env *Env, in ssa.Instruction, trail []*ssa.BasicBlock) bool {
		if in == first {
			return true
		}
		if ret, isRet := in.(*ssa.Return); isRet {
			if in.Block().Comment != "recover" && (idxErr < 0 || !isNonNilErrorValue(env.Resolve(ret.Results[idxErr]))) {
				okArms = false
			}
			return true
		}
		return false
	}
	wkA.Run(nil, nil)
	r.Check(okArms, rule, "(*Collection).SetItem › every rejecting arm returns an error", w.Pos(fn.Pos()), "errors.New(...) on each failing test", "a failing validation arm does not return an error")
	r.Floor(rule, 5)
}

func reachesBlock(from, to *ssa.BasicBlock) bool {
	seen := map[*ssa.BasicBlock]bool{}
	q := []*ssa.BasicBlock{from}
	for len(q) > 0 {
		b := q[0]
		q = q[1:]
		if b == to {
			return true
		}
		if seen[b] {
			continue
		}
		seen[b] = true
		q = append(q, b.Succs...)
	}
	return false
}

// (b) lookup orientation
func ruleLookup(w *World, r *Report) {
	const rule = "S-lookup"
	fn := w.Fn("(*Collection).GetItem")
	if fn == nil {
		r.Unknown(rule, "anchor (*Collection).GetItem", "-", "exported API not found")
		return
	}
	x := &textract{w: w, fn: fn}
	keyParam := "key:" + keyParamName(fn)
	n := 0
	eachInstr(fn, func(in ssa.Instruction) {
		ph, ok := in.(*ssa.Phi)
		if !ok || !isLibType(ph.Type(), "nodeLoc") {
			return
		}
		for i, e := range ph.Edges {
			fa, isFA := e.(*ssa.FieldAddr)
			if !isFA {
				continue
			}
			side := childField(fa)
			if side == "?" {
				continue
			}
			n++
			nt := x.nodeTree(fa.X)
			f := x.factsAtBlock(ph.Block().Preds[i], newFacts())
			for _, cf := range edgeFacts(ph, i, 0) {
				x.addFact(f, cf)
			}
			key := fmt.Sprintf("(*Collection).GetItem › descends %s#%d", side, n)
			nk := keyOfTree(nt)
			var ok2 bool
			if side == "left" {
				ok2 = f.keyRel(keyParam, nk, true)
			} else {
				ok2 = f.keyRel(nk, keyParam, true)
			}
			r.Check(ok2, rule, key, w.InstrPos(ph.Block().Preds[i].Instrs[0]), fmt.Sprintf("the cursor moves %s only where the wanted key is %s the node's key", side, map[string]string{"left": "below", "right": "above"}[side]), fmt.Sprintf("the lookup goes %s although the guards do not establish that the wanted key is on that side: present keys are reported absent", side))
		}
	})
	// the hit: returned item is the item of a node whose key equals the wanted key
	wk := &Walker{Fn: fn}
	hitOK, hits := true, 0
	wk.OnInstr = func(env *Env, in ssa.Instruction, trail []*ssa.BasicBlock) bool {
		ret, ok := in.(*ssa.Return)
		if !ok {
			return false
		}
		v := env.Resolve(ret.Results[0])
		if isNilConst(v) {
			return true
		}
		hits++
		xe := &textract{w: w, fn: fn, env: env}
		t := xe.itemValTree(v)
		if ph, isPhi := v.(*ssa.Phi); isPhi && t == nil {
			for _, e := range ph.Edges {
				if tt := xe.itemValTree(e); tt != nil {
					t = tt
				}
			}
		}
		if t == nil {
			hitOK = false
			return true
		}
		f := newFacts()
		for _, b := range trail {
			mergeFacts(f, xe.factsAtBlock(b, newFacts()))
		}
		nk := keyOfTree(t)
		if !(f.keyRel(keyParam, nk, false) && f.keyRel(nk, keyParam, false)) {
			hitOK = false
		}
		return true
	}
	wk.Branch = func(env *Env, ifi *ssa.If) (bool, bool) {
		if xx, trueMeansNil, ok := nilTest(ifi.Cond); ok && isErrorType(xx.Type()) {
			return trueMeansNil, !trueMeansNil
		}
		return true, true
	}
	wk.Run(nil, nil)
	r.Check(hitOK && hits > 0, rule, "(*Collection).GetItem › returns the item whose key equals the wanted key", w.Pos(fn.Pos()), "a non-nil item is returned only where compare(key, item.Key) is neither < 0 nor > 0, and it is that node's item", "a non-nil item can be returned whose key is not established equal to the wanted key")
	// comparator argument order
	for _, cb := range w.G.CbIn[fn] {
		if cb.Kind == "comparator" {
			a := cb.Instr.Common().Args
			r.Check(len(a) == 2 && a[0] == ssa.Value(fn.Params[1]) && isKeyLoad(a[1]), rule, "(*Collection).GetItem › compare(key, item.Key)", w.InstrPos(cb.Instr), "wanted key first", "comparator arguments swapped")
		}
	}
	// Min / Max choosers
	for api, side := range map[string]string{"(*Collection).MinItem": "left", "(*Collection).MaxItem": "right"} {
		f := w.Fn(api)
		var cl *ssa.Function
		if f != nil {
			// the function value handed to the tree walk: a closure or a named function
			eachInstr(f, func(in ssa.Instruction) {
				c, isC := in.(*ssa.Call)
				if !isC || staticCalleeName(c) != "(*Store).walk" {
					return
				}
				for _, a := range c.Common().Args {
					v := a
					if ct, isCT := v.(*ssa.ChangeType); isCT {
						v = ct.X
					}
					switch x := v.(type) {
					case *ssa.MakeClosure:
						cl, _ = x.Fn.(*ssa.Function)
					case *ssa.Function:
						cl = x
					}
				}
			})
		}
		if f == nil || cl == nil || len(cl.Params) == 0 {
			r.Unknown(rule, api+" › chooser", "-", "API or the chooser it hands to the tree walk not found")
			continue
		}
		ok := true
		nret := 0
		eachInstr(cl, func(in ssa.Instruction) {
			if ret, isRet := in.(*ssa.Return); isRet {
				nret++
				if childField(ret.Results[0]) != side {
					ok = false
				}
				if base, isFA := isFieldAddr(ret.Results[0], "node", side); !isFA || base != ssa.Value(cl.Params[0]) {
					ok = false
				}
				if k, isK := ret.Results[1].(*ssa.Const); !isK || k.Value == nil || k.Value.String() != "true" {
					ok = false
				}
			}
		})
		r.Check(ok && nret == 1, rule, api+" › always follows the "+side+" child", w.Pos(cl.Pos()), "chooser returns (&n."+side+", true)", "the chooser of "+api+" does not unconditionally follow the "+side+" child")
	}
	// walk: returns the item of the node whose chosen child is empty
	if wf := w.Fn("(*Store).walk"); wf != nil {
		ok := false
		eachInstr(wf, func(in ssa.Instruction) {
			c, isC := in.(*ssa.Call)
			if !isC || staticCalleeName(c) != "(*itemLoc).read" {
				return
			}
			base, isItem := isFieldAddr(c.Common().Args[0], "node", "item")
			if !isItem {
				return
			}
			// the node is the loop's current node (a φ), and this block is entered only when the chosen child is empty
			if _, isPhi := base.(*ssa.Phi); !isPhi {
				return
			}
			xe := &textract{w: w, fn: wf}
			f := xe.factsAtBlock(in.Block(), newFacts())
			for k := range f.empty {
				_ = k
				ok = true
			}
			// the ||-merge rule needs a tree term for the child; the child is a callback result
			// (unknown term), so accept the structural form: both predecessors test the child
			if !ok {
				cnt := 0
				for _, p := range in.Block().Preds {
					if ifi, isIf := p.Instrs[len(p.Instrs)-1].(*ssa.If); isIf {
						for _, cf := range condFacts(ifi.Cond, p.Succs[0] == in.Block(), 0) {
							if cc, isCall := cf.Cond.(*ssa.Call); isCall && staticCalleeName(cc) == "(*nodeLoc).isEmpty" && cf.Pol {
								cnt++
							}
							if bb, isB := cf.Cond.(*ssa.BinOp); isB && isNilConst(bb.Y) && (bb.Op == token.EQL) == cf.Pol {
								cnt++
							}
						}
					}
				}
				ok = cnt >= len(in.Block().Preds) && cnt > 0
			}
		})
		r.Check(ok, rule, "(*Store).walk › returns the item of the node whose chosen child is empty", w.Pos(wf.Pos()), "item of the current node, read only where the chosen child is empty / absent", "walk does not return the item of the last node on the chosen side")
	}
	r.Floor(rule, 6)
}

// (c) clients and (d) totals
func ruleClients(w *World, r *Report) {
	const rule = "S-algebra"
	// SetItem: union(pinned root, leaf of the new item) — new item second, so that it wins on equal keys
	if fn := w.Fn("(*Collection).SetItem"); fn != nil {
		var u *ssa.Call
		eachInstr(fn, func(in ssa.Instruction) {
			if c, ok := in.(*ssa.Call); ok && staticCalleeName(c) == "(*Store).union" {
				u = c
			}
		})
		if u == nil {
			r.Bad(rule, "(*Collection).SetItem › root' = union(root, {item})", w.Pos(fn.Pos()), "SetItem does not call union")
		} else {
			a := u.Common().Args
			_, isPinnedRoot := isLoadOfField(a[2], "rootNodeLoc", "root")
			pinned := isPinnedRoot && func() bool {
				c := callOfValue(mustLoadBase(a[2]))
				return c != nil && staticCalleeName(c) == "(*Collection).rootAddRef"
			}()
			leaf := false
			if c := callOfValue(a[3]); c != nil && staticCalleeName(c) == "(*Collection).mkNodeLoc" {
				if mk := callOfValue(c.Common().Args[1]); mk != nil && staticCalleeName(mk) == "(*Collection).mkNode" {
					// the leaf's item slot receives the caller's item
					eachInstr(fn, func(in ssa.Instruction) {
						if st, base, ok := isStoreToField(in, "itemLoc", "item"); ok && st.Val == ssa.Value(fn.Params[1]) {
							if b2, ok2 := isFieldAddr(base, "node", "item"); ok2 && b2 == ssa.Value(mk) {
								leaf = true
							}
						}
					})
				}
			}
			mark := false
			if b, ok := isFieldAddr(a[4], "rootNodeLoc", "reclaimMark"); ok && b == mustLoadBase(a[2]) {
				mark = true
			}
			r.Check(pinned && leaf && mark, rule, "(*Collection).SetItem › root' = union(pinned root, {item}) with the new item second", w.InstrPos(u), "union(rnl.root, leaf(item), &rnl.reclaimMark): on an equal key the second operand wins, i.e. the new value replaces the old", "SetItem does not build union(pinned root, leaf(new item)) in that order with the pinned version's mark: an existing key keeps its old value, or another version's nodes are marked")
			// published value is the union's result
			pub := false
			eachInstr(fn, func(in ssa.Instruction) {
				if c, ok := in.(*ssa.Call); ok && staticCalleeName(c) == "(*Collection).rootCAS" {
					if mr := callOfValue(c.Common().Args[2]); mr != nil && staticCalleeName(mr) == "(*Collection).mkRootNodeLoc" {
						if ex, ok := mr.Common().Args[1].(*ssa.Extract); ok && ex.Tuple == ssa.Value(u) && ex.Index == 0 && sameVal(c.Common().Args[1], mustLoadBase(a[2])) {
							pub = true
						}
					}
				}
			})
			r.Check(pub, rule, "(*Collection).SetItem › publishes the union over the pinned version", w.InstrPos(u), "rootCAS(pinned, mkRootNodeLoc(union result))", "SetItem does not publish exactly the union it computed, against the version it pinned")
		}
	}
	// Delete: join(SL(root,key), SR(root,key)); true only when the middle is non-empty
	if fn := w.Fn("(*Collection).Delete"); fn != nil {
		x := &textract{w: w, fn: fn}
		var j *ssa.Call
		eachInstr(fn, func(in ssa.Instruction) {
			if c, ok := in.(*ssa.Call); ok && staticCalleeName(c) == "(*Store).join" {
				j = c
			}
		})
		if j == nil {
			r.Bad(rule, "(*Collection).Delete › root' = join(left, right) of split(root, key)", w.Pos(fn.Pos()), "Delete does not call join")
		} else {
			a, b := x.tree(j.Common().Args[2]), x.tree(j.Common().Args[3])
			want := "SL(root,key:" + keyParamName(fn) + ")|SR(root,key:" + keyParamName(fn) + ")"
			r.Check(a.String()+"|"+b.String() == want, rule, "(*Collection).Delete › root' = join(left, right) of split(pinned root, key)", w.InstrPos(j), "join(SL(root,key), SR(root,key))", fmt.Sprintf("Delete joins %s and %s", a, b))
			pub := false
			eachInstr(fn, func(in ssa.Instruction) {
				if c, ok := in.(*ssa.Call); ok && staticCalleeName(c) == "(*Collection).rootCAS" {
					if mr := callOfValue(c.Common().Args[2]); mr != nil && staticCalleeName(mr) == "(*Collection).mkRootNodeLoc" {
						if ex, ok := mr.Common().Args[1].(*ssa.Extract); ok && ex.Tuple == ssa.Value(j) && ex.Index == 0 {
							pub = true
						}
					}
				}
			})
			r.Check(pub, rule, "(*Collection).Delete › publishes the join", w.InstrPos(j), "rootCAS(pinned, mkRootNodeLoc(join result))", "Delete does not publish the join it computed")
		}
		// wasDeleted == true only after a successful publish, on a path where the key was found
		okTrue := true
		nTrue := 0
		wk := &Walker{Fn: fn}
		wk.OnInstr = func(env *Env, in ssa.Instruction, trail []*ssa.BasicBlock) bool {
			if c, ok := in.(*ssa.Call); ok {
				switch staticCalleeName(c) {
				case "(*Collection).rootCAS":
					env.flags["cas"] = true
				}
			}
			if ret, ok := in.(*ssa.Return); ok {
				v := env.Resolve(ret.Results[0])
				if k, isK := v.(*ssa.Const); isK && k.Value != nil && k.Value.String() == "true" {
					nTrue++
					if !env.flags["cas"] || !env.flags["found"] || !env.flags["casok"] {
						okTrue = false
					}
				}
				return true
			}
			return false
		}
		wk.OnEdge = func(env *Env, from, to *ssa.BasicBlock, idx int) bool {
			ifi, ok := from.Instrs[len(from.Instrs)-1].(*ssa.If)
			if !ok {
				return false
			}
			for _, cf := range condFacts(ifi.Cond, idx == 0, 0) {
				if c, isC := cf.Cond.(*ssa.Call); isC {
					if staticCalleeName(c) == "(*nodeLoc).isEmpty" && !cf.Pol {
						if t := x.tree(c.Common().Args[0]); t != nil && t.kind == "SM" {
							env.flags["found"] = true
						}
					}
					if staticCalleeName(c) == "(*Collection).rootCAS" && cf.Pol {
						env.flags["casok"] = true
					}
				}
			}
			return false
		}
		wk.Run(nil, nil)
		r.Check(okTrue && nTrue > 0, rule, "(*Collection).Delete › reports true only for a found key after a successful publish", w.Pos(fn.Pos()), "return true ⇐ middle non-empty ∧ rootCAS succeeded", "Delete can report wasDeleted = true without the key having been found (non-empty middle) and the new version published")
	}
	// GetTotals
	if fn := w.Fn("(*Collection).GetTotals"); fn != nil {
		ok := false
		eachInstr(fn, func(in ssa.Instruction) {
			ret, isRet := in.(*ssa.Return)
			if !isRet || len(ret.Results) != 3 || !isNilConst(ret.Results[2]) {
				return
			}
			v0, v1 := ret.Results[0], ret.Results[1]
			if ld, isLd := v0.(*ssa.UnOp); isLd && ld.Op == token.MUL {
				if al, isAl := ld.X.(*ssa.Alloc); isAl {
					_ = al
				}
			}
			b0, ok0 := isLoadOfField(v0, "node", "numNodes")
			b1, ok1 := isLoadOfField(v1, "node", "numBytes")
			if ok0 && ok1 && b0 == b1 {
				if c := callOfValue(b0); c != nil && (staticCalleeName(c) == "(*nodeLoc).read" || w.readsItsReceiver(c.Common().StaticCallee())) {
					if _, isRoot := isLoadOfField(c.Common().Args[0], "rootNodeLoc", "root"); isRoot {
						ok = true
					}
				}
			}
		})
		if !ok {
			// named results + defer: the values travel through result cells
			wk := &Walker{Fn: fn}
			wk.OnInstr = func(env *Env, in ssa.Instruction, trail []*ssa.BasicBlock) bool {
				ret, isRet := in.(*ssa.Return)
				if !isRet {
					return false
				}
				v0, v1, v2 := env.Resolve(ret.Results[0]), env.Resolve(ret.Results[1]), env.Resolve(ret.Results[2])
				if !isNilConst(v2) {
					return true
				}
				b0, ok0 := isLoadOfField(v0, "node", "numNodes")
				b1, ok1 := isLoadOfField(v1, "node", "numBytes")
				if ok0 && ok1 && b0 == b1 {
					b0 = soleNonNilSource(env.Resolve(b0), 0)
					if c := callOfValue(b0); c != nil && (staticCalleeName(c) == "(*nodeLoc).read" || w.readsItsReceiver(c.Common().StaticCallee())) {
						if _, isRoot := isLoadOfField(c.Common().Args[0], "rootNodeLoc", "root"); isRoot {
							ok = true
						}
					}
				}
				return true
			}
			wk.Run(nil, nil)
		}
		r.Check(ok, rule, "(*Collection).GetTotals › returns the pinned root node's (numNodes, numBytes)", w.Pos(fn.Pos()), "aggregates of the root of the pinned version", "GetTotals does not return the two aggregate fields of the pinned version's root node")
	}
	r.Floor(rule, 6)
}

var _ = strings.Contains

func init() {
	register(&Property{
		ID:    "C01",
		Level: "other",
		Rules: []Rule{{"S-valid", ruleSetValidation}, {"S-lookup", ruleLookup}, {"S-algebra", ruleClients}, {"T-order/T-heap", ruleTOrderHeap}, {"T-contract", ruleTContracts}, {"T-lin", ruleTLin}, {"T-agg", ruleTAgg}, {"K6", ruleK6}, {"O1", ruleO1}, {"O2b", ruleO2b}, {"V7", ruleV7}, {"V8", ruleV8}, {"Y1", ruleLayoutItemHeader}, {"Y6", ruleLayoutItemRecord}},
		Explanation: "(a) S-valid: the guards dominating SetItem's first effect (pin/allocation/AddRef/union/publish) are evaluated over an interval domain: exactly 1 <= len(Key) <= 65535, Key and Val non-nil, Priority >= 0, and every rejecting arm returns a fresh error; all other effects are dominated by the first. (b) S-lookup: GetItem moves left only where the guards establish key < node key, right only where key > node key, and returns a non-nil item only where both are excluded (the node's own item); compare(key, item.Key) argument order; Min/Max choosers unconditionally follow left/right; walk returns the item of the node whose chosen child is empty. (c) S-algebra: SetItem publishes union(pinned root, leaf(new item)) with the new item as second operand (it wins on equal keys) against the version it pinned; Delete publishes join(SL(root,key), SR(root,key)) and reports true only where the middle is non-empty and the publish succeeded; the algebra itself (search order, nothing lost or duplicated, exact aggregates, bound contracts) is proved by C13's rules, included here. (d) GetTotals returns the pinned root's aggregates. NOT decided: equality of every return value with a reference map over histories interleaved with Flush / eviction / reopen (the structural preconditions of those are W1, C14, C02).",
		ControlSrc:   "package gkvlite\n",
		ControlEdits: []ControlEdit{{"Collection.SetItem", "if item.Priority == 7 { t.rootAddRef() }"}},
		Expect:       []Expect{{"S-valid", "(*Collection).SetItem"}},
	})
}

// readsItsReceiver: f is a library wrapper around (*nodeLoc).read of its own receiver — every
// return hands back nil or the node that read produced (e.g. "read and test for presence").
func (w *World) readsItsReceiver(f *ssa.Function) bool {
	if f == nil || !w.InLib(f) || len(f.Params) == 0 || f.Blocks == nil {
		return false
	}
	okAll, some := true, false
	var fromRead func(v ssa.Value, d int) bool
	fromRead = func(v ssa.Value, d int) bool {
		if d > 6 {
			return false
		}
		if isNilConst(v) {
			return true
		}
		if ph, ok := v.(*ssa.Phi); ok {
			for _, e := range ph.Edges {
				if !fromRead(e, d+1) {
					return false
				}
			}
			return true
		}
		c := callOfValue(v)
		if c == nil || staticCalleeName(c) != "(*nodeLoc).read" || c.Common().Args[0] != ssa.Value(f.Params[0]) {
			return false
		}
		some = true
		return true
	}
	eachInstr(f, func(in ssa.Instruction) {
		if ret, ok := in.(*ssa.Return); ok {
			if len(ret.Results) == 0 || !fromRead(ret.Results[0], 0) {
				okAll = false
			}
		}
	})
	return okAll && some
}

// soleNonNilSource looks through φ-nodes all of whose non-nil operands are one value
// (`x = nil` on the rejecting arms, `x = n` on the accepting one).
func soleNonNilSource(v ssa.Value, d int) ssa.Value {
	ph, ok := v.(*ssa.Phi)
	if !ok || d > 4 {
		return v
	}
	var one ssa.Value
	for _, e := range ph.Edges {
		if isNilConst(e) {
			continue
		}
		e = soleNonNilSource(e, d+1)
		if one != nil && one != e {
			return v
		}
		one = e
	}
	if one == nil {
		return v
	}
	return one
}

package main

// Rules added after the fourth round of independently seeded changes (DESIGN §11.6).
//
//	S1c  a snapshot's collection handle carries the original handle's comparator (C04, C13, C06)
//	Z4   Store.size is consulted only by the write path, the open / revert scan, Snapshot and
//	     Stats — never to bound a read (a snapshot's size is frozen while the file grows) (C06, C04)
//	B6   the collecting pass of the block visits starts at the smallest key, not at a nil target (C16)
//	E1s  errors of the reads FlushRevert's scan makes are reported (C08)

import (
	"fmt"
	"strings"

	"golang.org/x/tools/go/ssa"
)

// ---------------------------------------------------------------- S1c

func ruleS1c(w *World, r *Report) {
	const rule = "S1c"
	fn := w.Fn("(*Store).Snapshot")
	if fn == nil {
		r.Unknown(rule, "anchor (*Store).Snapshot", "-", "exported API not found")
		return
	}
	n := 0
	fromOrig := func(v ssa.Value) bool {
		_, ok := isLoadOfField(stripConv(v), "Collection", "compare")
		return ok
	}
	eachInstr(fn, func(in ssa.Instruction) {
		switch x := in.(type) {
		case *ssa.Store:
			if base, isCmp := isFieldAddr(x.Addr, "Collection", "compare"); isCmp && w.unpublished(base) {
				n++
				r.Check(fromOrig(x.Val), rule, fmt.Sprintf("(*Store).Snapshot › comparator#%d of the snapshot handle is the original's", n), w.InstrPos(in), "compare: collOrig.compare", "the snapshot's collection does not take over the comparator of the handle it was taken from (it is looked up again by name, or defaulted): the shared tree is then walked in an order it was not built in — lookups miss, visits lose items")
			}
		case *ssa.Call:
			if staticCalleeName(x) == "(*Store).MakePrivateCollection" && len(x.Common().Args) > 1 {
				n++
				r.Check(fromOrig(x.Common().Args[1]), rule, fmt.Sprintf("(*Store).Snapshot › comparator#%d of the snapshot handle is the original's", n), w.InstrPos(in), "MakePrivateCollection(collOrig.compare)", "the snapshot's collection is built with another comparator than the one of the handle it was taken from (nil = bytes.Compare): the shared tree is then walked in an order it was not built in")
			}
		}
	})
	if n == 0 {
		r.Bad(rule, "(*Store).Snapshot › comparator of the snapshot handle is the original's", w.Pos(fn.Pos()), "Snapshot never gives its collection handles a comparator")
	}
}

// ---------------------------------------------------------------- Z4

func ruleZ4(w *World, r *Report) {
	const rule = "Z4"
	getters := w.sizeGetters()
	n := 0
	for _, fn := range w.Funcs {
		if !w.InLib(fn) {
			continue
		}
		loads := 0
		var at ssa.Instruction
		for _, op := range sizeOpsIn(fn) {
			if strings.Contains(op.Kind, "load") {
				loads++
				at = op.Instr
			}
		}
		eachInstr(fn, func(in ssa.Instruction) {
			if c, ok := in.(*ssa.Call); ok && c.Common().StaticCallee() != nil && getters[c.Common().StaticCallee()] {
				loads++
				at = in
			}
		})
		if loads == 0 || getters[fn] {
			continue
		}
		n++
		name := w.Name(fn)
		key := name + " › consults Store.size in a role that may"
		ent := w.entriesReachingNoOpen(fn)
		switch {
		case len(w.sizeWritesIn(fn)) > 0 || w.reachesSink(fn, "WriteAt", "Truncate") != nil:
			r.OK(rule, key, w.InstrPos(at), "write path / revert: the append position")
		case len(ent) > 0 && subsetOf(ent, map[string]bool{"NewStore": true, "NewStoreEx": true, "(*Store).FlushRevert": true}):
			r.OK(rule, key, w.InstrPos(at), "reachable only from open / FlushRevert: the scan's cursor")
		case name == "(*Store).Snapshot" || name == "(*Store).Stats" || len(ent) == 0:
			r.OK(rule, key, w.InstrPos(at), "copies / reports the size")
		default:
			r.Bad(rule, key, w.InstrPos(at), "a read path ("+strings.Join(ent, ", ")+") looks at Store.size: a snapshot keeps the size it was taken at while the shared file grows, so a bound derived from it refuses records the original flushed later — reads through the snapshot fail or come back short")
		}
	}
	r.Floor(rule, 5)
}

// ---------------------------------------------------------------- B6

func ruleB6(w *World, r *Report) {
	const rule = "B6"
	for _, name := range []string{"(*Collection).VisitItemsAscendBlockEx", "(*Collection).VisitItemsRandom"} {
		fn := w.Fn(name)
		if fn == nil {
			r.Unknown(rule, "anchor "+name, "-", "exported API not found")
			continue
		}
		loops := loopsOf(fn)
		found, ok := false, false
		var at ssa.Instruction
		eachInstr(fn, func(in ssa.Instruction) {
			c, isC := in.(*ssa.Call)
			if !isC || !strings.HasPrefix(staticCalleeName(c), "(*Collection).VisitItemsAscend") {
				return
			}
			for _, lp := range loops {
				if lp.body[in.Block()] {
					return // the presenting pass (per block / per round)
				}
			}
			found, at = true, in
			if _, fromItem := isLoadOfField(c.Common().Args[1], "Item", "Key"); fromItem {
				if mc := callOfValue(mustItemBase(c.Common().Args[1])); mc != nil && staticCalleeName(mc) == "(*Collection).MinItem" {
					ok = true
				}
			}
		})
		pos := w.Pos(fn.Pos())
		if at != nil {
			pos = w.InstrPos(at)
		}
		r.Check(found && ok, rule, name+" › the collecting pass starts at the smallest key", pos, "VisitItemsAscendEx(MinItem().Key, …)", "the pass that collects the block start keys does not start at the collection's smallest key (a nil / empty target is the smallest key only under bytes.Compare): under a custom comparator the keys ordered before it are never sampled and never presented")
	}
	r.Floor(rule, 2)
}

// ---------------------------------------------------------------- E1s

func ruleE1s(w *World, r *Report) {
	const rule = "E1s"
	root := w.Fn("(*Store).FlushRevert")
	if root == nil {
		r.Unknown(rule, "anchor (*Store).FlushRevert", "-", "exported API not found")
		return
	}
	reach := w.G.ReachFrom(root).Set
	for _, f := range w.Funcs {
		if !reach[f] || !w.InLib(f) || w.reachesSink(f, "ReadAt", "Stat") == nil {
			continue
		}
		for _, fc := range w.fallibleCalls(f) {
			w.checkErrorFlow(r, rule, fc)
		}
	}
	r.Floor(rule, 4)
}

package main

import "golang.org/x/tools/go/ssa"

// cmpCallOf: the comparator call (dynamic call with two arguments) on either side of a
// comparison with a constant.
func cmpCallOf(b *ssa.BinOp) (*ssa.Call, bool) {
	for _, v := range []ssa.Value{b.X, b.Y} {
		if call, ok := v.(*ssa.Call); ok && call.Common().StaticCallee() == nil && len(call.Common().Args) == 2 {
			if _, isB := call.Common().Value.(*ssa.Builtin); !isB {
				return call, true
			}
		}
	}
	return nil, false
}

package main

// Atomic facts implied by a branch condition, looking through the φ-nodes that go/ssa
// produces for && / || chains assigned to a variable, for results of (inlined) helpers
// that are assigned on several paths and tested afterwards (`err = …; if err != nil`),
// and for local cells stored just before the test.

import (
	"go/token"

	"golang.org/x/tools/go/ssa"
)

type Fact struct {
	Cond ssa.Value // atomic condition (BinOp, call, load, parameter …), NOT folded
	Pol  bool
}

// factsAt: every atomic fact known on entry of block b.
func factsAt(b *ssa.BasicBlock) []Fact {
	var out []Fact
	for _, g := range guardsOf(b) {
		out = append(out, condFacts(g.Cond, g.Pol, 0)...)
	}
	return out
}

// resolveLocalLoad: v is a load of a local cell whose last store lies in the same block
// with no call in between (a named result assigned right before it is tested).
func resolveLocalLoad(v ssa.Value) ssa.Value {
	u, ok := v.(*ssa.UnOp)
	if !ok || u.Op != token.MUL {
		return v
	}
	al, ok := u.X.(*ssa.Alloc)
	if !ok {
		return v
	}
	b := u.Block()
	idx := -1
	for i, in := range b.Instrs {
		if in == ssa.Instruction(u) {
			idx = i
		}
	}
	for i := idx - 1; i >= 0; i-- {
		switch x := b.Instrs[i].(type) {
		case *ssa.Store:
			if x.Addr == ssa.Value(al) {
				return x.Val
			}
		case ssa.CallInstruction:
			return v
		}
	}
	return v
}

// edgeFacts: what is known when control enters ph's block through predecessor i.
func edgeFacts(ph *ssa.Phi, i int, depth int) []Fact {
	var out []Fact
	pred := ph.Block().Preds[i]
	for _, g := range guardsOf(pred) {
		out = append(out, condFacts(g.Cond, g.Pol, depth+1)...)
	}
	// the edge pred→φ-block itself may be one arm of an If in pred
	if len(pred.Instrs) > 0 {
		if ifi, ok := pred.Instrs[len(pred.Instrs)-1].(*ssa.If); ok {
			switch {
			case pred.Succs[0] != pred.Succs[1]:
				if pred.Succs[0] == ph.Block() {
					out = append(out, condFacts(ifi.Cond, true, depth+1)...)
				} else if pred.Succs[1] == ph.Block() {
					out = append(out, condFacts(ifi.Cond, false, depth+1)...)
				}
			default:
				// both arms lead straight here (`if c { x = a } else { x = b }` with the empty
				// arms threaded away): the k-th entry of pred among the predecessors is its k-th arm
				k := 0
				for j := 0; j < i; j++ {
					if ph.Block().Preds[j] == pred {
						k++
					}
				}
				out = append(out, condFacts(ifi.Cond, k == 0, depth+1)...)
			}
		}
	}
	return out
}

func intersectFacts(sets [][]Fact) []Fact {
	if len(sets) == 0 {
		return nil
	}
	out := sets[0]
	for _, s := range sets[1:] {
		var keep []Fact
		for _, f := range out {
			for _, g := range s {
				if f == g {
					keep = append(keep, f)
					break
				}
			}
		}
		out = keep
	}
	return out
}

// triState of "e is nil": 1 yes, 0 no, -1 unknown.
func nilState(e ssa.Value) int {
	if isNilConst(e) {
		return 1
	}
	if isNonNilErrorValue(e) {
		return 0
	}
	switch e.(type) {
	case *ssa.Alloc, *ssa.MakeMap, *ssa.MakeSlice, *ssa.MakeChan, *ssa.MakeClosure, *ssa.Function, *ssa.FieldAddr, *ssa.IndexAddr:
		return 0
	}
	return -1
}

func condFacts(c ssa.Value, pol bool, depth int) []Fact {
	if depth > 6 {
		return nil
	}
	for {
		if u, ok := c.(*ssa.UnOp); ok && u.Op == token.NOT {
			c, pol = u.X, !pol
			continue
		}
		break
	}
	out := []Fact{{c, pol}}
	// x == nil / x != nil where x is assigned on several paths
	if b, ok := c.(*ssa.BinOp); ok && (b.Op == token.EQL || b.Op == token.NEQ) {
		var x ssa.Value
		switch {
		case isNilConst(b.Y):
			x = b.X
		case isNilConst(b.X):
			x = b.Y
		}
		if x != nil {
			x = resolveLocalLoad(x)
			if ct, isCT := x.(*ssa.ChangeType); isCT {
				x = ct.X
			}
			if ph, isPhi := x.(*ssa.Phi); isPhi {
				wantNil := (b.Op == token.EQL) == pol
				var sets [][]Fact
				for i, e := range ph.Edges {
					st := nilState(e)
					if st == -1 || (st == 1) == wantNil {
						sets = append(sets, edgeFacts(ph, i, depth))
					}
				}
				out = append(out, intersectFacts(sets)...)
			}
		}
		return out
	}
	ph, ok := c.(*ssa.Phi)
	if !ok {
		return out
	}
	// a && b && c  ==> φ(false, false, c): true only via the single non-constant edge,
	// whose predecessor is reached only when the earlier conjuncts held.
	// a || b || c  ==> φ(true, true, c): false only via the single non-constant edge.
	// A bool assigned on several paths (result of an inlined helper) is the general case:
	// the asked polarity holds only via the edges that can yield it.
	var sets [][]Fact
	for i, e := range ph.Edges {
		k, isK := e.(*ssa.Const)
		if isK && k.Value != nil {
			if (k.Value.String() == "true") == pol {
				sets = append(sets, edgeFacts(ph, i, depth))
			}
			continue
		}
		fs := append([]Fact{}, condFacts(e, pol, depth+1)...)
		fs = append(fs, edgeFacts(ph, i, depth)...)
		sets = append(sets, fs)
	}
	out = append(out, intersectFacts(sets)...)
	return out
}

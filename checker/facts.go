package main

// Atomic facts implied by a branch condition, looking through the φ-nodes that go/ssa
// produces for && / || chains assigned to a variable.

import (
	"go/token"

	"golang.org/x/tools/go/ssa"
)

type Fact struct {
	Cond ssa.Value // atomic condition (BinOp, call, load, parameter …), NOT folded
	Pol  bool
}

// factsAt: every atomic fact known on entry of block b.
func factsAt(b *ssa.BasicBlock) []Fact {
	var out []Fact
	for _, g := range guardsOf(b) {
		out = append(out, condFacts(g.Cond, g.Pol, 0)...)
	}
	return out
}

func condFacts(c ssa.Value, pol bool, depth int) []Fact {
	if depth > 6 {
		return nil
	}
	for {
		if u, ok := c.(*ssa.UnOp); ok && u.Op == token.NOT {
			c, pol = u.X, !pol
			continue
		}
		break
	}
	out := []Fact{{c, pol}}
	ph, ok := c.(*ssa.Phi)
	if !ok {
		return out
	}
	// a && b && c  ==> φ(false, false, c): true only via the single non-constant edge,
	// whose predecessor is reached only when the earlier conjuncts held.
	// a || b || c  ==> φ(true, true, c): false only via the single non-constant edge.
	var nonConst []int
	allOpp := true
	for i, e := range ph.Edges {
		k, isK := e.(*ssa.Const)
		if !isK || k.Value == nil {
			nonConst = append(nonConst, i)
			continue
		}
		if (k.Value.String() == "true") == pol {
			allOpp = false // a constant edge already gives the asked polarity: nothing implied
		}
	}
	if !allOpp || len(nonConst) != 1 {
		return out
	}
	i := nonConst[0]
	pred := ph.Block().Preds[i]
	out = append(out, condFacts(ph.Edges[i], pol, depth+1)...)
	for _, g := range guardsOf(pred) {
		out = append(out, condFacts(g.Cond, g.Pol, depth+1)...)
	}
	// the edge pred→φ-block itself may be one arm of an If in pred
	if len(pred.Instrs) > 0 {
		if ifi, ok := pred.Instrs[len(pred.Instrs)-1].(*ssa.If); ok && pred.Succs[0] != pred.Succs[1] {
			if pred.Succs[0] == ph.Block() {
				out = append(out, condFacts(ifi.Cond, true, depth+1)...)
			} else if pred.Succs[1] == ph.Block() {
				out = append(out, condFacts(ifi.Cond, false, depth+1)...)
			}
		}
	}
	return out
}

package main

// C15 — item reference counting: acquire/release pairing on all non-error paths
// (DESIGN §3.F, §4 C15).  R1 Evict→DecRef, R2 ItemAlloc→install|DecRef, R3 getters
// AddRef what they return, R4 node adoption/free symmetry, R5 internal users of
// getters release, R6 every DecRef releases a reference gkvlite holds.

import (
	"fmt"
	"go/types"
	"strings"

	"golang.org/x/tools/go/ssa"
)

const (
	fnDecRef = "(*Store).ItemDecRef"
	fnAddRef = "(*Store).ItemAddRef"
	fnAlloc  = "(*Store).ItemAlloc"
	fnEvict  = "(*node).Evict"
)

type resKeyT struct{ ssa.Value }

var resKey ssa.Value = &ssa.Const{}

func curRes(env *Env) ssa.Value { return env.vals[resKey] }

func isVal(env *Env, arg, cur ssa.Value) bool {
	if arg == nil || cur == nil {
		return false
	}
	r := env.Resolve(arg)
	if r == cur || sameVal(r, cur) {
		return true
	}
	if ph, ok := r.(*ssa.Phi); ok {
		for _, e := range ph.Edges {
			if e == cur {
				return true
			}
		}
	}
	return false
}

type PairSpec struct {
	Rule, Key string
	Fn        *ssa.Function
	Start     ssa.Instruction
	Val       ssa.Value
	ErrVal    ssa.Value // paired error: item non-nil ⇒ err == nil (contract R3b)
	What      string
	// StartBlock: begin at the head of this block instead of right after Start
	StartBlock *ssa.BasicBlock
}

// callArgs of Call/Defer/Go.
func callWithCallee(in ssa.Instruction, name string) (ssa.CallInstruction, bool) {
	c, ok := in.(ssa.CallInstruction)
	if !ok {
		return nil, false
	}
	return c, staticCalleeName(c) == name
}

// checkPair explores every path from the acquisition on which the resource may be
// non-nil and requires a release or a transfer before the function exits.
func (w *World) checkPair(r *Report, sp PairSpec) {
	var bad string
	var badTrail []*ssa.BasicBlock
	var badAt ssa.Instruction
	fail := func(msg string, in ssa.Instruction, trail []*ssa.BasicBlock) {
		if bad == "" {
			bad, badAt = msg, in
			badTrail = append([]*ssa.BasicBlock{}, trail...)
		}
	}
	env := newEnv()
	env.vals[resKey] = sp.Val
	wk := &Walker{Fn: sp.Fn}
	wk.OnInstr = func(env *Env, in ssa.Instruction, trail []*ssa.BasicBlock) bool {
		cur := curRes(env)
		if in == sp.Start {
			// the acquisition executes again (loop): a new instance begins here
			if !env.flags["released"] {
				fail(fmt.Sprintf("%s is still held when the loop acquires the next one", sp.What), in, trail)
			}
			return true
		}
		if c, ok := callWithCallee(in, fnDecRef); ok && len(c.Common().Args) == 3 && isVal(env, c.Common().Args[2], cur) {
			if env.flags["released"] {
				fail(fmt.Sprintf("%s is released twice on this path (the count drops below what gkvlite holds)", sp.What), in, trail)
				return true
			}
			env.flags["released"] = true // (a deferred release runs at exit)
			return false
		}
		switch x := in.(type) {
		case *ssa.Return:
			if env.flags["released"] {
				return true
			}
			for _, res := range x.Results {
				if isVal(env, res, cur) {
					return true // handed to the caller
				}
			}
			fail(fmt.Sprintf("%s is still held at this return: neither released (ItemDecRef) nor handed on", sp.What), in, trail)
			return true
		case *ssa.Store:
			if isVal(env, x.Val, cur) {
				switch x.Addr.(type) {
				case *ssa.FieldAddr, *ssa.IndexAddr, *ssa.Global:
					return true // stored into a longer-lived object (ownership transferred)
				}
			}
		case *ssa.Panic:
			return true
		case *ssa.Call:
			// after-read hook: the resource becomes the hook's result
			if cbf := callbackField(x.Common().Value); cbf == "AfterItemRead" {
				for _, a := range x.Common().Args {
					if isVal(env, a, cur) {
						if refs := x.Referrers(); refs != nil {
							for _, rf := range *refs {
								if ex, ok := rf.(*ssa.Extract); ok && ex.Index == 0 {
									env.vals[resKey] = ex
								}
							}
						}
					}
				}
			}
		}
		return false
	}
	wk.Branch = func(env *Env, ifi *ssa.If) (bool, bool) {
		cur := curRes(env)
		if x, trueMeansNil, ok := nilTest(ifi.Cond); ok {
			if isVal(env, x, cur) {
				return !trueMeansNil, trueMeansNil // only the arm where the resource is non-nil
			}
			if sp.ErrVal != nil && env.Resolve(x) == sp.ErrVal {
				// err != nil ⇒ no item was returned: nothing is held on that arm
				return trueMeansNil, !trueMeansNil
			}
		}
		return true, true
	}
	wk.OnEdge = func(env *Env, from, to *ssa.BasicBlock, idx int) bool {
		// successful install into the cache: casItem(old, cur) == true
		ifi, ok := from.Instrs[len(from.Instrs)-1].(*ssa.If)
		if !ok || idx != 0 {
			return false
		}
		if c, ok := ifi.Cond.(*ssa.Call); ok && staticCalleeName(c) == "(*itemLoc).casItem" && len(c.Common().Args) == 3 {
			if isVal(env, c.Common().Args[2], curRes(env)) {
				return true
			}
		}
		return false
	}
	if sp.StartBlock != nil {
		wk.RunBlock(sp.StartBlock, env)
	} else {
		wk.Run(sp.Start, env)
	}
	pos := w.InstrPos(sp.Start)
	if wk.Truncated {
		r.Unknown(sp.Rule, sp.Key, pos, "path exploration exceeded its state budget")
		return
	}
	if bad != "" {
		r.Bad(sp.Rule, sp.Key, pos, bad, append([]string{"exit @ " + w.InstrPos(badAt)}, trailString(w, badTrail)...)...)
		return
	}
	r.OK(sp.Rule, sp.Key, pos, sp.What+" is released or handed on along every path on which it is non-nil")
}

// addRefGetters: library functions returning (*Item, error) whose non-nil item carries a
// reference taken for the caller (directly or by passing through another getter).
func (w *World) addRefGetters() map[*ssa.Function]bool {
	if v, ok := w.cache["addRefGetters"]; ok {
		return v.(map[*ssa.Function]bool)
	}
	m := map[*ssa.Function]bool{}
	isItemGetter := func(fn *ssa.Function) bool {
		res := fn.Signature.Results()
		return res.Len() == 2 && isLibType(res.At(0).Type(), "Item") && isErrorType(res.At(1).Type())
	}
	changed := true
	for changed {
		changed = false
		for _, fn := range w.Funcs {
			if !w.InLib(fn) || m[fn] || !isItemGetter(fn) {
				continue
			}
			// a getter by API contract (exported, returns (*Item, error): "the returned item
			// carries a reference"), or a function whose tuple such a getter returns unchanged
			has := isExportedName(fn.Name()) && fn.Parent() == nil
			if !has {
				for g := range m {
					eachInstr(g, func(in ssa.Instruction) {
						if ret, ok := in.(*ssa.Return); ok && passThroughCallee(ret) == fn {
							has = true
						}
					})
				}
			}
			if has {
				m[fn] = true
				changed = true
			}
		}
	}
	w.cache["addRefGetters"] = m
	return m
}

func tupleExtract(c *ssa.Call, idx int) ssa.Value {
	if refs := c.Referrers(); refs != nil {
		for _, r := range *refs {
			if ex, ok := r.(*ssa.Extract); ok && ex.Index == idx {
				return ex
			}
		}
	}
	return nil
}

func ordKey(ord map[string]int, fnName, callee string) string {
	ord[callee]++
	return fmt.Sprintf("%s › call %s#%d", fnName, callee, ord[callee])
}

// R1: the item returned by Evict is released.
func ruleR1(w *World, r *Report) {
	const rule = "R1"
	for _, fn := range w.Funcs {
		if !w.InLib(fn) || len(w.entriesReaching(fn)) == 0 {
			continue
		}
		ord := map[string]int{}
		eachInstr(fn, func(in ssa.Instruction) {
			c, ok := callWithCallee(in, fnEvict)
			if !ok {
				return
			}
			key := ordKey(ord, w.Name(fn), fnEvict) + " › evicted item released"
			call, isCall := c.(*ssa.Call)
			if !isCall {
				r.Bad(rule, key, w.InstrPos(in), "Evict() is invoked by defer/go: the evicted item it returns is dropped without ItemDecRef (the node's cache reference leaks)")
				return
			}
			if refs := call.Referrers(); refs == nil || len(nonDebugRefs(*refs)) == 0 {
				r.Bad(rule, key, w.InstrPos(in), "the item returned by Evict() is discarded without ItemDecRef")
				return
			}
			w.checkPair(r, PairSpec{Rule: rule, Key: key, Fn: fn, Start: call, Val: call, What: "the evicted item"})
		})
	}
	r.Floor(rule, 2)
}

// R2: every path from ItemAlloc ends in a successful install or a DecRef.
func ruleR2(w *World, r *Report) {
	const rule = "R2"
	for _, fn := range w.Funcs {
		if !w.InLib(fn) || w.Name(fn) == fnAlloc {
			continue
		}
		ord := map[string]int{}
		eachInstr(fn, func(in ssa.Instruction) {
			c, ok := callWithCallee(in, fnAlloc)
			if !ok {
				return
			}
			key := ordKey(ord, w.Name(fn), fnAlloc) + " › installed or released"
			call, isCall := c.(*ssa.Call)
			if !isCall {
				r.Bad(rule, key, w.InstrPos(in), "ItemAlloc result dropped")
				return
			}
			w.checkPair(r, PairSpec{Rule: rule, Key: key, Fn: fn, Start: call, Val: call, What: "the freshly allocated item"})
		})
	}
	// R2b: the cached item replaced by a successful install is released
	for _, fn := range w.Funcs {
		if !w.InLib(fn) {
			continue
		}
		ord := map[string]int{}
		eachInstr(fn, func(in ssa.Instruction) {
			ifi, ok := in.(*ssa.If)
			if !ok {
				return
			}
			c, ok := ifi.Cond.(*ssa.Call)
			if !ok || staticCalleeName(c) != "(*itemLoc).casItem" || len(c.Common().Args) != 3 {
				return
			}
			old := c.Common().Args[1]
			if isNilConst(old) {
				return
			}
			if isNilConst(c.Common().Args[2]) {
				return // eviction: judged by R1 at the caller of Evict
			}
			key := ordKey(ord, w.Name(fn), "(*itemLoc).casItem") + " › replaced cached item released"
			w.checkPair(r, PairSpec{Rule: rule, Key: key, Fn: fn, Start: in, StartBlock: in.Block().Succs[0], Val: old, What: "the cached item replaced by the successful install"})
		})
	}
	r.Floor(rule, 2)
}

// R3: getters AddRef the item they return; and return a non-nil item only with a nil error.
func ruleR3(w *World, r *Report) {
	const rule = "R3"
	getters := w.addRefGetters()
	for _, fn := range w.Funcs {
		if !getters[fn] {
			continue
		}
		name := w.Name(fn)
		nret := 0
		wk := &Walker{Fn: fn}
		type retInfo struct {
			ok  bool
			why string
		}
		rets := map[*ssa.Return]*retInfo{}
		wk.OnInstr = func(env *Env, in ssa.Instruction, trail []*ssa.BasicBlock) bool {
			if c, ok := callWithCallee(in, fnAddRef); ok && len(c.Common().Args) == 3 {
				env.flags[fmt.Sprintf("addref:%p", env.Resolve(c.Common().Args[2]))] = true
			}
			ret, ok := in.(*ssa.Return)
			if !ok {
				return false
			}
			info := rets[ret]
			if info == nil {
				info = &retInfo{ok: true}
				rets[ret] = info
			}
			item := env.Resolve(ret.Results[0])
			errv := env.Resolve(ret.Results[1])
			if isNilConst(item) {
				return true
			}
			if ex, isEx := item.(*ssa.Extract); isEx && ex.Index == 0 {
				if ee, isEE := errv.(*ssa.Extract); isEE && ee.Tuple == ex.Tuple && ee.Index == 1 {
					if c, isC := ex.Tuple.(*ssa.Call); isC {
						if f := c.Common().StaticCallee(); f != nil && getters[f] {
							return true // passes a getter's (item, err) through unchanged
						}
					}
				}
			}
			if !env.flags[fmt.Sprintf("addref:%p", item)] {
				info.ok = false
				info.why = "a non-nil item is returned on a path with no ItemAddRef of that item"
			}
			if !isNilConst(errv) {
				info.ok = false
				info.why = "a non-nil item is returned together with a possibly non-nil error (callers release only when err == nil)"
			}
			return true
		}
		wk.Run(nil, nil)
		for _, b := range fn.Blocks {
			for _, in := range b.Instrs {
				ret, ok := in.(*ssa.Return)
				if !ok || b.Comment == "recover" {
					continue
				}
				nret++
				key := fmt.Sprintf("%s › return#%d › item carries a reference", name, nret)
				info := rets[ret]
				if info == nil {
					continue // unreachable return
				}
				r.Check(info.ok, rule, key, w.InstrPos(ret), "returns nil, a getter's result, or an item AddRef'd on this path, with a nil error", info.why)
			}
		}
	}
	r.Floor(rule, 6)
}

// R4: node constructor AddRefs the adopted item iff it is cached; free routine DecRefs
// under the same condition before the slot is cleared.
func ruleR4(w *World, r *Report) {
	const rule = "R4"
	mk := w.Fn("(*Collection).mkNode")
	fr := w.Fn("(*Collection).freeNodeUnlocked")
	if mk == nil || fr == nil {
		r.Unknown(rule, "anchors mkNode / freeNodeUnlocked", "-", "test-pinned allocator functions not found")
		return
	}
	// mkNode: AddRef(Item() of the itemLoc parameter) guarded by non-nil, and the item handle is copied
	okAdd, okCopy := false, false
	var itemParam *ssa.Parameter
	for _, p := range mk.Params {
		if isLibType(p.Type(), "itemLoc") {
			itemParam = p
		}
	}
	eachInstr(mk, func(in ssa.Instruction) {
		if c, ok := callWithCallee(in, fnAddRef); ok && len(c.Common().Args) == 3 {
			arg := c.Common().Args[2]
			if ic, ok := arg.(*ssa.Call); ok && staticCalleeName(ic) == "(*itemLoc).Item" && ic.Common().Args[0] == itemParam {
				if knownNonNil(in.Block(), arg) {
					okAdd = true
				}
			}
		}
		if c, ok := callWithCallee(in, "(*itemLoc).Copy"); ok && len(c.Common().Args) == 2 && c.Common().Args[1] == itemParam {
			okCopy = true
		}
	})
	r.Check(okAdd, rule, "(*Collection).mkNode › AddRef of the adopted cached item", w.Pos(mk.Pos()), "ItemAddRef(itemIn.Item()) under itemIn.Item() != nil", "mkNode does not AddRef the cached item of the handle it adopts: a second node shares the item with one reference")
	r.Check(okCopy, rule, "(*Collection).mkNode › adopts the item handle", w.Pos(mk.Pos()), "n.item.Copy(itemIn)", "mkNode does not copy the item handle it was given")
	// freeNodeUnlocked: DecRef(Item() of &n.item) guarded non-nil, dominating the clearing store
	okDec := false
	var decCall ssa.Instruction
	eachInstr(fr, func(in ssa.Instruction) {
		if c, ok := callWithCallee(in, fnDecRef); ok && len(c.Common().Args) == 3 {
			arg := c.Common().Args[2]
			if ic, ok := arg.(*ssa.Call); ok && staticCalleeName(ic) == "(*itemLoc).Item" {
				if _, isItemField := isFieldAddr(ic.Common().Args[0], "node", "item"); isItemField && knownNonNil(in.Block(), arg) {
					okDec = true
					decCall = in
				}
			}
		}
	})
	r.Check(okDec, rule, "(*Collection).freeNodeUnlocked › DecRef of the cached item", w.Pos(fr.Pos()), "ItemDecRef(n.item.Item()) under != nil", "the free routine does not release the cached item of the node it recycles")
	if okDec {
		// no path from entry to the clearing of n.item that avoids … the Item() load happening first
		cleared := false
		eachInstr(fr, func(in ssa.Instruction) {
			if st, ok := in.(*ssa.Store); ok {
				if _, isItem := isFieldAddr(st.Addr, "node", "item"); isItem {
					cleared = true
					if !instrDominates(decCall.(*ssa.Call).Common().Args[2].(*ssa.Call), in) {
						r.Bad(rule, "(*Collection).freeNodeUnlocked › item read before the slot is cleared", w.InstrPos(in), "n.item is cleared before its cached item is fetched for release")
					}
				}
			}
		})
		if cleared {
			r.OK(rule, "(*Collection).freeNodeUnlocked › item read before the slot is cleared", w.Pos(fr.Pos()), "the cached item is fetched before n.item is reset")
		}
	}
}

// R5: internal users of AddRef-returning getters release or hand on the item.
func ruleR5(w *World, r *Report) {
	const rule = "R5"
	getters := w.addRefGetters()
	for _, fn := range w.Funcs {
		if !w.InLib(fn) || len(w.entriesReaching(fn)) == 0 {
			continue
		}
		ord := map[string]int{}
		eachInstr(fn, func(in ssa.Instruction) {
			call, ok := in.(*ssa.Call)
			if !ok {
				return
			}
			f := call.Common().StaticCallee()
			if f == nil || !getters[f] {
				return
			}
			key := ordKey(ord, w.Name(fn), w.Name(f)) + " › item released or returned"
			item := tupleExtract(call, 0)
			if item == nil {
				r.Bad(rule, key, w.InstrPos(in), "the item returned by "+w.Name(f)+" (which carries a reference) is discarded")
				return
			}
			if why, ok := r5Exception[key]; ok {
				r.OK(rule, key, w.InstrPos(in), "exception: "+why)
				return
			}
			start := ssa.Instruction(call)
			p := posOf(call)
			for i := p.i + 1; i < len(p.b.Instrs); i++ {
				if ex, ok := p.b.Instrs[i].(*ssa.Extract); ok && ex.Tuple == call {
					start = ex
				} else {
					break
				}
			}
			w.checkPair(r, PairSpec{Rule: rule, Key: key, Fn: fn, Start: start, Val: item, ErrVal: tupleExtract(call, 1), What: "the item returned by " + w.Name(f)})
		})
	}
	r.Floor(rule, 8)
}

// one named exception, with its reason (DESIGN §8): confirmed by reading.
var r5Exception = map[string]string{
	"(*Collection).EvictSomeItems › call (*Store).walk#1 › item released or returned": "the chooser closure answers (nil,false) as soon as the next child is empty, so walk never reaches its leaf case and returns no item here; the `i != nil && err != nil` release is dead code",
}

// R6: every ItemDecRef releases a reference gkvlite holds: its argument is an evicted
// item, a getter's item, a freshly allocated (or after-read) item, the replaced cached
// item after a successful install, or the cached item of a node being freed.
func ruleR6(w *World, r *Report) {
	const rule = "R6"
	getters := w.addRefGetters()
	for _, fn := range w.Funcs {
		if !w.InLib(fn) || w.Name(fn) == fnDecRef {
			continue
		}
		ord := map[string]int{}
		eachInstr(fn, func(in ssa.Instruction) {
			c, ok := callWithCallee(in, fnDecRef)
			if !ok || len(c.Common().Args) != 3 {
				return
			}
			key := ordKey(ord, w.Name(fn), fnDecRef) + " › releases a held reference"
			ok2, why := w.heldRef(fn, in, c.Common().Args[2], getters, 0)
			r.Check(ok2, rule, key, w.InstrPos(in), why, why)
		})
	}
	r.Floor(rule, 8)
}

func (w *World) heldRef(fn *ssa.Function, at ssa.Instruction, v ssa.Value, getters map[*ssa.Function]bool, depth int) (bool, string) {
	if depth > 6 {
		return false, "origin too deep"
	}
	switch x := v.(type) {
	case *ssa.Phi:
		for _, e := range x.Edges {
			if isNilConst(e) || e == x {
				continue
			}
			if ok, why := w.heldRef(fn, at, e, getters, depth+1); !ok {
				return false, why
			}
		}
		return true, "every incoming value is a held reference"
	case *ssa.Call:
		name := staticCalleeName(x)
		switch name {
		case fnEvict:
			return true, "argument is the item returned by Evict() (the cache's reference)"
		case fnAlloc:
			return true, "argument is the item just returned by ItemAlloc (never installed)"
		case "(*itemLoc).Item":
			// replaced cached item after a successful install, or the item of a node being freed
			if w.Name(fn) == "(*Collection).freeNodeUnlocked" {
				return true, "argument is the cached item of the node being freed"
			}
			// must be dominated by the success edge of casItem(x, new)
			for _, g := range guardsOf(at.Block()) {
				c, pol := g.atom()
				if cc, ok := c.(*ssa.Call); ok && staticCalleeName(cc) == "(*itemLoc).casItem" && len(cc.Common().Args) == 3 && cc.Common().Args[1] == v && pol {
					return true, "argument is the previously cached item, released after casItem(old, new) succeeded"
				}
			}
			return false, "argument is a cached item (Item()) that is still installed: releasing it is premature"
		}
		if cbf := callbackField(x.Common().Value); cbf == "AfterItemRead" {
			return true, "argument is the result of the AfterItemRead hook applied to the allocated item"
		}
		return false, "argument is the result of " + name + ", which hands out no reference"
	case *ssa.Extract:
		if c, ok := x.Tuple.(*ssa.Call); ok && x.Index == 0 {
			if f := c.Common().StaticCallee(); f != nil {
				if getters[f] {
					return true, "argument is the item returned by " + w.Name(f) + " (reference taken for the caller)"
				}
				return false, "argument is the item returned by " + w.Name(f) + ", which takes no reference for its caller (the cache holds the only one)"
			}
			if cbf := callbackField(c.Common().Value); cbf == "AfterItemRead" {
				return true, "argument is the result of the AfterItemRead hook applied to the allocated item"
			}
		}
	case *ssa.Parameter:
		if fn.Parent() != nil || isExportedName(fn.Name()) {
			return true, "argument is a parameter of an exported wrapper / visitor closure"
		}
		// deferred closure parameter: look at the call sites
		return false, "argument is a parameter of an internal function"
	case *ssa.UnOp:
		// captured variable: loads of a cell; accept if every store into the cell is held
		if fv, ok := x.X.(*ssa.FreeVar); ok {
			_ = fv
			return false, "argument is a captured variable"
		}
	}
	return false, fmt.Sprintf("argument of unrecognised origin (%T)", v)
}

func init() {
	register(&Property{
		ID:    "C15",
		Level: "other",
		Rules: []Rule{{"R1", ruleR1}, {"R2", ruleR2}, {"R3", ruleR3}, {"R4", ruleR4}, {"R5", ruleR5}, {"R6", ruleR6}, {"V3b", ruleItemReadResult}, {"F7", ruleF7}, {"T345", ruleT345}, {"RC1", ruleRC1}},
		Explanation: "Acquire/release pairing of item references decided path-sensitively on the SSA of every function: R1 the item returned by node.Evict() is released; R2 every path from ItemAlloc ends in a successful install (casItem) or a release; R3 getters return nil, another getter's result, or an item AddRef'd on that path, and never a non-nil item with a non-nil error; R4 mkNode AddRefs the cached item it adopts and freeNodeUnlocked releases it before clearing the slot; R5 every internal user of an AddRef-returning getter releases the item or hands it on; R6 every ItemDecRef site releases a reference gkvlite holds (evicted, allocated, getter-returned, replaced-after-successful-install, or freed node's item) — never a still-installed cached item. Necessary conditions of 'balanced and never premature'; the balance of counts over whole histories and behaviour on fault paths are not decided.",
		Assumptions: []string{"ItemAlloc hands out an item with one reference", "neutral AfterItemRead returns the item it was given"},
		ControlSrc:  controlC15,
		Expect: []Expect{
			{"R1", "ZzCtlDropEvicted"},
			{"R5", "ZzCtlPeekMin"},
			{"R6", "ZzCtlPremature"},
			{"R3", "ZzCtlGetter"},
		},
	})
}

var _ = strings.Contains
var _ types.Type

const controlC15 = `package gkvlite

// positive controls for C15 (never part of /repo)
func (t *Collection) ZzCtlDropEvicted(n *node) { // evicted item leaked
	n.Evict()
}

func (t *Collection) ZzCtlPeekMin() (int, error) { // getter result never released
	i, err := t.MinItem(false)
	if err != nil || i == nil {
		return 0, err
	}
	return len(i.Key), nil
}

func (t *Collection) ZzCtlPremature(n *node) { // releases the still-installed cached item
	if i := n.item.Item(); i != nil {
		t.store.ItemDecRef(t, i)
	}
}

func (t *Collection) ZzCtlGetter(n *node) (*Item, error) { // hands out an item without AddRef
	i, err := n.item.read(t, false)
	if err != nil {
		return nil, err
	}
	if i != nil {
		return i, nil
	}
	j, err := t.MinItem(false)
	if j != nil {
		t.store.ItemAddRef(t, j)
	}
	return j, err
}
`

package main

// Program graph PG (DESIGN §3.A): functions and closures of the module; static call
// edges, lexical edges (closure creation, function values taken), CHA edges for
// in-module interfaces, synthetic json edges.  File sinks and callback points are
// recorded and not followed.

import (
	"fmt"
	"go/types"
	"sort"
	"strings"

	"golang.org/x/tools/go/ssa"
)

type Edge struct {
	From, To *ssa.Function
	Site     ssa.Instruction // call / MakeClosure / instruction taking the function value
	Kind     string          // static | closure | funcvalue | cha | json
}

type Sink struct {
	Fn     *ssa.Function
	Instr  ssa.CallInstruction
	Method string // ReadAt | WriteAt | Stat | Truncate
	Recv   string // receiver (interface or concrete) type
}

type Callback struct {
	Fn    *ssa.Function
	Instr ssa.CallInstruction
	Kind  string // visitor | comparator | store-callback | internal
	Desc  string // type name, field name or parameter name
}

type ExtCall struct {
	Fn     *ssa.Function
	Instr  ssa.CallInstruction
	Callee *ssa.Function // static callee outside the module
}

type Graph struct {
	W         *World
	Out       map[*ssa.Function][]*Edge
	In        map[*ssa.Function][]*Edge
	Sinks     []*Sink
	SinksIn   map[*ssa.Function][]*Sink
	Callbacks []*Callback
	CbIn      map[*ssa.Function][]*Callback
	Ext       map[*ssa.Function][]*ExtCall
	Invokes   map[*ssa.Function][]ssa.CallInstruction // unresolved interface invokes (neither sink nor in-module CHA)
	Escapes   []string                                 // function values that escape the call-argument discipline
}

var sinkMethods = map[string]bool{"ReadAt": true, "WriteAt": true, "Stat": true, "Truncate": true}

func (w *World) isSinkRecv(t types.Type, method string) bool {
	// receiver is an interface (StoreFile, io.ReaderAt, io.WriterAt or anything
	// embedding them) that declares the method with the file-API signature.
	if !sinkMethods[method] {
		return false
	}
	it, ok := t.Underlying().(*types.Interface)
	if !ok {
		return false
	}
	for i := 0; i < it.NumMethods(); i++ {
		m := it.Method(i)
		if m.Name() != method {
			continue
		}
		sig := m.Type().(*types.Signature)
		switch method {
		case "ReadAt", "WriteAt":
			return sig.Params().Len() == 2 && sig.Results().Len() == 2
		case "Stat":
			return sig.Params().Len() == 0 && sig.Results().Len() == 2
		case "Truncate":
			return sig.Params().Len() == 1 && sig.Results().Len() == 1
		}
	}
	return false
}

func BuildGraph(w *World) *Graph {
	g := &Graph{W: w, Out: map[*ssa.Function][]*Edge{}, In: map[*ssa.Function][]*Edge{},
		SinksIn: map[*ssa.Function][]*Sink{}, CbIn: map[*ssa.Function][]*Callback{},
		Ext: map[*ssa.Function][]*ExtCall{}, Invokes: map[*ssa.Function][]ssa.CallInstruction{}}
	inSet := map[*ssa.Function]bool{}
	for _, f := range w.Funcs {
		inSet[f] = true
	}
	addEdge := func(from, to *ssa.Function, site ssa.Instruction, kind string) {
		if !inSet[to] {
			return
		}
		e := &Edge{From: from, To: to, Site: site, Kind: kind}
		g.Out[from] = append(g.Out[from], e)
		g.In[to] = append(g.In[to], e)
	}
	// in-module methods by name for CHA / json
	var jsonMarshal, jsonUnmarshal []*ssa.Function
	for _, f := range w.Funcs {
		if f.Signature.Recv() != nil {
			switch f.Name() {
			case "MarshalJSON":
				jsonMarshal = append(jsonMarshal, f)
			case "UnmarshalJSON":
				jsonUnmarshal = append(jsonUnmarshal, f)
			}
		}
	}
	for _, fn := range w.Funcs {
		for _, b := range fn.Blocks {
			for _, in := range b.Instrs {
				// lexical edges: closures and function values
				if mc, ok := in.(*ssa.MakeClosure); ok {
					addEdge(fn, mc.Fn.(*ssa.Function), in, "closure")
					// a method value (`x.step`) is a synthetic bound-method closure: the code that
					// runs is the method itself, lexically attributed to the function taking it
					if bf := mc.Fn.(*ssa.Function); bf.Synthetic != "" && bf.Parent() == nil {
						for _, bb := range bf.Blocks {
							for _, bin := range bb.Instrs {
								if bc, ok := bin.(ssa.CallInstruction); ok {
									if m := bc.Common().StaticCallee(); m != nil && inSet[m] {
										addEdge(fn, m, in, "closure")
									}
								}
							}
						}
					}
					if w.InLib(fn) {
						g.checkEscape(fn, mc)
					}
				}
				call, isCall := in.(ssa.CallInstruction)
				for _, op := range in.Operands(nil) {
					if op == nil || *op == nil {
						continue
					}
					if f, ok := (*op).(*ssa.Function); ok {
						if isCall && call.Common().Value == f && !call.Common().IsInvoke() {
							continue // callee position, handled below
						}
						if _, isMC := in.(*ssa.MakeClosure); isMC {
							continue
						}
						addEdge(fn, f, in, "funcvalue")
						if inSet[f] && w.InLib(fn) {
							g.checkFuncValueUse(fn, in, f)
						}
					}
				}
				if !isCall {
					continue
				}
				c := call.Common()
				if c.IsInvoke() {
					recvT := c.Value.Type()
					name := c.Method.Name()
					if w.isSinkRecv(recvT, name) {
						s := &Sink{Fn: fn, Instr: call, Method: name, Recv: shortName(recvT.String())}
						g.Sinks = append(g.Sinks, s)
						g.SinksIn[fn] = append(g.SinksIn[fn], s)
						continue
					}
					// CHA for interfaces declared in the module
					if n := namedOf(recvT); n != nil && n.Obj().Pkg() != nil && strings.HasPrefix(n.Obj().Pkg().Path(), modPath) {
						found := false
						for _, f := range w.Funcs {
							if f.Signature.Recv() == nil || f.Name() != name {
								continue
							}
							if types.Implements(f.Signature.Recv().Type(), recvT.Underlying().(*types.Interface)) {
								addEdge(fn, f, in, "cha")
								found = true
							}
						}
						_ = found
						continue
					}
					g.Invokes[fn] = append(g.Invokes[fn], call)
					continue
				}
				if callee := c.StaticCallee(); callee != nil {
					if inSet[callee] {
						addEdge(fn, callee, in, "static")
					} else {
						g.Ext[fn] = append(g.Ext[fn], &ExtCall{Fn: fn, Instr: call, Callee: callee})
						// synthetic json edges
						cn := callee.String()
						if strings.HasPrefix(cn, "encoding/json.Marshal") || cn == "(*encoding/json.Encoder).Encode" {
							for _, f := range jsonMarshal {
								addEdge(fn, f, in, "json")
							}
						}
						if cn == "encoding/json.Unmarshal" || cn == "(*encoding/json.Decoder).Decode" {
							for _, f := range jsonUnmarshal {
								addEdge(fn, f, in, "json")
							}
						}
						// concrete *os.File sinks (tools)
						if sinkMethods[callee.Name()] && callee.Signature.Recv() != nil && typeIs(callee.Signature.Recv().Type(), "os", "File") {
							s := &Sink{Fn: fn, Instr: call, Method: callee.Name(), Recv: "*os.File"}
							g.Sinks = append(g.Sinks, s)
							g.SinksIn[fn] = append(g.SinksIn[fn], s)
						}
					}
					continue
				}
				if _, ok := c.Value.(*ssa.Builtin); ok {
					continue
				}
				// dynamic call of a function value: callback point
				cb := &Callback{Fn: fn, Instr: call}
				cb.Kind, cb.Desc = classifyCallback(w, c.Value)
				g.Callbacks = append(g.Callbacks, cb)
				g.CbIn[fn] = append(g.CbIn[fn], cb)
			}
		}
	}
	sort.Slice(g.Sinks, func(i, j int) bool { return g.sinkKey(g.Sinks[i]) < g.sinkKey(g.Sinks[j]) })
	return g
}

func (g *Graph) sinkKey(s *Sink) string {
	return fmt.Sprintf("%s|%s|%09d", g.W.Name(s.Fn), s.Method, s.Instr.Pos())
}

// SinkName gives a stable construct key for a sink: function › Method#ordinal.
func (g *Graph) SinkName(s *Sink) string {
	n := 0
	for _, o := range g.SinksIn[s.Fn] {
		if o.Method == s.Method {
			n++
			if o == s {
				break
			}
		}
	}
	return fmt.Sprintf("%s › %s#%d", g.W.Name(s.Fn), s.Method, n)
}

func classifyCallback(w *World, v ssa.Value) (kind, desc string) {
	if n := namedOf(v.Type()); n != nil {
		switch n.Obj().Name() {
		case "ItemVisitor", "ItemVisitorEx", "BlockMangler", "iteratorVisitor":
			return "visitor", n.Obj().Name()
		case "KeyCompare":
			return "comparator", n.Obj().Name()
		case "ItemCallback":
			if fld := callbackField(v); fld != "" {
				return "store-callback", fld
			}
			return "store-callback", n.Obj().Name()
		}
	}
	if fld := callbackField(v); fld != "" {
		return "store-callback", fld
	}
	switch x := v.(type) {
	case *ssa.Parameter:
		return "internal", "param " + x.Name()
	case *ssa.FreeVar:
		return "internal", "captured " + x.Name()
	case *ssa.UnOp:
		if fv, ok := x.X.(*ssa.FreeVar); ok {
			return "internal", "captured " + fv.Name()
		}
	}
	return "internal", v.Name()
}

// callbackField: v is a load of a field of StoreCallbacks.
func callbackField(v ssa.Value) string {
	switch x := v.(type) {
	case *ssa.UnOp:
		if fa, ok := x.X.(*ssa.FieldAddr); ok {
			if _, st, name, ok := fieldOf(fa); ok && st != nil && st.Obj().Name() == "StoreCallbacks" {
				return name
			}
		}
	case *ssa.Field:
		if _, st, name, ok := fieldOf(x); ok && st != nil && st.Obj().Name() == "StoreCallbacks" {
			return name
		}
	}
	return ""
}

// checkEscape: a closure value may only flow into call arguments, call value, defer/go,
// phi/local single-assignment cells that are themselves only called or passed.  Anything
// else (stored into a struct field, map, channel, global, returned) is recorded.
func (g *Graph) checkEscape(fn *ssa.Function, mc *ssa.MakeClosure) {
	g.escapeWalk(fn, mc, mc, map[ssa.Value]bool{})
}

func (g *Graph) checkFuncValueUse(fn *ssa.Function, in ssa.Instruction, f *ssa.Function) {
	if call, ok := in.(ssa.CallInstruction); ok {
		for _, a := range call.Common().Args {
			if a == f {
				return
			}
		}
	}
	switch in.(type) {
	case *ssa.Phi, *ssa.ChangeType, *ssa.MakeInterface:
		return
	}
	g.Escapes = append(g.Escapes, fmt.Sprintf("%s: function value %s used by %T at %s", g.W.Name(fn), g.W.Name(f), in, g.W.InstrPos(in)))
}

func (g *Graph) escapeWalk(fn *ssa.Function, origin *ssa.MakeClosure, v ssa.Value, seen map[ssa.Value]bool) {
	if seen[v] {
		return
	}
	seen[v] = true
	refs := v.Referrers()
	if refs == nil {
		return
	}
	for _, r := range *refs {
		switch x := r.(type) {
		case ssa.CallInstruction:
			// fine: callee or argument (including bound into defer/go)
			_ = x
		case *ssa.Phi:
			g.escapeWalk(fn, origin, x, seen)
		case *ssa.ChangeType:
			g.escapeWalk(fn, origin, x, seen)
		case *ssa.Store:
			if x.Val != v {
				continue
			}
			// store into a local alloc (captured variable cell) is fine if that cell's
			// loads obey the same discipline
			if al, ok := x.Addr.(*ssa.Alloc); ok {
				if lr := al.Referrers(); lr != nil {
					for _, u := range *lr {
						if ld, ok := u.(*ssa.UnOp); ok {
							g.escapeWalk(fn, origin, ld, seen)
						}
					}
				}
				continue
			}
			if fv, ok := x.Addr.(*ssa.FreeVar); ok {
				_ = fv // assignment to a captured func variable of the parent: same lexical family
				continue
			}
			g.Escapes = append(g.Escapes, fmt.Sprintf("%s: closure %s stored to %s at %s", g.W.Name(fn), g.W.Name(origin.Fn.(*ssa.Function)), x.Addr, g.W.InstrPos(x)))
		case *ssa.MakeClosure:
			// captured by another closure as a binding: same lexical family
		case *ssa.DebugRef:
		case *ssa.Return:
			g.Escapes = append(g.Escapes, fmt.Sprintf("%s: closure %s returned at %s", g.W.Name(fn), g.W.Name(origin.Fn.(*ssa.Function)), g.W.InstrPos(x)))
		default:
			g.Escapes = append(g.Escapes, fmt.Sprintf("%s: closure %s used by %T at %s", g.W.Name(fn), g.W.Name(origin.Fn.(*ssa.Function)), r, g.W.InstrPos(r)))
		}
	}
}

// Reach computes the set of functions reachable from the roots, with BFS parents for
// witness paths.
type Reach struct {
	G      *Graph
	Set    map[*ssa.Function]bool
	parent map[*ssa.Function]*Edge
}

func (g *Graph) ReachFrom(roots ...*ssa.Function) *Reach {
	return g.ReachFromFiltered(nil, roots...)
}

// ReachFromFiltered: skip(e) == true removes the edge from the traversal.
func (g *Graph) ReachFromFiltered(skip func(*Edge) bool, roots ...*ssa.Function) *Reach {
	r := &Reach{G: g, Set: map[*ssa.Function]bool{}, parent: map[*ssa.Function]*Edge{}}
	var q []*ssa.Function
	for _, f := range roots {
		if f != nil && !r.Set[f] {
			r.Set[f] = true
			q = append(q, f)
		}
	}
	for len(q) > 0 {
		f := q[0]
		q = q[1:]
		for _, e := range g.Out[f] {
			if skip != nil && skip(e) {
				continue
			}
			if !r.Set[e.To] {
				r.Set[e.To] = true
				r.parent[e.To] = e
				q = append(q, e.To)
			}
		}
	}
	return r
}

// Path returns the witness call path root → … → f as "caller → callee (kind, pos)" lines.
func (r *Reach) Path(f *ssa.Function) []string {
	var rev []string
	for {
		e := r.parent[f]
		if e == nil {
			break
		}
		rev = append(rev, fmt.Sprintf("%s → %s [%s @ %s]", r.G.W.Name(e.From), r.G.W.Name(e.To), e.Kind, r.G.W.InstrPos(e.Site)))
		f = e.From
	}
	for i, j := 0, len(rev)-1; i < j; i, j = i+1, j-1 {
		rev[i], rev[j] = rev[j], rev[i]
	}
	return rev
}

// Exported API entries of the library: exported functions and exported methods of
// exported types, declared in package gkvlite.
func (w *World) Exported() []*ssa.Function {
	var out []*ssa.Function
	for _, f := range w.Funcs {
		if !w.InLib(f) || f.Parent() != nil || f.Synthetic != "" {
			continue
		}
		if !isExportedName(f.Name()) {
			continue
		}
		if recv := f.Signature.Recv(); recv != nil {
			n := namedOf(recv.Type())
			if n == nil || !n.Obj().Exported() {
				continue
			}
		}
		out = append(out, f)
	}
	return out
}

func isExportedName(s string) bool { return s != "" && s[0] >= 'A' && s[0] <= 'Z' }

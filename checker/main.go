package main

import (
	"encoding/json"
	"flag"
	"fmt"
	"os"
	"path/filepath"
	"runtime/debug"
	"sort"
	"strconv"
	"strings"
	"time"
)

type Rule struct {
	Name string
	Run  func(w *World, r *Report)
}

// Property describes how one property is decided.
type Property struct {
	ID          string
	Level       string // evidence level
	Rules       []Rule
	Explanation string
	Assumptions []string
	Trusted     []string
	// Controls: Go source added to package gkvlite as zz_verif_control.go; every
	// expectation must be reported as violated on the control world.
	ControlSrc   string
	ControlExtra []string // further control files (own imports)
	ControlEdits []ControlEdit
	Expect       []Expect
}

// ControlEdit splices a statement at the start of the body of a named function of
// package gkvlite (located through the parsed AST, not by text).
type ControlEdit struct {
	Func string // "NewStoreEx" or "Store.Flush"
	Stmt string
}

type Expect struct {
	Rule     string
	Contains string // substring of the construct key
}

var properties = map[string]*Property{}

func register(p *Property) { properties[p.ID] = p }

type KnownFinding struct {
	Property  string `json:"property"`
	Rule      string `json:"rule"`
	Construct string `json:"construct"`
	Status    string `json:"status"` // known | fixed
	Commit    string `json:"commit,omitempty"`
	What      string `json:"what"`
}

type Evidence struct {
	PropertyID  string                 `json:"property_id"`
	Tier        string                 `json:"tier"`
	Seed        int                    `json:"seed"`
	Level       string                 `json:"level"`
	Coverage    map[string]interface{} `json:"coverage"`
	Assumptions []string               `json:"assumptions"`
	WallS       float64                `json:"wall_s"`
	Violations  int                    `json:"violations"`
}

var (
	flagProp    = flag.String("property", "", "property id (C01..C19) or 'all'")
	flagTier    = flag.String("tier", "quick", "quick | thorough")
	flagRepo    = flag.String("repo", "/repo", "repository root")
	flagVerif   = flag.String("verif", "/verif", "verif root (evidence, known findings)")
	flagReplay  = flag.String("replay", "", "replay file: re-decide that one obligation")
	flagDump    = flag.Bool("dump", false, "print every obligation")
	flagNoCtl   = flag.Bool("nocontrols", false, "skip positive controls (development only)")
	flagMutant  = flag.String("mutant", "", "run one mutant of the corpus (internal, thorough tier)")
	flagListMut = flag.Bool("list-mutants", false, "list mutant ids for the property")
	flagSeeded  = flag.String("seeded", "", "run one seeded change (directory under /verif/seeded; internal, thorough tier)")
	flagGenKnown = flag.Bool("gen-known", false, "print knownfuncs.go (table and fingerprints of the library's functions) for -repo and exit")
	flagPreserv = flag.String("preserving", "", "run one behaviour-preserving refactoring (directory under /verif/preserving; internal, thorough tier)")
	flagVariant = flag.String("variant", "", "internal: build-configuration variant (386|race|tests)")
	flagNoEv    = flag.Bool("noevidence", false, "do not write evidence (development / subprocess)")
)

func main() {
	flag.Parse()
	if *flagGenKnown {
		genKnown(*flagRepo)
		return
	}
	if *flagProp == "" {
		fmt.Fprintln(os.Stderr, "usage: gkvcheck -property Cnn [-tier quick|thorough]")
		os.Exit(2)
	}
	if t := os.Getenv("VERIF_TIER"); t != "" && !isFlagSet("tier") {
		*flagTier = t
	}
	code := 0
	// watchdog: a checker that does not finish is a failed check, never a silent pass
	go func() {
		limit := 15 * time.Minute
		if *flagTier == "thorough" {
			limit = 60 * time.Minute
		}
		time.Sleep(limit)
		fmt.Printf("CHECKER-TIMEOUT after %v\nVIOLATION property=%s replay=%s\n", limit, *flagProp, "checker-timeout")
		os.Exit(1)
	}()
	func() {
		defer func() {
			if e := recover(); e != nil {
				fmt.Printf("CHECKER-PANIC: %v\n%s\n", e, debug.Stack())
				fmt.Printf("VIOLATION property=%s replay=%s\n", *flagProp, "checker-panic")
				code = 1
			}
		}()
		code = run()
	}()
	os.Exit(code)
}

func isFlagSet(name string) bool {
	set := false
	flag.Visit(func(f *flag.Flag) {
		if f.Name == name {
			set = true
		}
	})
	return set
}

func loadKnown() []KnownFinding {
	var kf []KnownFinding
	b, err := os.ReadFile(filepath.Join(*flagVerif, "known_findings.json"))
	if err != nil {
		return nil
	}
	var doc struct {
		Findings []KnownFinding `json:"findings"`
	}
	if err := json.Unmarshal(b, &doc); err != nil {
		panic(fmt.Sprintf("known_findings.json: %v", err))
	}
	kf = doc.Findings
	return kf
}

func run() int {
	start := time.Now()
	for _, f := range lateAttach {
		f()
	}
	lateAttach = nil
	p := properties[*flagProp]
	if p == nil {
		fmt.Printf("unknown property %q\n", *flagProp)
		return 2
	}
	if *flagListMut {
		for _, m := range mutantsFor(p.ID) {
			fmt.Println(m.ID)
		}
		return 0
	}
	seed, _ := strconv.Atoi(os.Getenv("VERIF_SEED"))

	if *flagMutant != "" {
		return runMutant(p, *flagMutant)
	}
	if *flagPreserv != "" {
		return runPreserving(p, *flagPreserv)
	}
	if *flagSeeded != "" {
		return runSeeded(p, *flagSeeded)
	}

	var env []string
	tags := ""
	switch *flagVariant {
	case "386":
		env = []string{"GOARCH=386"}
	case "race":
		tags = "race"
	}
	w, err := LoadWorld(*flagRepo, nil, env, tags)
	if err != nil {
		fmt.Printf("LOAD-FAILURE: %v\n", err)
		fmt.Printf("VIOLATION property=%s replay=%s\n", p.ID, "load-failure")
		writeEvidence(p, *flagTier, seed, nil, nil, []string{"load failure: " + err.Error()}, time.Since(start).Seconds(), 1, nil)
		return 1
	}
	rep := runRules(p, w)

	// known findings
	known := loadKnown()
	fails := 0
	var failLines []string
	for _, o := range rep.Obs {
		if o.Status == Violated {
			for _, k := range known {
				if k.Status == "known" && k.Property == p.ID && k.Rule == o.Rule && k.Construct == o.Construct {
					o.Status = Known
					o.Detail += " [known finding: " + k.What + "]"
					fmt.Printf("KNOWN-FINDING: property=%s %s\n", p.ID, k.What)
				}
			}
		}
	}
	replayDir := filepath.Join(*flagVerif, "evidence", "replay")
	if !*flagNoEv {
		os.MkdirAll(replayDir, 0o755)
		old, _ := filepath.Glob(filepath.Join(replayDir, p.ID+"-*.json"))
		for _, f := range old {
			os.Remove(f)
		}
	}
	k := 0
	for _, o := range rep.Obs {
		if o.Status == Violated || o.Status == Undecided {
			fails++
			k++
			rp := filepath.Join(replayDir, fmt.Sprintf("%s-%d.json", p.ID, k))
			if !*flagNoEv {
				b, _ := json.MarshalIndent(map[string]interface{}{"property": p.ID, "obligation": o}, "", " ")
				os.WriteFile(rp, b, 0o644)
			}
			failLines = append(failLines, fmt.Sprintf("%s %s [%s] %s @ %s: %s", strings.ToUpper(string(o.Status)), p.ID, o.Rule, o.Construct, o.Pos, o.Detail))
			for _, wl := range o.Witness {
				failLines = append(failLines, "    "+wl)
			}
			failLines = append(failLines, fmt.Sprintf("VIOLATION property=%s replay=%s", p.ID, rp))
		}
	}
	// instance floors
	for _, rule := range sortedKeys(rep.Floors) {
		if n := rep.Count(rule); n < rep.Floors[rule] {
			fails++
			failLines = append(failLines, fmt.Sprintf("FLOOR %s [%s]: %d instances matched, floor is %d (rule would pass vacuously)", p.ID, rule, n, rep.Floors[rule]))
			failLines = append(failLines, fmt.Sprintf("VIOLATION property=%s replay=%s", p.ID, "floor-"+rule))
		}
	}
	// controls
	var ctlNotes []string
	if !*flagNoCtl && p.ControlSrc != "" && *flagVariant == "" {
		ok, notes := runControls(p)
		ctlNotes = notes
		if !ok {
			fails++
			for _, n := range notes {
				failLines = append(failLines, "CONTROL "+n)
			}
			failLines = append(failLines, fmt.Sprintf("VIOLATION property=%s replay=%s", p.ID, "control-blind"))
		}
	}
	// thorough tier extras
	var extra map[string]interface{}
	if *flagTier == "thorough" && *flagVariant == "" {
		var tf int
		var tl []string
		extra, tf, tl = runThorough(p, rep)
		fails += tf
		failLines = append(failLines, tl...)
	}

	if *flagDump {
		for _, o := range rep.Obs {
			fmt.Printf("  %-13s [%s] %s @ %s — %s\n", o.Status, o.Rule, o.Construct, o.Pos, o.Detail)
		}
	}
	// summary
	counts := map[Status]int{}
	perRule := map[string]int{}
	for _, o := range rep.Obs {
		counts[o.Status]++
		perRule[o.Rule]++
	}
	fmt.Printf("gkvcheck %s tier=%s variant=%q: %d functions, %d sinks, %d callback points; %d obligations: %d discharged, %d known-finding, %d violated, %d undecided\n",
		p.ID, *flagTier, *flagVariant, len(w.Funcs), len(w.G.Sinks), len(w.G.Callbacks), len(rep.Obs), counts[Discharged], counts[Known], counts[Violated], counts[Undecided])
	for _, rn := range sortedKeys(perRule) {
		fmt.Printf("  rule %-10s %3d instances\n", rn, perRule[rn])
	}
	for _, n := range w.NormNotes {
		fmt.Println("  normalised:", n)
	}
	for _, n := range rep.Notes {
		fmt.Println("  note:", n)
	}
	for _, n := range ctlNotes {
		fmt.Println("  control:", n)
	}
	for _, l := range failLines {
		fmt.Println(l)
	}
	if *flagReplay != "" {
		return replay(rep, *flagReplay)
	}
	if !*flagNoEv && *flagVariant == "" {
		writeEvidence(p, *flagTier, seed, w, rep, ctlNotes, time.Since(start).Seconds(), fails, extra)
	}
	if fails > 0 {
		return 1
	}
	return 0
}

func runRules(p *Property, w *World) *Report {
	rep := NewReport(p.ID)
	for _, rule := range p.Rules {
		func() {
			defer func() {
				if e := recover(); e != nil {
					rep.Unknown(rule.Name, "checker panic in rule", "-", fmt.Sprintf("%v\n%s", e, debug.Stack()))
				}
			}()
			rule.Run(w, rep)
		}()
	}
	sort.SliceStable(rep.Obs, func(i, j int) bool {
		if rep.Obs[i].Rule != rep.Obs[j].Rule {
			return rep.Obs[i].Rule < rep.Obs[j].Rule
		}
		return rep.Obs[i].Construct < rep.Obs[j].Construct
	})
	return rep
}

func replay(rep *Report, path string) int {
	b, err := os.ReadFile(path)
	if err != nil {
		fmt.Println("replay:", err)
		return 2
	}
	var doc struct {
		Property   string `json:"property"`
		Obligation Ob     `json:"obligation"`
	}
	if err := json.Unmarshal(b, &doc); err != nil {
		fmt.Println("replay:", err)
		return 2
	}
	for _, o := range rep.Obs {
		if o.Rule == doc.Obligation.Rule && o.Construct == doc.Obligation.Construct {
			fmt.Printf("REPLAY %s [%s] %s: now %s — %s\n", doc.Property, o.Rule, o.Construct, o.Status, o.Detail)
			if o.Status == Violated || o.Status == Undecided {
				fmt.Printf("VIOLATION property=%s replay=%s\n", doc.Property, path)
				return 1
			}
			return 0
		}
	}
	fmt.Printf("REPLAY %s [%s] %s: obligation no longer exists\n", doc.Property, doc.Obligation.Rule, doc.Obligation.Construct)
	return 0
}

// runControls loads the control world and requires every expectation to be violated.
func runControls(p *Property) (bool, []string) {
	overlay := map[string][]byte{filepath.Join(*flagRepo, "zz_verif_control.go"): []byte(p.ControlSrc)}
	for i, src := range p.ControlExtra {
		overlay[filepath.Join(*flagRepo, fmt.Sprintf("zz_verif_control_%d.go", i+2))] = []byte(src)
	}
	for _, e := range p.ControlEdits {
		file, src, err := spliceAtFuncStart(*flagRepo, e.Func, e.Stmt, overlay)
		if err != nil {
			return false, []string{"control edit failed: " + err.Error()}
		}
		overlay[file] = src
	}
	w, err := LoadWorld(*flagRepo, overlay, nil, "")
	if err != nil {
		return false, []string{"control world failed to load: " + err.Error()}
	}
	rep := runRules(p, w)
	ok := true
	var notes []string
	for _, e := range p.Expect {
		hit := false
		for _, o := range rep.Obs {
			if o.Rule == e.Rule && (o.Status == Violated || o.Status == Undecided) && strings.Contains(o.Construct, e.Contains) {
				hit = true
				break
			}
		}
		if hit {
			notes = append(notes, fmt.Sprintf("fired: [%s] %s", e.Rule, e.Contains))
		} else {
			ok = false
			notes = append(notes, fmt.Sprintf("BLIND: rule %s did not flag control construct %q", e.Rule, e.Contains))
		}
	}
	return ok, notes
}

func writeEvidence(p *Property, tier string, seed int, w *World, rep *Report, ctl []string, wall float64, fails int, extra map[string]interface{}) {
	cov := map[string]interface{}{}
	ev := Evidence{PropertyID: p.ID, Tier: tier, Seed: seed, Level: p.Level, Coverage: cov, Assumptions: p.Assumptions, WallS: wall, Violations: fails}
	if ev.Assumptions == nil {
		ev.Assumptions = []string{}
	}
	cov["explanation"] = p.Explanation + explanationAddenda[p.ID]
	cov["checker_cmd"] = fmt.Sprintf("/verif/bin/gkvcheck -property %s -tier %s", p.ID, tier)
	if w != nil {
		norm := w.NormNotes
		if norm == nil {
			norm = []string{"no helper outside the table of known functions and no directly-called local closure: the source was analysed as written"}
		}
		cov["source_normalisation"] = norm
	}
	cov["trusted_base"] = append([]string{"go/types, go/ssa (golang.org/x/tools v0.29.0)", "closed-world check of DESIGN §3.A", "user callbacks are behaviourally neutral"}, p.Trusted...)
	if rep != nil {
		disc := 0
		distinct := map[string]bool{}
		perRule := map[string]map[string]int{}
		var obs []map[string]interface{}
		var samples []interface{}
		for _, o := range rep.Obs {
			if o.Status == Discharged {
				disc++
			}
			distinct[o.Rule+"|"+o.Construct] = true
			if perRule[o.Rule] == nil {
				perRule[o.Rule] = map[string]int{}
			}
			perRule[o.Rule][string(o.Status)]++
			m := map[string]interface{}{"rule": o.Rule, "construct": o.Construct, "pos": o.Pos, "status": o.Status}
			if o.Detail != "" {
				m["detail"] = o.Detail
			}
			if len(o.Witness) > 0 {
				m["witness"] = o.Witness
			}
			obs = append(obs, m)
		}
		// samples: first obligation of each rule
		seen := map[string]bool{}
		for _, m := range obs {
			rn := m["rule"].(string)
			if !seen[rn] {
				seen[rn] = true
				samples = append(samples, m)
			}
		}
		cov["obligations"] = len(rep.Obs)
		cov["discharged"] = disc
		cov["evaluations"] = len(rep.Obs)
		cov["distinct_nontrivial"] = len(distinct)
		cov["rule"] = "one obligation per (rule, construct) instance enumerated from the SSA / call graph of /repo's current tree; distinct = distinct (rule, construct) keys; every instance is non-trivial in that it is a site the rule had to decide"
		cov["samples"] = samples
		cov["per_rule"] = perRule
		cov["all_obligations"] = obs
		cov["notes"] = rep.Notes
		cov["floors"] = rep.Floors
		cov["exhaustive"] = true
		for k, v := range rep.Info {
			cov[k] = v
		}
	} else {
		cov["obligations"] = 0
		cov["discharged"] = 0
		cov["evaluations"] = 0
		cov["distinct_nontrivial"] = 0
		cov["samples"] = []interface{}{}
	}
	if w != nil {
		cov["analysed"] = map[string]interface{}{
			"packages": len(w.Pkgs), "functions": len(w.Funcs), "file_sinks": len(w.G.Sinks), "callback_points": len(w.G.Callbacks),
		}
	}
	cov["controls"] = ctl
	for k, v := range extra {
		cov[k] = v
	}
	b, _ := json.MarshalIndent(ev, "", " ")
	dir := filepath.Join(*flagVerif, "evidence")
	os.MkdirAll(dir, 0o755)
	if err := os.WriteFile(filepath.Join(dir, p.ID+".json"), b, 0o644); err != nil {
		fmt.Println("evidence:", err)
	}
}

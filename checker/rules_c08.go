package main

// C08 — FlushRevert terminates, rejects memory-only stores, truncates only after a
// successful scan (DESIGN §4 C08).  T1 is a loop-variant discipline on Store.size.

import (
	"fmt"
	"go/constant"
	"go/token"
	"strings"

	"golang.org/x/tools/go/ssa"
)

type loopInfo struct {
	fn     *ssa.Function
	header *ssa.BasicBlock
	body   map[*ssa.BasicBlock]bool
	backs  []*ssa.BasicBlock // sources of back edges
}

func loopsOf(fn *ssa.Function) []*loopInfo {
	byHeader := map[*ssa.BasicBlock]*loopInfo{}
	var order []*loopInfo
	for _, b := range fn.Blocks {
		for _, s := range b.Succs {
			if s.Dominates(b) {
				li := byHeader[s]
				if li == nil {
					li = &loopInfo{fn: fn, header: s, body: map[*ssa.BasicBlock]bool{s: true}}
					byHeader[s] = li
					order = append(order, li)
				}
				li.backs = append(li.backs, b)
				// natural loop body: nodes that reach b without passing the header
				stack := []*ssa.BasicBlock{b}
				for len(stack) > 0 {
					x := stack[len(stack)-1]
					stack = stack[:len(stack)-1]
					if li.body[x] {
						continue
					}
					li.body[x] = true
					stack = append(stack, x.Preds...)
				}
			}
		}
	}
	return order
}

// isDecrement: atomic.AddInt64(&size, negative constant).
func isSizeDecrement(sw SizeWrite) bool {
	if sw.Kind != "add" {
		return false
	}
	if c, ok := unwrap(sw.Val).(*ssa.Const); ok && c.Value != nil && c.Value.Kind() == constant.Int {
		return constant.Sign(c.Value) < 0
	}
	return false
}

// floorTest: If whose condition compares an atomic load of Store.size with a bound by
// <= or < (true arm = at or below the floor), or >= / > (false arm).
func (w *World) floorTest(ifi *ssa.If) (floorArm int, ok bool) {
	c, pol := Guard{Cond: ifi.Cond, Pol: true}.atom()
	b, isBin := c.(*ssa.BinOp)
	if !isBin {
		return 0, false
	}
	sizeLeft, sizeRight := w.isSizeLoad(b.X), w.isSizeLoad(b.Y)
	if sizeLeft == sizeRight {
		return 0, false
	}
	op := b.Op
	if sizeRight { // bound OP size  ==  size OP' bound
		switch op {
		case token.LSS:
			op = token.GTR
		case token.LEQ:
			op = token.GEQ
		case token.GTR:
			op = token.LSS
		case token.GEQ:
			op = token.LEQ
		}
	}
	var trueIsFloor bool
	switch op {
	case token.LEQ, token.LSS:
		trueIsFloor = true
	case token.GTR, token.GEQ:
		trueIsFloor = false
	default:
		return 0, false
	}
	if !pol {
		trueIsFloor = !trueIsFloor
	}
	if trueIsFloor {
		return 0, true
	}
	return 1, true
}

// absVal: abstract constant of a return operand.
func absVal(v ssa.Value) string {
	if c, ok := v.(*ssa.Const); ok {
		if c.Value == nil {
			return "nil"
		}
		return c.Value.ExactString()
	}
	if isNonNilErrorValue(v) {
		return "nonnil"
	}
	return "?"
}

// floorReturns: the abstract result tuples of fn's returns reachable from the floor arm
// of its floor tests (and the positions of absolute size stores on those paths).
func (w *World) floorReturns(fn *ssa.Function) (tuples [][]string, has bool) {
	for _, b := range fn.Blocks {
		ifi, ok := b.Instrs[len(b.Instrs)-1].(*ssa.If)
		if !ok {
			continue
		}
		arm, ok := w.floorTest(ifi)
		if !ok {
			continue
		}
		has = true
		wk := &Walker{Fn: fn}
		wk.OnInstr = func(env *Env, in ssa.Instruction, trail []*ssa.BasicBlock) bool {
			if ret, ok := in.(*ssa.Return); ok {
				var t []string
				for _, r := range ret.Results {
					t = append(t, absVal(env.Resolve(r)))
				}
				tuples = append(tuples, t)
				return true
			}
			return false
		}
		wk.OnBackEdge = func(env *Env, from, to *ssa.BasicBlock, trail []*ssa.BasicBlock) bool {
			tuples = append(tuples, []string{"LOOPS"})
			return true
		}
		wk.RunBlock(b.Succs[arm], nil)
	}
	return
}

func ruleT1(w *World, r *Report) {
	const rule = "T1"
	entry := w.Fn("(*Store).FlushRevert")
	if entry == nil {
		r.Unknown(rule, "anchor (*Store).FlushRevert", "-", "exported API not found")
		return
	}
	reach := w.G.ReachFrom(entry)
	if open := w.Fn("NewStoreEx"); open != nil {
		for f := range w.G.ReachFrom(open).Set {
			reach.Set[f] = true
		}
	}
	nLoops := 0
	for _, fn := range w.Funcs {
		_ = reach // every cursor-moving loop of the library is constrained, wherever it is called from
		if !w.InLib(fn) {
			continue
		}
		// only loops that move the cursor (directly or through callees)
		for li, lp := range loopsOf(fn) {
			moves := false
			var calls []*ssa.Call
			var direct []SizeWrite
			for b := range lp.body {
				for _, in := range b.Instrs {
					if c, ok := in.(*ssa.Call); ok {
						if f := c.Common().StaticCallee(); f != nil && w.InLib(f) && len(w.sizeWritesInReach(f)) > 0 {
							for _, sw := range w.sizeWritesInReach(f) {
								if g, _ := w.grownFromSize(sw.Val); !(sw.Kind == "store" && g) {
									moves = true // lowers or resets the cursor (append-only growth is C09's A-mono)
								}
							}
							calls = append(calls, c)
						}
					}
				}
			}
			for _, sw := range w.sizeWritesIn(fn) {
				if lp.body[sw.Instr.Block()] {
					if g, _ := w.grownFromSize(sw.Val); !(sw.Kind == "store" && g) {
						moves = true
					}
					direct = append(direct, sw)
				}
			}
			if !moves {
				continue
			}
			nLoops++
			name := fmt.Sprintf("%s › loop#%d", w.Name(fn), li+1)
			pos := w.InstrPos(lp.header.Instrs[0])
			// (i) progress: no cycle without a decrement
			isDec := func(in ssa.Instruction) bool {
				for _, sw := range direct {
					if sw.Instr == in && isSizeDecrement(sw) {
						return true
					}
				}
				return false
			}
			if path := cycleAvoiding(lp, isDec); path != nil {
				r.Bad(rule, name+" › every iteration decrements the cursor", pos, "a cycle of this loop contains no atomic.AddInt64(&size, negative): the scan position need not advance", blockPathString(w, path)...)
			} else {
				r.OK(rule, name+" › every iteration decrements the cursor", pos, "every cycle passes atomic.AddInt64(&Store.size, <negative constant>)")
			}
			// (iv) no other cursor write stays in the loop
			okW := true
			for _, sw := range direct {
				if isSizeDecrement(sw) {
					continue
				}
				if p := pathToBackEdge(lp, sw.Instr); p != nil {
					okW = false
					r.Bad(rule, name+" › only decrements stay in the loop", w.InstrPos(sw.Instr), fmt.Sprintf("a %s of Store.size that is not a decrement can be followed by another iteration", sw.Kind), blockPathString(w, p)...)
				}
			}
			// (ii)+(iii) each iteration re-tests the floor and the floor outcome leaves the loop
			floorSeen := false
			isFloorPoint := func(in ssa.Instruction) bool {
				if ifi, ok := in.(*ssa.If); ok {
					if _, ok := w.floorTest(ifi); ok {
						return true
					}
				}
				if c, ok := in.(*ssa.Call); ok {
					if f := c.Common().StaticCallee(); f != nil && w.InLib(f) {
						if _, has := w.floorReturns(f); has {
							return true
						}
					}
				}
				return false
			}
			for b := range lp.body {
				for _, in := range b.Instrs {
					if isFloorPoint(in) {
						floorSeen = true
					}
				}
			}
			if !floorSeen {
				r.Bad(rule, name+" › bounded below", pos, "no comparison of the cursor with a floor (size <= bound) in this loop or in the functions it calls: the decreasing cursor has no lower bound")
			} else if path := cycleAvoiding(lp, isFloorPoint); path != nil {
				r.Bad(rule, name+" › bounded below", pos, "a cycle of this loop does not re-test the cursor against the floor", blockPathString(w, path)...)
			} else {
				r.OK(rule, name+" › bounded below", pos, "every cycle compares the cursor with the floor (directly or in a callee)")
			}
			// direct floor tests: the floor arm must not come back
			for b := range lp.body {
				ifi, ok := b.Instrs[len(b.Instrs)-1].(*ssa.If)
				if !ok {
					continue
				}
				arm, ok := w.floorTest(ifi)
				if !ok {
					continue
				}
				key := name + " › floor arm leaves the loop"
				if p := pathFromBlockToBackEdge(lp, b.Succs[arm]); p != nil {
					r.Bad(rule, key, w.InstrPos(ifi), "after the cursor reached the floor the loop can iterate again", blockPathString(w, p)...)
				} else {
					r.OK(rule, key, w.InstrPos(ifi), "the at-or-below-floor arm has no path back to the loop header")
				}
			}
			// callee floor outcomes: the caller must leave the loop for each of them
			for _, c := range calls {
				f := c.Common().StaticCallee()
				tuples, has := w.floorReturns(f)
				if !has {
					// a callee that writes the cursor non-monotonically without a floor test
					for _, sw := range w.sizeWritesInReach(f) {
						if !isSizeDecrement(sw) {
							okW = false
							r.Bad(rule, name+" › only decrements stay in the loop", w.InstrPos(sw.Instr), fmt.Sprintf("%s (called in the loop) performs a %s of Store.size that is not a decrement and is not tied to a floor test", w.Name(f), sw.Kind))
						}
					}
					continue
				}
				key := fmt.Sprintf("%s › floor outcome of %s leaves the loop", name, w.Name(f))
				bad := ""
				var badTrail []*ssa.BasicBlock
				seenT := map[string]bool{}
				for _, t := range tuples {
					ts := strings.Join(t, ",")
					if seenT[ts] {
						continue
					}
					seenT[ts] = true
					if ts == "LOOPS" {
						bad = w.Name(f) + " itself keeps looping after the floor"
						continue
					}
					if tr := w.callerLoopsOn(lp, c, t); tr != nil && bad == "" {
						bad = fmt.Sprintf("when %s returns (%s) after reaching the floor, the caller cannot tell and goes round the loop again", w.Name(f), ts)
						badTrail = tr
					}
				}
				if bad != "" {
					r.Bad(rule, key, w.InstrPos(c), bad, trailString(w, badTrail)...)
				} else {
					r.OK(rule, key, w.InstrPos(c), fmt.Sprintf("for each of the %d distinct result tuples %s can return at the floor, the caller exits the loop", len(seenT), w.Name(f)))
				}
			}
			if okW {
				r.OK(rule, name+" › only decrements stay in the loop", pos, "every cursor write that can be followed by another iteration is a decrement")
			}
		}
	}
	r.Info["cursor_loops"] = nLoops
	r.Floor(rule, 6)
}

// callerLoopsOn: with the call's results bound to the abstract tuple, is a back edge of
// the loop reachable?  Returns the trail if so.
func (w *World) callerLoopsOn(lp *loopInfo, call *ssa.Call, tuple []string) []*ssa.BasicBlock {
	var hit []*ssa.BasicBlock
	val := func(env *Env, v ssa.Value) string {
		v = env.Resolve(v)
		if v == ssa.Value(call) && len(tuple) == 1 {
			return tuple[0]
		}
		if ex, ok := v.(*ssa.Extract); ok && ex.Tuple == ssa.Value(call) && ex.Index < len(tuple) {
			return tuple[ex.Index]
		}
		return "?"
	}
	wk := &Walker{Fn: lp.fn}
	wk.Branch = func(env *Env, ifi *ssa.If) (bool, bool) {
		if x, trueMeansNil, ok := nilTest(ifi.Cond); ok {
			switch val(env, x) {
			case "nil":
				return trueMeansNil, !trueMeansNil
			case "nonnil":
				return !trueMeansNil, trueMeansNil
			}
			return true, true
		}
		c, pol := Guard{Cond: ifi.Cond, Pol: true}.atom()
		// x == true / x != false / … against a boolean constant
		if b, ok := c.(*ssa.BinOp); ok && (b.Op == token.EQL || b.Op == token.NEQ) {
			var other ssa.Value
			var k *ssa.Const
			if kc, ok := b.Y.(*ssa.Const); ok {
				other, k = b.X, kc
			} else if kc, ok := b.X.(*ssa.Const); ok {
				other, k = b.Y, kc
			}
			if k != nil && k.Value != nil && k.Value.Kind() == constant.Bool {
				c = other
				if constant.BoolVal(k.Value) != (b.Op == token.EQL) {
					pol = !pol
				}
			}
		}
		switch val(env, c) {
		case "true":
			return pol, !pol
		case "false":
			return !pol, pol
		}
		return true, true
	}
	wk.OnEdge = func(env *Env, from, to *ssa.BasicBlock, idx int) bool {
		if !lp.body[to] {
			return true // left the loop
		}
		if to == lp.header && to.Dominates(from) {
			if hit == nil {
				hit = []*ssa.BasicBlock{from, to}
			}
			return true
		}
		return false
	}
	wk.OnInstr = func(env *Env, in ssa.Instruction, trail []*ssa.BasicBlock) bool {
		switch in.(type) {
		case *ssa.Return, *ssa.Panic:
			return true
		}
		return false
	}
	wk.Run(call, nil)
	return hit
}

// cycleAvoiding: a path header → … → back edge that executes no instruction satisfying avoid.
func cycleAvoiding(lp *loopInfo, avoid func(ssa.Instruction) bool) []*ssa.BasicBlock {
	path := cycleAvoidingCFG(lp, avoid)
	if path == nil {
		return nil
	}
	// a loop steered by a flag (`for done := false; !done; { …; done = ok; if !done { step } }`)
	// has a CFG cycle through the arm that sets the flag, but arriving at the header with the
	// flag set leaves the loop: such an arrival is not another iteration.  Enumerate the simple
	// paths with the boolean facts of the arms taken; fall back to the plain answer when the
	// enumeration is too large.
	if feasible, decided := cycleAvoidingFeasible(lp, avoid); decided {
		return feasible
	}
	return path
}

func cycleAvoidingFeasible(lp *loopInfo, avoid func(ssa.Instruction) bool) (found []*ssa.BasicBlock, decided bool) {
	clean := func(b *ssa.BasicBlock) bool {
		for _, in := range b.Instrs {
			if avoid(in) {
				return false
			}
		}
		return true
	}
	hif, ok := lp.header.Instrs[len(lp.header.Instrs)-1].(*ssa.If)
	if !ok {
		return nil, false
	}
	// truth of v under facts; ok=false if unknown
	var truth func(v ssa.Value, facts map[ssa.Value]bool, d int) (bool, bool)
	truth = func(v ssa.Value, facts map[ssa.Value]bool, d int) (bool, bool) {
		if d > 4 {
			return false, false
		}
		if t, ok := facts[v]; ok {
			return t, true
		}
		if c, ok := v.(*ssa.Const); ok && c.Value != nil && c.Value.Kind() == constant.Bool {
			return constant.BoolVal(c.Value), true
		}
		if u, ok := v.(*ssa.UnOp); ok && u.Op == token.NOT {
			t, ok := truth(u.X, facts, d+1)
			return !t, ok
		}
		return false, false
	}
	steps := 0
	var path []*ssa.BasicBlock
	onPath := map[*ssa.BasicBlock]bool{}
	var dfs func(b *ssa.BasicBlock, facts map[ssa.Value]bool) bool
	dfs = func(b *ssa.BasicBlock, facts map[ssa.Value]bool) bool {
		steps++
		if steps > 20000 {
			return false
		}
		path = append(path, b)
		onPath[b] = true
		defer func() { path = path[:len(path)-1]; delete(onPath, b) }()
		var cond ssa.Value
		if i, ok := b.Instrs[len(b.Instrs)-1].(*ssa.If); ok {
			cond = i.Cond
		}
		for k, s := range b.Succs {
			nf := facts
			if cond != nil && len(b.Succs) == 2 {
				if t, known := truth(cond, facts, 0); known && t != (k == 0) {
					continue // arm ruled out by what the path already knows
				}
				nf = map[ssa.Value]bool{}
				for a, t := range facts {
					nf[a] = t
				}
				nf[cond] = k == 0
				if u, ok := cond.(*ssa.UnOp); ok && u.Op == token.NOT {
					nf[u.X] = k != 0
				}
			}
			if s == lp.header {
				// does this arrival start another iteration?
				hf := map[ssa.Value]bool{}
				for a, t := range nf {
					hf[a] = t
				}
				for _, in := range lp.header.Instrs {
					ph, ok := in.(*ssa.Phi)
					if !ok {
						break
					}
					for pi, pred := range lp.header.Preds {
						if pred == b {
							if t, known := truth(ph.Edges[pi], nf, 0); known {
								hf[ph] = t
							}
						}
					}
				}
				if t, known := truth(hif.Cond, hf, 0); known {
					next := lp.header.Succs[1]
					if t {
						next = lp.header.Succs[0]
					}
					if !lp.body[next] {
						continue // leaves the loop: not a cycle
					}
				}
				found = append(append([]*ssa.BasicBlock{}, path...), lp.header)
				return true
			}
			if !lp.body[s] || onPath[s] || !clean(s) {
				continue
			}
			if dfs(s, nf) {
				return true
			}
		}
		return false
	}
	if !clean(lp.header) {
		return nil, true
	}
	dfs(lp.header, map[ssa.Value]bool{})
	if steps > 20000 {
		return nil, false
	}
	return found, true
}

func cycleAvoidingCFG(lp *loopInfo, avoid func(ssa.Instruction) bool) []*ssa.BasicBlock {
	clean := func(b *ssa.BasicBlock) bool {
		for _, in := range b.Instrs {
			if avoid(in) {
				return false
			}
		}
		return true
	}
	if !clean(lp.header) {
		return nil
	}
	parent := map[*ssa.BasicBlock]*ssa.BasicBlock{}
	seen := map[*ssa.BasicBlock]bool{lp.header: true}
	q := []*ssa.BasicBlock{lp.header}
	for len(q) > 0 {
		b := q[0]
		q = q[1:]
		for _, s := range b.Succs {
			if s == lp.header {
				var rev []*ssa.BasicBlock
				for x := b; x != nil; x = parent[x] {
					rev = append(rev, x)
				}
				for i, j := 0, len(rev)-1; i < j; i, j = i+1, j-1 {
					rev[i], rev[j] = rev[j], rev[i]
				}
				return append(rev, lp.header)
			}
			if !lp.body[s] || seen[s] || !clean(s) {
				continue
			}
			seen[s] = true
			parent[s] = b
			q = append(q, s)
		}
	}
	return nil
}

func pathToBackEdge(lp *loopInfo, from ssa.Instruction) []*ssa.BasicBlock {
	return pathFromBlockToBackEdgeEx(lp, from.Block(), true)
}

func pathFromBlockToBackEdge(lp *loopInfo, start *ssa.BasicBlock) []*ssa.BasicBlock {
	return pathFromBlockToBackEdgeEx(lp, start, false)
}

func pathFromBlockToBackEdgeEx(lp *loopInfo, start *ssa.BasicBlock, _ bool) []*ssa.BasicBlock {
	if !lp.body[start] {
		return nil
	}
	parent := map[*ssa.BasicBlock]*ssa.BasicBlock{}
	seen := map[*ssa.BasicBlock]bool{start: true}
	q := []*ssa.BasicBlock{start}
	for len(q) > 0 {
		b := q[0]
		q = q[1:]
		for _, s := range b.Succs {
			if s == lp.header {
				var rev []*ssa.BasicBlock
				for x := b; x != nil; x = parent[x] {
					rev = append(rev, x)
				}
				for i, j := 0, len(rev)-1; i < j; i, j = i+1, j-1 {
					rev[i], rev[j] = rev[j], rev[i]
				}
				return append(rev, lp.header)
			}
			if !lp.body[s] || seen[s] {
				continue
			}
			seen[s] = true
			parent[s] = b
			q = append(q, s)
		}
	}
	return nil
}

// T2: memory-only stores are rejected before anything happens.
func ruleT2(w *World, r *Report) {
	const rule = "T2"
	fn := w.Fn("(*Store).FlushRevert")
	if fn == nil {
		return
	}
	// explore every path on which each test of Store.file answers "nil" (a memory-only
	// store): all of them must return a definite error and touch nothing on the way
	key := "(*Store).FlushRevert › a memory-only store is refused before any effect"
	ok, tests := true, 0
	why := ""
	var badAt ssa.Instruction
	fail := func(in ssa.Instruction, msg string) {
		if ok {
			ok, why, badAt = false, msg, in
		}
	}
	wk := &Walker{Fn: fn}
	wk.Branch = func(env *Env, ifi *ssa.If) (bool, bool) {
		x, trueMeansNil, isNil := nilTest(ifi.Cond)
		if _, isFile := isLoadOfField(x, "Store", "file"); isNil && isFile {
			tests++
			return trueMeansNil, !trueMeansNil
		}
		return true, true
	}
	wk.OnInstr = func(env *Env, in ssa.Instruction, trail []*ssa.BasicBlock) bool {
		switch x := in.(type) {
		case *ssa.Return:
			if in.Block().Comment == "recover" {
				return true
			}
			if len(x.Results) != 1 || !isNonNilErrorValue(env.Resolve(x.Results[0])) {
				fail(in, "with Store.file nil a path through FlushRevert returns something other than a definite error")
			}
			return true
		case *ssa.Store:
			if fa, isFa := x.Addr.(*ssa.FieldAddr); isFa {
				if _, st, _, isF := fieldOf(fa); isF && st != nil && st.Obj().Name() == "Store" {
					fail(in, "a field of the store is written before the memory-only store is refused")
				}
			}
		case ssa.CallInstruction:
			if c := x.Common().StaticCallee(); c != nil && w.InLib(c) {
				reach := w.G.ReachFrom(c)
				touches := w.reachesSink(c, "WriteAt", "Truncate") != nil || len(w.sizeWritesInReach(c)) > 0 || reach.Set[w.Fn("(*Store).casColl")] || reach.Set[w.Fn("(*Store).setColl")]
				if touches {
					fail(in, "the memory-only store is touched ("+w.Name(c)+") before being refused")
				}
			}
		}
		return false
	}
	wk.Run(nil, nil)
	if ok && tests == 0 {
		ok, why = false, "FlushRevert never tests Store.file for nil"
	}
	pos := w.Pos(fn.Pos())
	if badAt != nil {
		pos = w.InstrPos(badAt)
	}
	r.Check(ok, rule, key, pos, "every path with Store.file nil returns a fresh error without writing a field, the cursor, the collection map or the file", why)
}

// T3 (Truncate guards) is shared with C09; T4: collections are dropped before the scan;
// T5: the cursor steps back before the scan so the current record is not found again.
func ruleT345(w *World, r *Report) {
	fn := w.Fn("(*Store).FlushRevert")
	if fn == nil {
		return
	}
	for _, s := range w.G.SinksIn[fn] {
		if s.Method == "Truncate" {
			checkTruncateGuards(w, r, "T3", s)
		}
	}
	r.Floor("T3", 3)
	// locate the scan call: library callee that reads the file and moves the cursor
	var scan *ssa.Call
	eachInstr(fn, func(in ssa.Instruction) {
		if c, ok := in.(*ssa.Call); ok && scan == nil {
			if f := c.Common().StaticCallee(); f != nil && w.InLib(f) && w.reachesSink(f, "ReadAt") != nil && len(w.sizeWritesInReach(f)) > 0 {
				scan = c
			}
		}
	})
	if scan == nil {
		r.Unknown("T4", "(*Store).FlushRevert › scan call", w.Pos(fn.Pos()), "no call of a cursor-moving, file-reading function found")
		return
	}
	// T4
	var drop ssa.Instruction
	eachInstr(fn, func(in ssa.Instruction) {
		c, ok := in.(*ssa.Call)
		if !ok {
			return
		}
		n := staticCalleeName(c)
		if n != "(*Store).casColl" && n != "(*Store).setColl" {
			return
		}
		newMap := c.Common().Args[len(c.Common().Args)-1]
		fresh := false
		for _, rt := range w.Roots(newMap, true) {
			if rt.Kind == "alloc" {
				fresh = true
			}
		}
		if fresh && instrDominates(c, scan) {
			drop = c
		}
	})
	r.Check(drop != nil, "T4", "(*Store).FlushRevert › collections dropped before the scan", w.InstrPos(scan), "the collection map is replaced by a fresh empty map before the scan starts", "the scan is not dominated by the replacement of the collection map with a fresh empty map: a failed or defaulting scan would leave the reverted collections visible")
	// every old collection handle is closed when the swap succeeded
	closed := false
	eachInstr(fn, func(in ssa.Instruction) {
		if c, ok := in.(*ssa.Call); ok && staticCalleeName(c) == "(*Collection).closeCollection" {
			closed = true
		}
	})
	r.Check(closed, "T4", "(*Store).FlushRevert › old handles closed", w.Pos(fn.Pos()), "replaced collections are closed", "the replaced collections are never closed (their versions stay pinned)")
	// T5
	stepped := false
	for _, sw := range w.sizeWritesIn(fn) {
		if !isSizeDecrement(sw) {
			continue
		}
		// guarded by size > bound, and before the scan
		for _, g := range guardsOf(sw.Instr.Block()) {
			if arm, ok := w.floorTest(g.If); ok {
				above := (arm == 1) == g.Pol // we are on the not-floor arm
				if above {
					if hit, _ := pathAvoiding(fn, sw.Instr, func(in ssa.Instruction) bool { return in == ssa.Instruction(scan) }, nil, nil); hit != nil {
						stepped = true
					}
				}
			}
		}
	}
	r.Check(stepped, "T5", "(*Store).FlushRevert › cursor steps back before the scan", w.InstrPos(scan), "size > floor ⇒ cursor decremented before scanning, so the scan cannot find the current root record again", "the cursor is not moved below the end of the current root record before the scan: FlushRevert would find the same record and revert nothing")
}

func init() {
	register(&Property{
		ID:    "C08",
		Level: "other",
		Rules: []Rule{{"T1", ruleT1}, {"T2", ruleT2}, {"T345", ruleT345}, {"O1", ruleO1}, {"O2b", ruleO2b}, {"E1s", ruleE1s}, {"O5r", ruleO5r}},
		Explanation: "T1 termination of the backward root scan by a loop-variant discipline on Store.size, checked on every cursor-moving loop reachable from FlushRevert / open: every cycle passes a negative atomic.Add (strictly decreasing integer variant), every cycle re-tests the cursor against the floor, the at-floor outcome leaves the loop — for a callee's floor outcome the caller is re-explored with the callee's abstract result tuple and must not reach the back edge — and no non-decrement cursor write can be followed by another iteration. T2 the nil-file test comes first and returns a fresh error. T3 Truncate only behind !readOnly and the success arm of the scan, with the scanned size. T4 collections are dropped (fresh empty map, old handles closed) before the scan. T5 the cursor steps back before the scan. Not decided: that the state reached equals the previous Flush exactly.",
		Assumptions: []string{"file reads terminate (errors exit: C07 E1)"},
		ControlSrc:  controlC08,
		Expect: []Expect{
			{"T1", "zzCtlScan › loop#1 › every iteration decrements"},
			{"T1", "zzCtlScan2 › loop#1 › floor outcome of"},
		},
	})
}

const controlC08 = `package gkvlite

import "sync/atomic"

// positive controls for C08 (never part of /repo)
func (s *Store) zzCtlScan(b []byte) error { // a cycle without progress
	for {
		if atomic.LoadInt64(&s.size) <= rootsLen {
			return nil
		}
		if _, err := s.file.ReadAt(b, 0); err != nil {
			return err
		}
		if b[0] == 0 {
			continue
		}
		atomic.AddInt64(&s.size, -1)
	}
}

func (s *Store) zzCtlFloor(b []byte) error { // floor outcome indistinguishable from "found"
	for {
		if atomic.LoadInt64(&s.size) <= rootsLen {
			atomic.StoreInt64(&s.size, 0)
			return nil
		}
		if b[0] == 1 {
			return nil
		}
		atomic.AddInt64(&s.size, -1)
	}
}

func (s *Store) zzCtlScan2(b []byte) error {
	for {
		if err := s.zzCtlFloor(b); err != nil {
			return err
		}
		if b[1] == 2 {
			return nil
		}
		atomic.AddInt64(&s.size, -1)
	}
}

func (s *Store) ZzCtlRevert(b []byte) error {
	if err := s.zzCtlScan(b); err != nil {
		return err
	}
	return s.zzCtlScan2(b)
}
`

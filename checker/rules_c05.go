package main

// C05 — synchronisation skeleton (DESIGN §4 C05): L1 lock-protects-field, L2 lock order
// acyclic / no self-deadlock, L3 no lock across user code or file I/O, P1 pin pairing,
// RC1 chain threshold, W1 copy-on-write, A1 atomics on Store.size, FL1 Flush pins in
// sorted-name order before any write.

import (
	"fmt"
	"go/constant"
	"go/token"
	"go/types"
	"sort"
	"strings"

	"golang.org/x/tools/go/ssa"
)

// ---- freshness of the object a field access goes to

// unpublished: the object v points to was created in this function (allocation, allocator
// call, composite literal) or popped from a free list, i.e. no other goroutine can see it.
func (w *World) unpublished(v ssa.Value) bool {
	return w.unpublishedD(v, 0, map[ssa.Value]bool{})
}

func (w *World) unpublishedD(v ssa.Value, d int, seen map[ssa.Value]bool) bool {
	if d > 8 {
		return false
	}
	if seen[v] {
		return true // φ cycle: decided by the other operands
	}
	seen[v] = true
	switch x := v.(type) {
	case *ssa.Const:
		return x.Value == nil // nil joined by a φ is harmless
	case *ssa.Alloc:
		return true
	case *ssa.ChangeType:
		return w.unpublishedD(x.X, d+1, seen)
	case *ssa.Call:
		switch staticCalleeName(x) {
		case "(*Collection).mkNode", "(*Collection).mkNodeLoc", "(*Collection).mkRootNodeLoc", "(*Store).MakePrivateCollection", "populateNode":
			return true
		}
		return false
	case *ssa.Extract:
		if c, ok := x.Tuple.(*ssa.Call); ok && staticCalleeName(c) == "populateNode" && x.Index == 0 {
			return true
		}
		return false
	case *ssa.Phi:
		for _, e := range x.Edges {
			if !w.unpublishedD(e, d+1, seen) {
				return false
			}
		}
		return true
	case *ssa.UnOp:
		if x.Op != token.MUL {
			return false
		}
		if g, ok := x.X.(*ssa.Global); ok {
			switch g.Name() {
			case "freeNodes", "freeNodeLocs", "freeRootNodeLocs":
				return true // popped from a free list: nobody else holds it
			}
			return false
		}
		if al, ok := x.X.(*ssa.Alloc); ok {
			// a local cell: every value stored into it must be unpublished
			n := 0
			if refs := al.Referrers(); refs != nil {
				for _, rf := range *refs {
					if st, ok := rf.(*ssa.Store); ok && st.Addr == al {
						n++
						if !w.unpublishedD(st.Val, d+1, seen) {
							return false
						}
					}
				}
			}
			return n > 0
		}
	}
	return false
}

type protField struct {
	typ, field string
	locks      []string // any of these
}

var protectedFields = []protField{
	{"Collection", "root", []string{"Collection.rootLock"}},
	{"rootNodeLoc", "refs", []string{"Collection.rootLock"}},
	{"rootNodeLoc", "chainedCollection", []string{"Collection.rootLock"}},
	{"rootNodeLoc", "chainedRootNodeLoc", []string{"Collection.rootLock"}},
	{"rootNodeLoc", "reclaimLater", []string{"Collection.rootLock"}},
	{"node", "next", []string{"Collection.rootLock", "freeNodeLock"}},
	{"Store", "coll", []string{"Store.m"}},
}

var protectedGlobals = map[string]string{
	"freeNodes": "freeNodeLock", "freeNodeLocs": "freeNodeLocLock", "freeRootNodeLocs": "freeRootNodeLocLock",
}

func allocStatLock(field string) string {
	switch {
	case strings.Contains(field, "RootNodeLoc"):
		return "freeRootNodeLocLock"
	case strings.Contains(field, "NodeLoc"):
		return "freeNodeLocLock"
	}
	return "freeNodeLock"
}

// fieldAccess: in loads from or stores to address addr; returns addr.
func accessAddr(in ssa.Instruction) (ssa.Value, string) {
	switch x := in.(type) {
	case *ssa.Store:
		return x.Addr, "write"
	case *ssa.UnOp:
		if x.Op == token.MUL {
			return x.X, "read"
		}
	}
	return nil, ""
}

func ruleL1(w *World, r *Report) {
	const rule = "L1"
	li := w.Locks()
	ord := map[string]int{}
	for _, fn := range w.Funcs {
		if !w.InLib(fn) || fn.Name() == "init" {
			continue
		}
		eachInstr(fn, func(in ssa.Instruction) {
			addr, kind := accessAddr(in)
			if addr == nil {
				return
			}
			var need []string
			what := ""
			var base ssa.Value
			switch a := addr.(type) {
			case *ssa.FieldAddr:
				b, st, name, ok := fieldOf(a)
				if !ok || st == nil {
					return
				}
				base = b
				for _, pf := range protectedFields {
					if pf.typ == st.Obj().Name() && pf.field == name {
						need, what = pf.locks, pf.typ+"."+pf.field
					}
				}
				if st.Obj().Name() == "AllocStats" {
					need, what = []string{allocStatLock(name)}, "AllocStats."+name
					// whole-struct copies are handled below; the base of a stats field is the
					// global or Collection.allocStats
					base = nil
				}
				if st.Obj().Name() == "Collection" && name == "allocStats" {
					if _, isWhole := in.(*ssa.UnOp); isWhole {
						need, what = []string{"freeNodeLock", "freeNodeLocLock", "freeRootNodeLocLock"}, "Collection.allocStats (whole struct)"
						// all three are required
						held := li.MustHeld(in)
						okAll := held["freeNodeLock"] && held["freeNodeLocLock"] && held["freeRootNodeLocLock"]
						key := fmt.Sprintf("%s › %s %s", w.Name(fn), kind, what)
						ord[key]++
						r.Check(okAll, rule, fmt.Sprintf("%s#%d", key, ord[key]), w.InstrPos(in), "all three allocator locks held "+held.String(), "whole-struct copy of allocation statistics without all three allocator locks; held: "+held.String())
						return
					}
					return
				}
			case *ssa.IndexAddr:
				// element of rootNodeLoc.reclaimLater
				if fa, ok := a.X.(*ssa.FieldAddr); ok {
					if b, st, name, ok := fieldOf(fa); ok && st != nil && st.Obj().Name() == "rootNodeLoc" && name == "reclaimLater" {
						base, need, what = b, []string{"Collection.rootLock"}, "rootNodeLoc.reclaimLater[i]"
					}
				}
				if need == nil {
					// *[3]*node parameter pointing into reclaimLater
					if p, ok := a.X.(*ssa.Parameter); ok && strings.Contains(p.Type().String(), "[3]*") {
						need, what = []string{"Collection.rootLock"}, "reclaimLater[i] (via pointer)"
					}
				}
			case *ssa.Global:
				if l, ok := protectedGlobals[a.Name()]; ok {
					need, what = []string{l}, "global "+a.Name()
				}
				if a.Name() == "allocStats" {
					if _, isWhole := in.(*ssa.UnOp); isWhole {
						need, what = []string{"freeNodeLock"}, "global allocStats (whole struct)"
					}
				}
			}
			if need == nil {
				return
			}
			key := fmt.Sprintf("%s › %s %s", w.Name(fn), kind, what)
			ord[key]++
			key = fmt.Sprintf("%s#%d", key, ord[key])
			if base != nil && w.unpublished(base) {
				r.OK(rule, key, w.InstrPos(in), "object is fresh / unpublished in this function")
				return
			}
			held := li.MustHeld(in)
			for _, l := range need {
				if held[l] {
					r.OK(rule, key, w.InstrPos(in), "under "+l+" (held: "+held.String()+")")
					return
				}
			}
			r.Bad(rule, key, w.InstrPos(in), fmt.Sprintf("%s of %s without %s held on every path (definitely held here: %s; callers considered: %d sites)", kind, what, strings.Join(need, " or "), held.String(), len(li.sites[fn])))
		})
	}
	r.Floor(rule, 60)
}

func ruleL2(w *World, r *Report) {
	const rule = "L2"
	li := w.Locks()
	var edges []string
	for a, m := range li.order {
		for b, wit := range m {
			edges = append(edges, fmt.Sprintf("%s → %s (%s)", a, b, wit))
		}
	}
	sort.Strings(edges)
	r.Info["lock_order_edges"] = edges
	if cyc := li.Cycle(); cyc != nil {
		var wit []string
		for i := 0; i+1 < len(cyc); i++ {
			wit = append(wit, fmt.Sprintf("%s → %s acquired in %s", cyc[i], cyc[i+1], li.order[cyc[i]][cyc[i+1]]))
		}
		r.Bad(rule, "lock-order graph acyclic", "-", "cycle in the lock-order graph: "+strings.Join(cyc, " → ")+" (a self loop means a non-reentrant mutex may be locked while already held)", wit...)
	} else {
		r.OK(rule, "lock-order graph acyclic", "-", fmt.Sprintf("%d edges, no cycle, no re-acquisition of a held mutex", len(edges)))
	}
	// every Lock is released on every path of its function (or by a deferred Unlock)
	for _, fn := range w.Funcs {
		if !w.InLib(fn) {
			continue
		}
		ord := map[string]int{}
		eachInstr(fn, func(in ssa.Instruction) {
			if _, isDefer := in.(*ssa.Defer); isDefer {
				return
			}
			op, ok := lockOpOf(in)
			if !ok || !op.Acquire {
				return
			}
			ord[op.ID]++
			key := fmt.Sprintf("%s › Lock %s#%d › released on every path", w.Name(fn), op.ID, ord[op.ID])
			deferred := false
			eachInstr(fn, func(d ssa.Instruction) {
				if df, ok := d.(*ssa.Defer); ok {
					if o2, ok := lockOpOf(df); ok && !o2.Acquire && o2.ID == op.ID && instrDominates(in, d) {
						deferred = true
					}
					// deferred unlock issued before/around (withAllocLocks style): any defer of the unlock in the function
					if o2, ok := lockOpOf(df); ok && !o2.Acquire && o2.ID == op.ID {
						deferred = true
					}
				}
			})
			if deferred {
				r.OK(rule, key, w.InstrPos(in), "released by a deferred Unlock")
				return
			}
			hit, path := pathAvoiding(fn, in, func(x ssa.Instruction) bool {
				switch x.(type) {
				case *ssa.Return:
					return true
				}
				return false
			}, func(x ssa.Instruction) bool {
				o2, ok := lockOpOf(x)
				return ok && !o2.Acquire && o2.ID == op.ID
			}, nil)
			if hit != nil {
				r.Bad(rule, key, w.InstrPos(in), "a path reaches a return with the lock still held", blockPathString(w, path)...)
			} else {
				r.OK(rule, key, w.InstrPos(in), "every path to a return passes the matching Unlock")
			}
		})
	}
	r.Floor(rule, 15)
}

// L3: no gkvlite lock is held when user code (visitor, comparator) or the file is called.
func ruleL3(w *World, r *Report) {
	const rule = "L3"
	li := w.Locks()
	var underLock []string
	n := 0
	for _, cb := range w.G.Callbacks {
		if !w.InLib(cb.Fn) {
			continue
		}
		held := li.MayHeld(cb.Instr)
		switch cb.Kind {
		case "visitor", "comparator":
			n++
			key := fmt.Sprintf("%s › callback %s#%d", w.Name(cb.Fn), cb.Desc, n)
			if len(held) > 0 {
				r.Bad(rule, key, w.InstrPos(cb.Instr), "user code ("+cb.Kind+") may be called while holding "+held.String()+": a re-entrant API call from the callback deadlocks")
			} else {
				r.OK(rule, key, w.InstrPos(cb.Instr), "no gkvlite lock can be held here")
			}
		case "store-callback":
			if len(held) > 0 {
				underLock = append(underLock, fmt.Sprintf("%s in %s under %s", cb.Desc, w.Name(cb.Fn), held.String()))
			}
		}
	}
	for _, s := range w.G.Sinks {
		if !w.InLib(s.Fn) {
			continue
		}
		held := li.MayHeld(s.Instr)
		key := w.G.SinkName(s) + " › no lock across file I/O"
		if len(held) > 0 {
			r.Bad(rule, key, w.InstrPos(s.Instr), "file "+s.Method+" may run while holding "+held.String()+": readers block behind file I/O (and a StoreFile that calls back deadlocks)")
		} else {
			r.OK(rule, key, w.InstrPos(s.Instr), "no gkvlite lock can be held here")
		}
	}
	sort.Strings(underLock)
	r.Info["store_callbacks_invoked_under_a_lock"] = underLock
	r.Floor(rule, 15)
}

// A1: Store.size is only touched through sync/atomic (except on a store under construction).
func ruleA1(w *World, r *Report) {
	const rule = "A1"
	for _, fn := range w.Funcs {
		if !w.InLib(fn) {
			continue
		}
		for i, op := range sizeOpsIn(fn) {
			key := fmt.Sprintf("%s › size op#%d (%s)", w.Name(fn), i+1, op.Kind)
			switch op.Kind {
			case "plain-load", "plain-store":
				var base ssa.Value
				if st, ok := op.Instr.(*ssa.Store); ok {
					base, _ = isFieldAddr(st.Addr, "Store", "size")
				} else if u, ok := op.Instr.(*ssa.UnOp); ok {
					base, _ = isFieldAddr(u.X, "Store", "size")
				}
				ent := w.entriesReachingNoOpen(fn)
				switch {
				case base != nil && w.unpublished(base):
					r.OK(rule, key, w.InstrPos(op.Instr), "plain access on a Store allocated in this function (not yet shared)")
				case len(ent) > 0 && subsetOf(ent, openAPI):
					r.OK(rule, key, w.InstrPos(op.Instr), "plain access in a function reachable only from NewStore(Ex): the store is under construction")
				default:
					r.Bad(rule, key, w.InstrPos(op.Instr), "non-atomic "+op.Kind+" of Store.size in a function reachable from "+strings.Join(ent, ", ")+": races with the flusher's atomic updates")
				}
			default:
				r.OK(rule, key, w.InstrPos(op.Instr), "through sync/atomic")
			}
		}
	}
	// every access is an instance; what must not be empty is the set (the accessors alone
	// account for three when every other site goes through them)
	r.Floor(rule, 3)
}

// FL1: Flush pins one version per collection in sorted-name order, all before the first write.
func ruleFL1(w *World, r *Report) {
	const rule = "FL1"
	flush := w.Fn("(*Store).Flush")
	if flush == nil {
		r.Unknown(rule, "anchor (*Store).Flush", "-", "exported API not found")
		return
	}
	// (a) the names function returns a sorted slice
	var namesFn *ssa.Function
	var namesCall *ssa.Call
	eachInstr(flush, func(in ssa.Instruction) {
		if c, ok := in.(*ssa.Call); ok {
			if f := c.Common().StaticCallee(); f != nil && w.InLib(f) && f.Signature.Results().Len() == 1 {
				if sl, ok := f.Signature.Results().At(0).Type().Underlying().(*types.Slice); ok {
					if b, ok := sl.Elem().Underlying().(*types.Basic); ok && b.Kind() == types.String {
						namesFn, namesCall = f, c
					}
				}
			}
		}
	})
	if namesFn == nil {
		r.Bad(rule, "(*Store).Flush › names come from a []string function", w.Pos(flush.Pos()), "Flush does not obtain the collection names from a function returning []string (iteration over the map itself is unordered)")
		return
	}
	sorted := true
	nret := 0
	eachInstr(namesFn, func(in ssa.Instruction) {
		ret, ok := in.(*ssa.Return)
		if !ok {
			return
		}
		nret++
		okThis := false
		eachInstr(namesFn, func(x ssa.Instruction) {
			if c, ok := x.(*ssa.Call); ok {
				if f := c.Common().StaticCallee(); f != nil && (f.String() == "sort.Strings" || f.String() == "slices.Sort") {
					if sameVal(c.Common().Args[0], ret.Results[0]) && instrDominates(x, in) {
						okThis = true
					}
				}
			}
		})
		if !okThis {
			sorted = false
		}
	})
	r.Check(sorted && nret > 0, rule, w.Name(namesFn)+" › returns a sorted slice", w.Pos(namesFn.Pos()), "every return is dominated by sort.Strings of the returned slice", "the names function can return an unsorted slice: collections are pinned in an unspecified order")
	// (b) the pin loop walks that slice in index order
	var pins []*ssa.Call
	eachInstr(flush, func(in ssa.Instruction) {
		if c, ok := in.(*ssa.Call); ok && staticCalleeName(c) == "(*Collection).rootAddRef" {
			pins = append(pins, c)
		}
	})
	if len(pins) == 0 {
		r.Bad(rule, "(*Store).Flush › pins a version per collection", w.Pos(flush.Pos()), "Flush takes no rootAddRef pin: it would write whatever version is current at each moment")
		return
	}
	for i, pin := range pins {
		key := fmt.Sprintf("(*Store).Flush › pin#%d in sorted-name order", i+1)
		ok, why := pinInIndexOrder(w, pin, namesCall)
		r.Check(ok, rule, key, w.InstrPos(pin), why, why)
	}
	// (c) all pins precede the first file write
	for i, pin := range pins {
		key := fmt.Sprintf("(*Store).Flush › pin#%d before any write", i+1)
		var bad ssa.Instruction
		eachInstr(flush, func(in ssa.Instruction) {
			c, ok := in.(*ssa.Call)
			if !ok || bad != nil {
				return
			}
			f := c.Common().StaticCallee()
			if f == nil || !w.InLib(f) || w.reachesSink(f, "WriteAt") == nil {
				return
			}
			if hit, _ := pathAvoiding(flush, c, func(x ssa.Instruction) bool { return x == ssa.Instruction(pin) }, nil, nil); hit != nil {
				bad = c
			}
		})
		if bad != nil {
			r.Bad(rule, key, w.InstrPos(pin), "a file write (call at "+w.InstrPos(bad)+") can precede this pin: a later-named collection could be captured after an earlier one was already written")
		} else {
			r.OK(rule, key, w.InstrPos(pin), "no writing call can execute before this pin")
		}
	}
}

// pinInIndexOrder: the receiver of the pin is coll[name] with name = names[i], i the
// induction variable of an ascending index loop over the names slice.
func pinInIndexOrder(w *World, pin *ssa.Call, namesCall *ssa.Call) (bool, string) {
	recv := pin.Common().Args[0]
	lk, ok := recv.(*ssa.Lookup)
	if !ok {
		if ex, isEx := recv.(*ssa.Extract); isEx {
			if nx, isNext := ex.Tuple.(*ssa.Next); isNext {
				_ = nx
				return false, "the pinned collection comes from ranging over the map: map iteration order is random, not name order"
			}
		}
		return false, "the pinned collection is not looked up by name (coll[name])"
	}
	name := lk.Index
	ld, ok := name.(*ssa.UnOp)
	if !ok {
		return false, "the name is not an element of the names slice"
	}
	ia, ok := ld.X.(*ssa.IndexAddr)
	if !ok {
		return false, "the name is not an element of the names slice"
	}
	if !sameVal(ia.X, namesCall) {
		return false, "the name does not come from the sorted names slice"
	}
	// induction variable: φ(const, i + 1)
	idx := ia.Index
	phi, ok := idx.(*ssa.Phi)
	if !ok {
		// go/ssa rotates range loops: index = φ + 1
		if b, isB := idx.(*ssa.BinOp); isB && b.Op == token.ADD {
			if p2, isP := b.X.(*ssa.Phi); isP {
				if c, isC := b.Y.(*ssa.Const); isC && c.Value != nil && constant.Sign(c.Value) > 0 {
					for _, e := range p2.Edges {
						if e == idx {
							return true, "pins coll[names[i]] for i ascending over the sorted names"
						}
					}
				}
			}
		}
		return false, "the index into the names slice is not a loop induction variable"
	}
	asc := false
	for _, e := range phi.Edges {
		if b, isB := e.(*ssa.BinOp); isB && b.Op == token.ADD && b.X == phi {
			if c, isC := b.Y.(*ssa.Const); isC && c.Value != nil && constant.Sign(c.Value) > 0 {
				asc = true
			}
		}
		if b, isB := e.(*ssa.BinOp); isB && b.Op == token.SUB {
			return false, "the names slice is walked backwards"
		}
	}
	if !asc {
		return false, "the names slice is not walked in ascending index order"
	}
	return true, "pins coll[names[i]] for i ascending over the sorted names"
}

// ---- P1: pins are released or transferred on every path

func ruleP1(w *World, r *Report) {
	const rule = "P1"
	for _, fn := range w.Funcs {
		if !w.InLib(fn) {
			continue
		}
		ord := map[string]int{}
		eachInstr(fn, func(in ssa.Instruction) {
			c, ok := in.(*ssa.Call)
			if !ok || staticCalleeName(c) != "(*Collection).rootAddRef" {
				return
			}
			key := ordKey(ord, w.Name(fn), "(*Collection).rootAddRef") + " › pin released or transferred"
			w.checkPin(r, rule, key, fn, c)
		})
	}
	r.Floor(rule, 10)
}

func (w *World) checkPin(r *Report, rule, key string, fn *ssa.Function, pin *ssa.Call) {
	var bad string
	var badAt ssa.Instruction
	var badTrail []*ssa.BasicBlock
	fail := func(m string, in ssa.Instruction, tr []*ssa.BasicBlock) {
		if bad == "" {
			bad, badAt, badTrail = m, in, append([]*ssa.BasicBlock{}, tr...)
		}
	}
	count := func(env *Env) int {
		n := 1
		for k := range env.flags {
			if strings.HasPrefix(k, "extra:") {
				n++
			}
			if strings.HasPrefix(k, "rel:") {
				n--
			}
		}
		return n
	}
	wk := &Walker{Fn: fn}
	wk.OnInstr = func(env *Env, in ssa.Instruction, trail []*ssa.BasicBlock) bool {
		if in == ssa.Instruction(pin) {
			if count(env) > 0 && !env.flags["transferred"] {
				fail("the pin is still held when the loop takes the next one", in, trail)
			}
			return true
		}
		if c, ok := in.(ssa.CallInstruction); ok && staticCalleeName(c) == "(*Collection).rootDecRef" && isVal(env, c.Common().Args[1], pin) {
			env.flags[fmt.Sprintf("rel:%p", in)] = true
			if count(env) < 0 {
				fail("the version is released more often than this function holds it", in, trail)
				return true
			}
			return false
		}
		switch x := in.(type) {
		case *ssa.Return:
			for _, res := range x.Results {
				if isVal(env, res, pin) {
					return true
				}
			}
			if env.flags["transferred"] {
				return true
			}
			if n := count(env); n > 0 {
				fail(fmt.Sprintf("%d reference(s) on the pinned version are still held at this return (reader never unpins: the version and everything chained behind it can never be reclaimed)", n), in, trail)
			}
			return true
		case *ssa.Store:
			if isVal(env, x.Val, pin) {
				switch x.Addr.(type) {
				case *ssa.FieldAddr, *ssa.IndexAddr:
					env.flags["transferred"] = true
				}
			}
		case *ssa.MapUpdate:
			if isVal(env, x.Value, pin) {
				env.flags["transferred"] = true
			}
		case *ssa.Panic:
			return true
		}
		return false
	}
	wk.OnEdge = func(env *Env, from, to *ssa.BasicBlock, idx int) bool {
		// successful publish: the collection's former reference on the old version passes to the mutator
		ifi, ok := from.Instrs[len(from.Instrs)-1].(*ssa.If)
		if !ok {
			return false
		}
		if c, ok := ifi.Cond.(*ssa.Call); ok && staticCalleeName(c) == "(*Collection).rootCAS" && isVal(env, c.Common().Args[1], pin) {
			if idx == 0 {
				env.flags[fmt.Sprintf("extra:%p", c)] = true
			}
		}
		return false
	}
	wk.Run(pin, nil)
	if wk.Truncated {
		r.Unknown(rule, key, w.InstrPos(pin), "path exploration exceeded its state budget")
		return
	}
	if bad != "" {
		r.Bad(rule, key, w.InstrPos(pin), bad, append([]string{"at " + w.InstrPos(badAt)}, trailString(w, badTrail)...)...)
		return
	}
	r.OK(rule, key, w.InstrPos(pin), "released exactly as often as held on every path (deferred unpin; +1 release after a successful publish), or stored into the new handle / pin map")
}

// ---- RC1: the chain threshold equals the collection's own reference plus the pins the
// publishing callers hold.
func ruleRC1(w *World, r *Report) {
	const rule = "RC1"
	cas := w.Fn("(*Collection).rootCAS")
	if cas == nil {
		r.Unknown(rule, "anchor (*Collection).rootCAS", "-", "version-publish function not found")
		return
	}
	// threshold: comparison of prev.refs with a constant guarding the chain stores
	var thr *ssa.BinOp
	var thrOp token.Token
	var thrK int64
	eachInstr(cas, func(in ssa.Instruction) {
		if b, ok := in.(*ssa.BinOp); ok && (b.Op == token.GTR || b.Op == token.GEQ || b.Op == token.LSS || b.Op == token.LEQ || b.Op == token.EQL || b.Op == token.NEQ) {
			if _, isRefs := isLoadOfField(b.X, "rootNodeLoc", "refs"); isRefs {
				if kk, isC := constInt(b.Y); isC {
					thr, thrOp, thrK = b, b.Op, kk
				}
			}
			// constant-first spelling: `2 >= prev.refs` is `prev.refs <= 2`
			if _, isRefs := isLoadOfField(b.Y, "rootNodeLoc", "refs"); isRefs {
				if kk, isC := constInt(b.X); isC {
					thr, thrK = b, kk
					thrOp = map[token.Token]token.Token{token.GTR: token.LSS, token.GEQ: token.LEQ, token.LSS: token.GTR, token.LEQ: token.GEQ, token.EQL: token.EQL, token.NEQ: token.NEQ}[b.Op]
				}
			}
		}
	})
	if thr == nil {
		r.Bad(rule, "(*Collection).rootCAS › chain threshold", w.Pos(cas.Pos()), "no comparison of prev.refs with a constant found: the previous version is never (or always) chained")
		return
	}
	k := thrK
	// the chain stores must be guarded by it; the arm they sit on gives the direction
	guarded, chainPol := false, true
	eachInstr(cas, func(in ssa.Instruction) {
		if _, _, ok := isStoreToField(in, "rootNodeLoc", "chainedRootNodeLoc"); ok {
			for _, f := range factsAt(in.Block()) {
				if f.Cond == ssa.Value(thr) {
					guarded, chainPol = true, f.Pol
				}
			}
		}
	})
	// effective threshold: chain iff refs >= minChain
	op := thrOp
	if !chainPol {
		op = map[token.Token]token.Token{token.GTR: token.LEQ, token.GEQ: token.LSS, token.LSS: token.GEQ, token.LEQ: token.GTR, token.EQL: token.NEQ, token.NEQ: token.EQL}[op]
	}
	minChain := int64(-1)
	switch op {
	case token.GTR:
		minChain = k + 1
	case token.GEQ:
		minChain = k
	}
	r.Check(guarded, rule, "(*Collection).rootCAS › chain guarded by the threshold", w.InstrPos(thr), "the chain stores are dominated by one arm of the refs test", "the stores that chain prev to the new version are not guarded by the refs test")
	// … and by nothing else: whenever somebody else still holds prev, the new version must be
	// kept alive behind it, whatever the new version looks like (an empty tree still owns
	// the nodes it superseded through its reclaimLater slots)
	extra := ""
	eachInstr(cas, func(in ssa.Instruction) {
		if _, _, ok := isStoreToField(in, "rootNodeLoc", "chainedRootNodeLoc"); !ok {
			return
		}
		for _, f := range factsAt(in.Block()) {
			c := f.Cond
			if c == ssa.Value(thr) {
				continue
			}
			if x, _, isNil := nilTest(c); isNil {
				if _, isP := x.(*ssa.Parameter); isP {
					continue // prev != nil
				}
				if _, isCh := isLoadOfField(x, "rootNodeLoc", "chainedCollection"); isCh {
					continue // the "chain already taken" sanity check
				}
				if _, isCh := isLoadOfField(x, "rootNodeLoc", "chainedRootNodeLoc"); isCh {
					continue
				}
			}
			if b, isB := c.(*ssa.BinOp); isB && (b.Op == token.NEQ || b.Op == token.EQL) {
				// t.root != prev (the CAS test itself)
				if _, isRoot := isLoadOfField(b.X, "Collection", "root"); isRoot {
					continue
				}
			}
			extra = describeCond(w, cas, c)
		}
	})
	r.Check(extra == "", rule, "(*Collection).rootCAS › chaining depends on prev's holders only", w.InstrPos(thr), "chained iff prev != nil && prev.refs above the threshold", "chaining is additionally conditioned on "+extra+": in the excluded case a version that readers or snapshots still hold is not kept alive behind its predecessor, and the nodes it parks for later reclamation are recycled under them")
	// publishing callers: pins held on prev at the call
	for _, e := range w.G.In[cas] {
		call, ok := e.Site.(*ssa.Call)
		if !ok {
			continue
		}
		prev := call.Common().Args[1]
		if isNilConst(prev) {
			r.OK(rule, w.Name(e.From)+" › publishes an initial version (prev == nil)", w.InstrPos(call), "no previous version to chain")
			continue
		}
		pins := 0
		eachInstr(e.From, func(in ssa.Instruction) {
			if c, ok := in.(*ssa.Call); ok && staticCalleeName(c) == "(*Collection).rootAddRef" && sameVal(c, prev) && instrDominates(c, call) {
				pins++
			}
		})
		// with no other reader: refs == 1 (collection) + pins; chaining must start exactly above that
		want := int64(1 + pins + 1)
		key := fmt.Sprintf("%s › threshold = own ref + %d caller pin(s)", w.Name(e.From), pins)
		if minChain == want {
			r.OK(rule, key, w.InstrPos(call), fmt.Sprintf("prev is chained iff refs >= %d = collection's reference + caller's %d pin(s) + at least one other holder", minChain, pins))
		} else {
			r.Bad(rule, key, w.InstrPos(call), fmt.Sprintf("prev is chained iff refs >= %d, but at this call the mutator alone accounts for %d references: with the threshold as written a concurrent reader's version %s", minChain, 1+pins, map[bool]string{true: "is chained even when nobody else holds it (versions pile up)", false: "is NOT chained although a reader/snapshot still holds it: its nodes are recycled under the reader"}[minChain < want]))
		}
	}
	r.Floor(rule, 3)
}

// ---- W1: copy-on-write — nodes, handles and item slots are only written while unpublished.
func ruleW1(w *World, r *Report) {
	const rule = "W1"
	allocator := map[string]bool{"(*Collection).mkNode": true, "(*Collection).mkNodeLoc": true, "(*Collection).mkRootNodeLoc": true,
		"(*Collection).freeNodeUnlocked": true, "(*Collection).freeNodeLoc": true, "(*Collection).freeRootNodeLoc": true}
	// accessors that fill a cache slot / record a persisted location without changing structure
	accessor := map[string]string{"(*nodeLoc).setNode": "cache fill", "(*nodeLoc).setLoc": "records the persisted location", "(*itemLoc).casItem": "cache install/evict", "(*itemLoc).setLoc": "records the persisted location",
		"(*nodeLoc).Copy": "judged at its call sites", "(*itemLoc).Copy": "judged at its call sites", "(*node).setNumBytes": "judged at its call sites", "(*node).setNumNodes": "judged at its call sites", "(*ploc).read": "decodes into a fresh ploc"}
	structural := map[string]map[string]bool{
		"node":    {"numNodes": true, "numBytes": true, "item": true, "left": true, "right": true},
		"nodeLoc": {"loc": true, "node": true},
		"itemLoc": {"loc": true, "item": true},
	}
	ord := map[string]int{}
	for _, fn := range w.Funcs {
		if !w.InLib(fn) {
			continue
		}
		name := w.Name(fn)
		eachInstr(fn, func(in ssa.Instruction) {
			// (1) direct stores to structural fields
			if st, ok := in.(*ssa.Store); ok {
				if fa, ok := st.Addr.(*ssa.FieldAddr); ok {
					base, stn, fld, ok := fieldOf(fa)
					if ok && stn != nil && structural[stn.Obj().Name()][fld] {
						key := fmt.Sprintf("%s › store %s.%s", name, stn.Obj().Name(), fld)
						ord[key]++
						key = fmt.Sprintf("%s#%d", key, ord[key])
						switch {
						case allocator[name]:
							r.OK(rule, key, w.InstrPos(in), "allocator / free routine")
						case accessor[name] != "":
							r.OK(rule, key, w.InstrPos(in), "accessor: "+accessor[name])
						case w.unpublishedDeep(base):
							r.OK(rule, key, w.InstrPos(in), "target object is unpublished in this function")
						default:
							r.Bad(rule, key, w.InstrPos(in), fmt.Sprintf("in-place write of %s.%s on an object that may already be part of a published version: readers of older versions see the change", stn.Obj().Name(), fld))
						}
					}
				}
				return
			}
			// (2) calls of the copying / node-filling helpers: the receiver must be unpublished
			c, ok := in.(ssa.CallInstruction)
			if !ok {
				return
			}
			cn := staticCalleeName(c)
			switch cn {
			case "(*nodeLoc).Copy", "(*itemLoc).Copy", "(*node).setNumBytes", "(*node).setNumNodes":
				recv := c.Common().Args[0]
				key := fmt.Sprintf("%s › call %s", name, cn)
				ord[key]++
				key = fmt.Sprintf("%s#%d", key, ord[key])
				switch {
				case allocator[name], name == cn:
					r.OK(rule, key, w.InstrPos(in), "allocator / the helper's own nil-source recursion")
				case w.unpublishedDeep(recv):
					r.OK(rule, key, w.InstrPos(in), "receiver is a fresh handle or a slot of a fresh node")
				default:
					r.Bad(rule, key, w.InstrPos(in), "overwrites a handle/slot of an object that may already be published (copy-on-write broken)")
				}
			case "(*nodeLoc).setNode", "(*nodeLoc).setLoc", "(*itemLoc).setLoc":
				// only the loaders / writers may use the cache-persist accessors
				key := fmt.Sprintf("%s › call %s", name, cn)
				ord[key]++
				key = fmt.Sprintf("%s#%d", key, ord[key])
				okCaller := map[string]bool{"(*nodeLoc).read": true, "(*nodeLoc).write": true, "(*itemLoc).write": true}
				r.Check(okCaller[name], rule, key, w.InstrPos(in), "cache fill after a read / location recorded after a write", "a cache/persist accessor is used outside the loader and the writers: it can repoint a published handle")
			}
		})
	}
	r.Floor(rule, 25)
}

// unpublishedDeep: v is unpublished, or the address of a field of an unpublished object.
func (w *World) unpublishedDeep(v ssa.Value) bool {
	for i := 0; i < 4; i++ {
		if w.unpublished(v) {
			return true
		}
		if fa, ok := v.(*ssa.FieldAddr); ok {
			v = fa.X
			continue
		}
		break
	}
	return false
}

func init() {
	register(&Property{
		ID:    "C05",
		Level: "other",
		Rules: []Rule{{"L1", ruleL1}, {"L2", ruleL2}, {"L3", ruleL3}, {"P1", ruleP1}, {"RC1", ruleRC1}, {"W1", ruleW1}, {"A1", ruleA1}, {"FL1", ruleFL1}, {"N1", ruleN1}, {"P2", ruleP2}, {"S1", ruleS1}, {"F2", ruleF2}, {"F6", ruleF6}, {"O6", ruleO6}, {"O3", ruleO3}, {"O3c", ruleO3c}},
		Explanation: "Decides the synchronisation skeleton that every schedule relies on: L1 every access to Collection.root, version refcounts/chain fields/reclaimLater, node reclaim marks, Store.coll, the free lists and allocation statistics is made with its lock definitely held (must-held dataflow, callers included) or on an object unpublished in that function; L2 the lock-order graph is acyclic with no re-acquisition of a held mutex, and every Lock is released on every path; L3 no gkvlite lock can be held at any visitor/comparator call or file sink; P1 every version pin is released exactly as often as held on every path or transferred; RC1 the chain threshold of the publish function equals the collection's own reference plus the pins the publishing callers hold; W1 copy-on-write: structural fields of nodes/handles are written only on unpublished objects, in the allocator, or by the cache/persist accessors from the loader/writers; A1 Store.size only through sync/atomic; FL1 Flush pins coll[names[i]] for ascending i over a sorted names slice, all pins before any write; N1 no nil dereference of a may-be-(nil,nil) getter result (a concurrent delete of the last item would otherwise panic). NOT decided: that each read observes one version current during the call, absence of lost updates, refcount arithmetic beyond RC1.",
		Assumptions: []string{"single mutator, single flusher (the property's own premise)", "lock identity is by field/variable, not by instance"},
		ControlSrc:  controlC05,
		Expect: []Expect{
			{"L1", "ZzCtlPeekRoot › read Collection.root"},
			{"L3", "ZzCtlVisitLocked"},
			{"L2", "lock-order graph acyclic"},
			{"P1", "ZzCtlLeakPin"},
			{"W1", "ZzCtlBump"},
			{"A1", "ZzCtlSize"},
			{"P2", "ZzCtlChainRoot"},
		},
	})
}

const controlC05 = `package gkvlite

// positive controls for C05 (never part of /repo)
func (t *Collection) ZzCtlPeekRoot() *rootNodeLoc { // root read without the lock
	return t.root
}

func (t *Collection) ZzCtlVisitLocked(v ItemVisitor, i *Item) bool { // user code under rootLock
	t.rootLock.Lock()
	defer t.rootLock.Unlock()
	return v(i)
}

func (t *Collection) ZzCtlInversion() { // freeNodeLock → rootLock inverts the order
	freeNodeLock.Lock()
	t.rootLock.Lock()
	t.rootLock.Unlock()
	freeNodeLock.Unlock()
}

func (t *Collection) ZzCtlLeakPin() *nodeLoc { // pin never released
	rnl := t.rootAddRef()
	return rnl.root
}

func (t *Collection) ZzCtlBump(n *node) { // in-place aggregate update
	n.numNodes++
}

func (s *Store) ZzCtlSize() int64 { // plain read of the cursor
	return s.size
}

func (t *Collection) ZzCtlChainRoot(r *rootNodeLoc) *nodeLoc { // tree handle of a version nobody pinned
	t.rootLock.Lock()
	defer t.rootLock.Unlock()
	return r.chainedRootNodeLoc.root
}
`

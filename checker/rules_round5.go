package main

// Round-5 rules (DESIGN §11.6, round 5).

import (
	"fmt"
	"sort"

	"golang.org/x/tools/go/ssa"
)

// ---------------------------------------------------------------- O5r
//
// Recovery contract of the backward scan: "this candidate is not a valid root record" must
// always mean "keep scanning", never "give up".  The functions that move the scan cursor
// (those with a `size += -1` step on the open path) may therefore fail only because the file
// could not be read (the error of a StoreFile ReadAt/Stat), because the scan is exhausted
// (an error made by errors.New — the one the floor test returns), or because an in-memory
// decode of bytes already read failed (encoding/binary.Read).  An error whose origin is the
// *content* of a candidate — the validator's result, a formatted error, a sentinel variable,
// the JSON decoder — must not reach a return of the scan: a torn or stale tail that happens to
// carry such a candidate would make the last completed Flush unrecoverable.
type errSrc struct {
	what string
	at   ssa.Instruction
	ok   bool
}

func (w *World) errSourcesOf(v ssa.Value, memo map[*ssa.Function][]errSrc, seen map[ssa.Value]bool) []errSrc {
	if v == nil || seen[v] {
		return nil
	}
	seen[v] = true
	switch x := v.(type) {
	case *ssa.Const:
		return nil // nil error
	case *ssa.Phi:
		var out []errSrc
		for _, e := range x.Edges {
			out = append(out, w.errSourcesOf(e, memo, seen)...)
		}
		return out
	case *ssa.Extract:
		return w.errSourcesOf(x.Tuple, memo, seen)
	case *ssa.ChangeInterface:
		return w.errSourcesOf(x.X, memo, seen)
	case *ssa.ChangeType:
		return w.errSourcesOf(x.X, memo, seen)
	case *ssa.MakeInterface:
		return []errSrc{{what: "an error value built here (" + x.X.Type().String() + ")", at: x}}
	case *ssa.UnOp:
		if g, ok := x.X.(*ssa.Global); ok {
			return []errSrc{{what: "the package variable " + g.Name(), at: x}}
		}
		if al, ok := x.X.(*ssa.Alloc); ok {
			var out []errSrc
			n := 0
			eachInstr(al.Parent(), func(in ssa.Instruction) {
				if st, ok := in.(*ssa.Store); ok && st.Addr == al {
					n++
					out = append(out, w.errSourcesOf(st.Val, memo, seen)...)
				}
			})
			if n > 0 {
				return out
			}
		}
		return []errSrc{{what: fmt.Sprintf("a value loaded from %s", x.X.Name()), at: x}}
	case *ssa.Parameter:
		return []errSrc{{what: "the parameter " + x.Name(), at: nil}}
	case *ssa.Call:
		c := x.Common()
		if c.IsInvoke() {
			switch c.Method.Name() {
			case "ReadAt", "Stat":
				return []errSrc{{what: "file " + c.Method.Name(), at: x, ok: true}}
			}
			return []errSrc{{what: "interface call " + c.Method.Name(), at: x}}
		}
		f := c.StaticCallee()
		if f == nil {
			return []errSrc{{what: "a call through a function value", at: x}}
		}
		if !w.InLib(f) {
			switch f.String() {
			case "encoding/binary.Read":
				return []errSrc{{what: f.String(), at: x, ok: true}}
			case "errors.New":
				// (round 6) the only error the scan may make up itself is "exhausted": it is
				// constructed on the at-floor arm of a test of the cursor against the floor
				for _, g := range guardsOf(x.Block()) {
					if g.If == nil {
						continue
					}
					if arm, isFloor := w.floorTest(g.If); isFloor && (arm == 0) == g.Pol {
						return []errSrc{{what: "errors.New on the scan-exhausted arm", at: x, ok: true}}
					}
				}
				return []errSrc{{what: "an error made with errors.New outside the scan-exhausted arm (it can only describe the candidate)", at: x}}
			}
			return []errSrc{{what: "the result of " + f.String(), at: x}}
		}
		// library function: its own returns decide
		var out []errSrc
		for _, s := range w.errReturnSources(f, memo) {
			if !s.ok {
				out = append(out, errSrc{what: s.what + " (returned by " + w.Name(f) + ")", at: x})
			}
		}
		if len(out) == 0 {
			out = append(out, errSrc{what: w.Name(f), at: x, ok: true})
		}
		return out
	}
	return []errSrc{{what: fmt.Sprintf("a value of unrecognised shape (%T)", v), at: nil}}
}

func (w *World) errReturnSources(f *ssa.Function, memo map[*ssa.Function][]errSrc) []errSrc {
	if s, ok := memo[f]; ok {
		return s
	}
	memo[f] = nil // cycle: assume fine, the cycle's other members are judged on their own
	idx := errResultIndex(f)
	if idx < 0 || f.Blocks == nil {
		return nil
	}
	var out []errSrc
	eachInstr(f, func(in ssa.Instruction) {
		if ret, ok := in.(*ssa.Return); ok && idx < len(ret.Results) {
			out = append(out, w.errSourcesOf(ret.Results[idx], memo, map[ssa.Value]bool{})...)
		}
	})
	memo[f] = out
	return out
}

func ruleO5r(w *World, r *Report) {
	const rule = "O5r"
	open := w.Fn("NewStoreEx")
	if open == nil {
		r.Unknown(rule, "anchor NewStoreEx", "-", "exported API not found")
		return
	}
	var scan []*ssa.Function
	for f := range w.G.ReachFrom(open).Set {
		if !w.InLib(f) || errResultIndex(f) < 0 {
			continue
		}
		for _, sw := range w.sizeWritesIn(f) {
			if sw.Kind == "add" {
				scan = append(scan, f)
				break
			}
		}
	}
	sort.Slice(scan, func(i, j int) bool { return w.Name(scan[i]) < w.Name(scan[j]) })
	memo := map[*ssa.Function][]errSrc{}
	for _, f := range scan {
		idx := errResultIndex(f)
		n := 0
		eachInstr(f, func(in ssa.Instruction) {
			ret, ok := in.(*ssa.Return)
			if !ok || idx >= len(ret.Results) {
				return
			}
			if c, isC := ret.Results[idx].(*ssa.Const); isC && c.IsNil() {
				return
			}
			n++
			key := fmt.Sprintf("%s › error return#%d fails only for I/O or exhaustion", w.Name(f), n)
			var bad []string
			for _, s := range w.errSourcesOf(ret.Results[idx], memo, map[ssa.Value]bool{}) {
				if !s.ok {
					at := ""
					if s.at != nil {
						at = " @ " + w.InstrPos(s.at)
					}
					bad = append(bad, s.what+at)
				}
			}
			if len(bad) == 0 {
				r.OK(rule, key, w.InstrPos(ret), "the error is a file read error, the scan-exhausted error, or nil")
			} else {
				sort.Strings(bad)
				r.Bad(rule, key, w.InstrPos(ret), "the backward scan can be aborted by an error that depends on the content of a candidate record ("+bad[0]+"): rejecting a candidate must continue the scan, otherwise junk in the uncommitted tail makes the last completed Flush unrecoverable")
			}
		})
	}
	r.Floor(rule, 4)
}

func init() {
	mutantCorpus = append(mutantCorpus, []Mutant{
		{ID: "r5-scan-aborts-on-validator-error", Props: []string{"C03", "C08"}, File: "store.go",
			Old: "\t\t\treturn s.validateAndSetCollections(data, length) == nil, nil\n",
			New: "\t\t\tif err := s.validateAndSetCollections(data, length); err != nil {\n\t\t\t\treturn false, err\n\t\t\t}\n\t\t\treturn true, nil\n",
			Rule: "O5r", Why: "a framed candidate that fails validation aborts recovery instead of being skipped"},
		{ID: "r5-scan-aborts-on-bad-magic", Props: []string{"C03", "C08"}, File: "store.go",
			Old: "\t\t\treturn s.validateAndSetCollections(data, length) == nil, nil\n\t\t}\n",
			New: "\t\t\treturn s.validateAndSetCollections(data, length) == nil, nil\n\t\t}\n\t\treturn false, fmt.Errorf(\"bad start magic at %v\", offset)\n",
			Rule: "O5r", Why: "a candidate with a wrong start magic aborts recovery"},
		{ID: "r6-scan-aborts-with-errors-new", Props: []string{"C03", "C08"}, File: "store.go",
			Old: "\t\t\treturn s.validateAndSetCollections(data, length) == nil, nil\n\t\t}\n",
			New: "\t\t\treturn s.validateAndSetCollections(data, length) == nil, nil\n\t\t}\n\t\treturn false, errors.New(\"bad start magic\")\n",
			Rule: "O5r", Why: "a candidate with a wrong start magic aborts recovery with a plain errors.New"},
		{ID: "r5-scan-validator-bool", Props: []string{"C03", "C08"}, File: "store.go", Preserving: true,
			Old: "\t\t\treturn s.validateAndSetCollections(data, length) == nil, nil\n",
			New: "\t\t\tif err := s.validateAndSetCollections(data, length); err != nil {\n\t\t\t\treturn false, nil\n\t\t\t}\n\t\t\treturn true, nil\n",
			Why: "same decision spelled with an if"},
	}...)
}

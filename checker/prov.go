package main

// Provenance (DESIGN §3.D): walk definitions backwards to parameters, constants,
// allocation sites, globals and calls.

import (
	"fmt"
	"go/token"

	"golang.org/x/tools/go/ssa"
)

type Root struct {
	Kind string // param | const | global | alloc | call | extcall | other
	Val  ssa.Value
	Fn   *ssa.Function // for call/extcall: the callee
}

func (r Root) String() string {
	switch r.Kind {
	case "param":
		p := r.Val.(*ssa.Parameter)
		return fmt.Sprintf("param %s of %s", p.Name(), shortName(p.Parent().String()))
	case "call", "extcall":
		return fmt.Sprintf("result of %s", shortName(r.Fn.String()))
	case "global":
		return "global " + r.Val.Name()
	case "const":
		return "const " + r.Val.String()
	case "alloc":
		return "fresh allocation"
	}
	return fmt.Sprintf("%s %T", r.Kind, r.Val)
}

// Roots returns where the object denoted by v comes from.  A method-call result
// derives from its receiver; a plain function call result is a root of its own
// (Kind call/extcall) unless follow(callee) says to derive from all arguments.
func (w *World) Roots(v ssa.Value, throughCalls bool) []Root {
	var out []Root
	seen := map[ssa.Value]bool{}
	var walk func(v ssa.Value)
	walk = func(v ssa.Value) {
		if v == nil || seen[v] {
			return
		}
		seen[v] = true
		switch x := v.(type) {
		case *ssa.Parameter:
			out = append(out, Root{Kind: "param", Val: x})
		case *ssa.Const:
			out = append(out, Root{Kind: "const", Val: x})
		case *ssa.Global:
			out = append(out, Root{Kind: "global", Val: x})
		case *ssa.Function:
			out = append(out, Root{Kind: "const", Val: x})
		case *ssa.FreeVar:
			fn := x.Parent()
			idx := -1
			for i, fv := range fn.FreeVars {
				if fv == x {
					idx = i
				}
			}
			found := false
			if par := fn.Parent(); par != nil && idx >= 0 {
				eachInstr(par, func(in ssa.Instruction) {
					if mc, ok := in.(*ssa.MakeClosure); ok && mc.Fn == fn {
						found = true
						walk(mc.Bindings[idx])
					}
				})
			}
			if !found {
				out = append(out, Root{Kind: "other", Val: x})
			}
		case *ssa.Alloc:
			// a local cell: union of everything stored into it; if nothing is stored it is fresh
			stored := false
			if refs := x.Referrers(); refs != nil {
				for _, r := range *refs {
					if st, ok := r.(*ssa.Store); ok && st.Addr == x {
						stored = true
						walk(st.Val)
					}
				}
			}
			if !stored {
				out = append(out, Root{Kind: "alloc", Val: x})
			}
		case *ssa.MakeMap, *ssa.MakeSlice, *ssa.MakeChan, *ssa.MakeInterface:
			if mi, ok := x.(*ssa.MakeInterface); ok {
				walk(mi.X)
				return
			}
			out = append(out, Root{Kind: "alloc", Val: x})
		case *ssa.UnOp:
			walk(x.X)
		case *ssa.FieldAddr:
			walk(x.X)
		case *ssa.Field:
			walk(x.X)
		case *ssa.IndexAddr:
			walk(x.X)
		case *ssa.Index:
			walk(x.X)
		case *ssa.Lookup:
			walk(x.X)
		case *ssa.Slice:
			walk(x.X)
		case *ssa.Extract:
			walk(x.Tuple)
		case *ssa.Next:
			walk(x.Iter)
		case *ssa.Range:
			walk(x.X)
		case *ssa.ChangeType:
			walk(x.X)
		case *ssa.Convert:
			walk(x.X)
		case *ssa.ChangeInterface:
			walk(x.X)
		case *ssa.TypeAssert:
			walk(x.X)
		case *ssa.Phi:
			for _, e := range x.Edges {
				walk(e)
			}
		case *ssa.BinOp:
			walk(x.X)
			walk(x.Y)
		case *ssa.Call:
			c := x.Common()
			if c.IsInvoke() {
				walk(c.Value)
				return
			}
			callee := c.StaticCallee()
			if callee == nil {
				if _, ok := c.Value.(*ssa.Builtin); ok {
					for _, a := range c.Args {
						walk(a)
					}
					return
				}
				out = append(out, Root{Kind: "other", Val: x})
				return
			}
			if callee.Signature.Recv() != nil && len(c.Args) > 0 {
				walk(c.Args[0]) // method result derives from its receiver
				return
			}
			if throughCalls {
				kind := "call"
				if !w.InModule(callee) {
					kind = "extcall"
				}
				out = append(out, Root{Kind: kind, Val: x, Fn: callee})
				return
			}
			for _, a := range c.Args {
				walk(a)
			}
		default:
			out = append(out, Root{Kind: "other", Val: v})
		}
	}
	walk(v)
	return out
}

// derefLoad: if v is *p returns p.
func derefLoad(v ssa.Value) (ssa.Value, bool) {
	if u, ok := v.(*ssa.UnOp); ok && u.Op == token.MUL {
		return u.X, true
	}
	return nil, false
}

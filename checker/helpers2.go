package main

import "golang.org/x/tools/go/ssa"

// stripConv removes every Convert / ChangeType wrapper.
func stripConv(v ssa.Value) ssa.Value {
	for {
		switch x := v.(type) {
		case *ssa.Convert:
			v = x.X
		case *ssa.ChangeType:
			v = x.X
		default:
			return v
		}
	}
}

// ruleE1w: error propagation (E1) restricted to the write path of Flush — part of "a
// nil result of Flush means everything was written".
func ruleE1w(w *World, r *Report) {
	const rule = "E1w"
	flush := w.Fn("(*Store).Flush")
	if flush == nil {
		r.Unknown(rule, "anchor (*Store).Flush", "-", "exported API not found")
		return
	}
	reach := w.G.ReachFrom(flush)
	for _, fn := range w.Funcs {
		if !w.InLib(fn) || !reach.Set[fn] {
			continue
		}
		for _, fc := range w.fallibleCalls(fn) {
			w.checkErrorFlow(r, rule, fc)
		}
	}
	r.Floor(rule, 15)
}

package main

// C19 — lazy loading: opening shares no reading code with the tree; value reads are
// unreachable in every key-only calling context (DESIGN §4 C19).

import (
	"fmt"
	"go/token"
	"go/types"
	"sort"
	"strings"

	"golang.org/x/tools/go/ssa"
)

// ---- Z1

func ruleZ1(w *World, r *Report) {
	const rule = "Z1"
	open := w.Fn("NewStoreEx")
	get := w.Fn("(*Collection).GetItem")
	if open == nil || get == nil {
		r.Unknown(rule, "anchors NewStoreEx / (*Collection).GetItem", "-", "exported API not found")
		return
	}
	ro := w.G.ReachFrom(open)
	rt := w.G.ReachFrom(get)
	nOpen, nTree := 0, 0
	for _, s := range w.G.Sinks {
		if s.Method != "ReadAt" || !w.InLib(s.Fn) {
			continue
		}
		inOpen, inTree := ro.Set[s.Fn], rt.Set[s.Fn]
		if inTree {
			nTree++
		}
		if !inOpen {
			continue
		}
		nOpen++
		key := "NewStoreEx › " + w.G.SinkName(s)
		if inTree {
			r.Bad(rule, key, w.InstrPos(s.Instr), "a file read reachable from open is also a node/item/value loading read (reachable from GetItem): opening would load tree data",
				append(append([]string{"open path:"}, ro.Path(s.Fn)...), append([]string{"tree path:"}, rt.Path(s.Fn)...)...)...)
		} else {
			r.OK(rule, key, w.InstrPos(s.Instr), "read of the root-record scan; not part of node/item loading")
		}
	}
	r.Info["reads_from_open"] = nOpen
	r.Info["reads_from_tree"] = nTree
	if nTree < 3 {
		r.Unknown(rule, "tree-loading reads", "-", fmt.Sprintf("only %d ReadAt sinks reachable from GetItem (expected node, item header/key, value)", nTree))
	}
	// the loaders themselves must not be reachable from open at all
	for _, name := range []string{"(*nodeLoc).read", "(*itemLoc).read", "(*Store).ItemValRead"} {
		f := w.Fn(name)
		if f == nil {
			continue
		}
		key := "NewStoreEx ↛ " + name
		if ro.Set[f] {
			r.Bad(rule, key, w.Pos(open.Pos()), "the loader is reachable from open", ro.Path(f)...)
		} else {
			r.OK(rule, key, w.Pos(open.Pos()), "loader not reachable from open")
		}
	}
	r.Floor(rule, 3)
}

// ---- Z2: context-sensitive value-demand analysis

type bstate int

const (
	bBottom bstate = iota
	bFalse
	bMaybe
)

func joinB(a, b bstate) bstate {
	if a > b {
		return a
	}
	return b
}

type vdCtx struct {
	fn  *ssa.Function
	key string // states of bool params
}

type vdAnalysis struct {
	w        *World
	ctxs     map[vdCtx]map[*ssa.Parameter]bstate
	order    []vdCtx
	parent   map[vdCtx]string
	fields   map[string]bstate // "Type.field" -> join of stores
	hits     []vdHit
	visited  map[*ssa.Function]map[*ssa.Parameter]bstate // join over contexts
	changed  bool
	valueFns map[*ssa.Function]bool
}

type vdHit struct {
	ctx  vdCtx
	site ssa.Instruction
	why  string
}

func boolParams(fn *ssa.Function) []*ssa.Parameter {
	var out []*ssa.Parameter
	for _, p := range fn.Params {
		if b, ok := p.Type().Underlying().(*types.Basic); ok && b.Kind() == types.Bool {
			out = append(out, p)
		}
	}
	return out
}

func ctxKey(fn *ssa.Function, st map[*ssa.Parameter]bstate) string {
	var parts []string
	for _, p := range boolParams(fn) {
		s := "?"
		if st[p] == bFalse {
			s = "false"
		}
		parts = append(parts, p.Name()+"="+s)
	}
	return strings.Join(parts, ",")
}

func (a *vdAnalysis) eval(st map[*ssa.Parameter]bstate, v ssa.Value, depth int) bstate {
	if depth > 10 {
		return bMaybe
	}
	switch x := v.(type) {
	case *ssa.Const:
		if x.Value != nil && x.Value.String() == "false" {
			return bFalse
		}
		return bMaybe
	case *ssa.Parameter:
		if s, ok := st[x]; ok {
			return s
		}
		return bMaybe
	case *ssa.Phi:
		res := bBottom
		for _, e := range x.Edges {
			if e == x {
				continue
			}
			res = joinB(res, a.eval(st, e, depth+1))
		}
		if res == bBottom {
			return bMaybe
		}
		return res
	case *ssa.UnOp:
		if x.Op != token.MUL {
			return bMaybe
		}
		if fa, ok := x.X.(*ssa.FieldAddr); ok {
			if _, stn, name, ok := fieldOf(fa); ok && stn != nil {
				k := stn.Obj().Name() + "." + name
				if s, ok := a.fields[k]; ok && s != bBottom {
					return s
				}
				if _, tracked := a.fields[k]; tracked {
					return bFalse // only the zero value has been stored so far
				}
			}
			return bMaybe
		}
		if fv, ok := x.X.(*ssa.FreeVar); ok {
			// captured cell: join of stores in the parent evaluated with the parent's joined state
			fn := fv.Parent()
			idx := -1
			for i, f := range fn.FreeVars {
				if f == fv {
					idx = i
				}
			}
			par := fn.Parent()
			if par == nil || idx < 0 {
				return bMaybe
			}
			res := bBottom
			eachInstr(par, func(in ssa.Instruction) {
				if mc, ok := in.(*ssa.MakeClosure); ok && mc.Fn == fn {
					if al, ok := mc.Bindings[idx].(*ssa.Alloc); ok {
						res = joinB(res, a.allocVal(a.visited[par], al, depth+1))
					} else {
						res = bMaybe
					}
				}
			})
			if res == bBottom {
				return bMaybe
			}
			return res
		}
		if al, ok := x.X.(*ssa.Alloc); ok {
			return a.allocVal(st, al, depth+1)
		}
	}
	return bMaybe
}

func (a *vdAnalysis) allocVal(st map[*ssa.Parameter]bstate, al *ssa.Alloc, depth int) bstate {
	res := bBottom
	if refs := al.Referrers(); refs != nil {
		for _, r := range *refs {
			switch x := r.(type) {
			case *ssa.Store:
				if x.Addr == al {
					res = joinB(res, a.eval(st, x.Val, depth+1))
				}
			case *ssa.MakeClosure:
				// a closure could assign it: look for stores through the free var
				fn := x.Fn.(*ssa.Function)
				for i, b := range x.Bindings {
					if b == al {
						fv := fn.FreeVars[i]
						if frefs := fv.Referrers(); frefs != nil {
							for _, fr := range *frefs {
								if st2, ok := fr.(*ssa.Store); ok && st2.Addr == fv {
									res = bMaybe
								}
							}
						}
					}
				}
			case *ssa.UnOp:
			default:
				res = bMaybe
			}
		}
	}
	if res == bBottom {
		return bFalse // zero value
	}
	return res
}

// boolFieldStores seeds a.fields with the bool struct fields that are stored anywhere.
func (a *vdAnalysis) scanFieldStores() {
	for _, fn := range a.w.Funcs {
		if !a.w.InLib(fn) {
			continue
		}
		st := a.visited[fn] // nil if not visited: params evaluate to maybe
		eachInstr(fn, func(in ssa.Instruction) {
			s, ok := in.(*ssa.Store)
			if !ok {
				return
			}
			fa, ok := s.Addr.(*ssa.FieldAddr)
			if !ok {
				return
			}
			if b, ok := s.Val.Type().Underlying().(*types.Basic); !ok || b.Kind() != types.Bool {
				return
			}
			_, stn, name, ok := fieldOf(fa)
			if !ok || stn == nil {
				return
			}
			k := stn.Obj().Name() + "." + name
			var v bstate
			if st == nil {
				v = a.eval(map[*ssa.Parameter]bstate{}, s.Val, 0)
			} else {
				v = a.eval(st, s.Val, 0)
			}
			old := a.fields[k]
			nv := joinB(old, v)
			if _, had := a.fields[k]; !had || nv != old {
				a.fields[k] = nv
				a.changed = true
			}
		})
	}
}

func (a *vdAnalysis) visit(fn *ssa.Function, st map[*ssa.Parameter]bstate, from string) {
	c := vdCtx{fn, ctxKey(fn, st)}
	if _, ok := a.ctxs[c]; ok {
		return
	}
	a.ctxs[c] = st
	a.order = append(a.order, c)
	a.parent[c] = from
	if a.visited[fn] == nil {
		a.visited[fn] = map[*ssa.Parameter]bstate{}
	}
	for _, p := range boolParams(fn) {
		a.visited[fn][p] = joinB(a.visited[fn][p], st[p])
	}
	me := fmt.Sprintf("%s[%s]", a.w.Name(fn), c.key)
	for _, b := range fn.Blocks {
		// skip blocks that are dead in this context: dominated by a guard that is false
		if a.deadBlock(st, b) {
			continue
		}
		for _, in := range b.Instrs {
			if mc, ok := in.(*ssa.MakeClosure); ok {
				cf := mc.Fn.(*ssa.Function)
				cst := map[*ssa.Parameter]bstate{}
				for _, p := range boolParams(cf) {
					cst[p] = bMaybe
				}
				a.visit(cf, cst, me)
				continue
			}
			call, ok := in.(ssa.CallInstruction)
			if !ok {
				// function values taken
				for _, op := range in.Operands(nil) {
					if f, ok := (*op).(*ssa.Function); ok && a.w.InLib(f) && f.Blocks != nil {
						cst := map[*ssa.Parameter]bstate{}
						for _, p := range boolParams(f) {
							cst[p] = bMaybe
						}
						a.visit(f, cst, me)
					}
				}
				continue
			}
			cc := call.Common()
			for _, arg := range cc.Args {
				if f, ok := arg.(*ssa.Function); ok && a.w.InLib(f) && f.Blocks != nil {
					cst := map[*ssa.Parameter]bstate{}
					for _, p := range boolParams(f) {
						cst[p] = bMaybe
					}
					a.visit(f, cst, me)
				}
			}
			callee := cc.StaticCallee()
			if callee == nil || !a.w.InLib(callee) || callee.Blocks == nil {
				if cc.IsInvoke() {
					// CHA edges of in-module interfaces
					for _, e := range a.w.G.Out[fn] {
						if e.Site == in && e.Kind == "cha" {
							cst := map[*ssa.Parameter]bstate{}
							for _, p := range boolParams(e.To) {
								cst[p] = bMaybe
							}
							a.visit(e.To, cst, me)
						}
					}
				}
				// json edges
				for _, e := range a.w.G.Out[fn] {
					if e.Site == in && e.Kind == "json" {
						a.visit(e.To, map[*ssa.Parameter]bstate{}, me)
					}
				}
				continue
			}
			if a.valueFns[callee] {
				a.hits = append(a.hits, vdHit{c, in, "call of the value reader " + a.w.Name(callee)})
				continue
			}
			cst := map[*ssa.Parameter]bstate{}
			for i, p := range callee.Params {
				if bt, ok := p.Type().Underlying().(*types.Basic); ok && bt.Kind() == types.Bool {
					if i < len(cc.Args) {
						cst[p] = a.eval(st, cc.Args[i], 0)
					} else {
						cst[p] = bMaybe
					}
				}
			}
			a.visit(callee, cst, me)
		}
	}
}

// deadBlock: some guard dominating b requires a value that is false in this context to be true.
func (a *vdAnalysis) deadBlock(st map[*ssa.Parameter]bstate, b *ssa.BasicBlock) bool {
	for _, g := range guardsOf(b) {
		c, pol := g.atom()
		if !pol {
			continue
		}
		if a.mustBeFalse(st, c, 0) {
			return true
		}
	}
	return false
}

// mustBeFalse: condition c cannot be true in the context (c is a tracked false value, or
// a conjunction one of whose conjuncts is).  go/ssa lowers && into control flow, so a
// conjunction shows up as a φ whose non-constant-false operands must all be false.
func (a *vdAnalysis) mustBeFalse(st map[*ssa.Parameter]bstate, c ssa.Value, depth int) bool {
	if depth > 6 {
		return false
	}
	if a.eval(st, c, 0) == bFalse {
		return true
	}
	return false
}

func (a *vdAnalysis) path(c vdCtx) []string {
	var rev []string
	cur := fmt.Sprintf("%s[%s]", a.w.Name(c.fn), c.key)
	seen := map[string]bool{}
	idx := map[string]vdCtx{}
	for _, x := range a.order {
		idx[fmt.Sprintf("%s[%s]", a.w.Name(x.fn), x.key)] = x
	}
	for cur != "" && !seen[cur] {
		seen[cur] = true
		rev = append(rev, cur)
		cur = a.parent[idx[cur]]
	}
	for i, j := 0, len(rev)-1; i < j; i, j = i+1, j-1 {
		rev[i], rev[j] = rev[j], rev[i]
	}
	return rev
}

// keyOnlyEntries: exported entries that must never read values, with their bool
// parameters (the value-demand flags) bound to false.
var keyOnlyNoFlag = []string{
	"(*Collection).Exist", "(*Collection).ExistAny", "(*Collection).Len", "(*Collection).Set", "(*Collection).SetAny",
	"(*Collection).SetItem", "(*Collection).Delete", "(*Collection).DeleteAny", "(*Collection).EvictSomeItems",
	"(*Collection).GetTotals",
}
var keyOnlyWithFlag = []string{
	"(*Collection).GetItem", "(*Collection).MinItem", "(*Collection).MaxItem",
	"(*Collection).VisitItemsAscend", "(*Collection).VisitItemsDescend",
	"(*Collection).VisitItemsAscendEx", "(*Collection).VisitItemsDescendEx",
	"(*Collection).IterateAscend", "(*Collection).IterateDescend",
}

func ruleZ2(w *World, r *Report) {
	const rule = "Z2"
	valueFns := map[*ssa.Function]bool{}
	if f := w.Fn("(*Store).ItemValRead"); f != nil {
		valueFns[f] = true
	} else {
		r.Unknown(rule, "anchor (*Store).ItemValRead", "-", "value-read dispatch wrapper not found")
		return
	}
	// any other library function that reads through the ItemValRead callback directly
	for _, cb := range w.G.Callbacks {
		if cb.Desc == "ItemValRead" && w.InLib(cb.Fn) {
			valueFns[cb.Fn] = true
		}
	}
	// value-read sites must exist and be guarded by a bool parameter (value demand)
	nSites := 0
	for _, fn := range w.Funcs {
		if !w.InLib(fn) || valueFns[fn] {
			continue
		}
		eachInstr(fn, func(in ssa.Instruction) {
			call, ok := in.(ssa.CallInstruction)
			if !ok {
				return
			}
			if f := call.Common().StaticCallee(); f != nil && valueFns[f] {
				nSites++
				key := fmt.Sprintf("%s › value-read site#%d", w.Name(fn), nSites)
				guarded := ""
				for _, g := range guardsOf(in.Block()) {
					c, pol := g.atom()
					if p, ok := c.(*ssa.Parameter); ok && pol {
						guarded = p.Name()
					}
				}
				if guarded != "" {
					r.OK(rule, key, w.InstrPos(in), "value read dominated by the true arm of the function's own parameter "+guarded+" (value demand)")
				} else {
					r.Bad(rule, key, w.InstrPos(in), "value read is not guarded by a value-demand parameter: it executes in key-only contexts too")
				}
			}
		})
	}
	if nSites == 0 {
		r.Unknown(rule, "value-read sites", "-", "no call of the value reader found in the library")
	}
	all := append(append([]string{}, keyOnlyNoFlag...), keyOnlyWithFlag...)
	sort.Strings(all)
	totalCtx := 0
	for _, name := range all {
		e := w.Fn(name)
		if e == nil {
			r.Unknown(rule, "anchor "+name, "-", "exported key-only API not found")
			continue
		}
		var a *vdAnalysis
		fields := map[string]bstate{}
		for iter := 0; iter < 6; iter++ {
			a = &vdAnalysis{w: w, ctxs: map[vdCtx]map[*ssa.Parameter]bstate{}, parent: map[vdCtx]string{}, fields: fields,
				visited: map[*ssa.Function]map[*ssa.Parameter]bstate{}, valueFns: valueFns}
			st := map[*ssa.Parameter]bstate{}
			for _, p := range boolParams(e) {
				st[p] = bFalse
			}
			a.visit(e, st, "")
			a.changed = false
			a.scanFieldStores()
			if !a.changed {
				break
			}
		}
		totalCtx += len(a.ctxs)
		key := name + "(withValue=false) ↛ value read"
		if len(boolParams(e)) == 0 {
			key = name + " ↛ value read"
		}
		if len(a.hits) > 0 {
			h := a.hits[0]
			r.Bad(rule, key, w.InstrPos(h.site), fmt.Sprintf("a value read is reachable in a key-only calling context: %s in %s[%s]", h.why, w.Name(h.ctx.fn), h.ctx.key), a.path(h.ctx)...)
		} else {
			r.OK(rule, key, w.Pos(e.Pos()), fmt.Sprintf("%d (function, flag-state) contexts explored; no value-read site reachable with its demand flag possibly true", len(a.ctxs)))
		}
	}
	r.Info["contexts_explored"] = totalCtx
	r.Floor(rule, 15)
}

// ---- Z3: header/key/node reads cannot extend into value bytes

func ruleZ3(w *World, r *Report) {
	const rule = "Z3"
	for _, s := range w.G.Sinks {
		if s.Method != "ReadAt" || !w.InLib(s.Fn) {
			continue
		}
		name := w.Name(s.Fn)
		if name == "(*Store).ItemValRead" {
			continue // the value read itself
		}
		ent := w.entriesReaching(s.Fn)
		if subsetOf(ent, openAPI, keysBool(truncAPI), map[string]bool{"(*Store).CopyTo": true}) {
			continue // root scan reads: Z1's business
		}
		buf := s.Instr.Common().Args[0]
		key := w.G.SinkName(s) + " › buffer"
		ok, why := w.boundedBuffer(s.Instr, buf)
		r.Check(ok, rule, key, w.InstrPos(s.Instr), why, why)
	}
	r.Floor(rule, 3)
}

func (w *World) boundedBuffer(at ssa.Instruction, buf ssa.Value) (bool, string) {
	v := buf
	if sl, ok := v.(*ssa.Slice); ok {
		constOrNil := func(x ssa.Value) bool {
			if x == nil {
				return true
			}
			_, ok := constInt(x)
			return ok
		}
		if _, isAlloc := sl.X.(*ssa.Alloc); (sl.Low == nil && sl.High == nil) || (isAlloc && constOrNil(sl.Low) && constOrNil(sl.High)) {
			v = sl.X
		}
	}
	switch x := v.(type) {
	case *ssa.Alloc:
		// make([]byte, <const>) is lowered to a slice of new [N]byte
		if arr, ok := deref(x.Type()).Underlying().(*types.Array); ok {
			return true, fmt.Sprintf("buffer has the constant length %d (fixed-size header)", arr.Len())
		}
	case *ssa.MakeSlice:
		if _, ok := constInt(x.Len); ok {
			return true, "buffer has a constant length (fixed-size header)"
		}
		// length equal to a constant by a dominating guard
		l := unwrap(x.Len)
		if cv, ok := l.(*ssa.Convert); ok {
			l = cv.X
		}
		for _, g := range guardsOf(at.Block()) {
			c, pol := g.atom()
			if b, ok := c.(*ssa.BinOp); ok {
				var other ssa.Value
				if sameVal(b.X, l) {
					other = b.Y
				} else if sameVal(b.Y, l) {
					other = b.X
				}
				if other == nil {
					continue
				}
				if _, isC := constInt(unwrap(other)); isC || isConstExpr(other) {
					if (b.Op == token.NEQ && !pol) || (b.Op == token.EQL && pol) {
						return true, "buffer length equals a constant on this path (record-length guard)"
					}
				}
			}
		}
		return false, "buffer length is a run-time value not pinned to a constant: the read may extend into value bytes"
	case *ssa.UnOp:
		if base, ok := isLoadOfField(x, "Item", "Key"); ok {
			if c := callOfValue(base); c != nil && staticCalleeName(c) == "(*Store).ItemAlloc" {
				return true, "buffer is the Key of the item returned by ItemAlloc(keyLength): exactly the key bytes"
			}
			// through a φ-free local
			return false, "buffer is an Item.Key whose item does not come straight from ItemAlloc"
		}
	}
	return false, fmt.Sprintf("buffer of unrecognised shape (%T)", v)
}

func isConstExpr(v ssa.Value) bool {
	switch x := unwrap(v).(type) {
	case *ssa.Const:
		return true
	case *ssa.Convert:
		return isConstExpr(x.X)
	}
	return false
}

func init() {
	register(&Property{
		ID:    "C19",
		Level: "proof",
		Rules: []Rule{{"Z1", ruleZ1}, {"Z2", ruleZ2}, {"Z3", ruleZ3}},
		Explanation: "The property is a statement over code paths and is decided as such. Z1: the ReadAt sinks reachable from NewStoreEx (root-record scan) are disjoint from those reachable from tree loading, and no node/item/value loader is reachable from open (the JSON unmarshaller only records a location). Z2: every call of the value reader is dominated by the true arm of a value-demand parameter, and a context-sensitive traversal (contexts = function × state of its bool parameters ∈ {false, unknown}, bool struct fields joined over all their stores) from every key-only entry — Exist, Len, Set*, Delete*, EvictSomeItems, GetTotals, and GetItem/MinItem/MaxItem/all visits and iterators with withValue bound to false — never reaches a value-read site in a context where its flag may be true. Z3: the other item/node reads have buffers of constant length, of a length pinned to a constant by a dominating guard, or exactly the Key slice of the item returned by ItemAlloc(keyLength), so they cannot extend into value bytes.",
		Assumptions: []string{"ItemAlloc returns an item whose Key has the requested length (neutral callbacks)", "value bytes are read only through Store.ItemValRead / the ItemValRead callback (decided by C17 K1)"},
		ControlSrc:   controlC19,
		ControlEdits: []ControlEdit{{"NewStoreEx", "zzCtlEagerLoad(nil)"}},
		Expect: []Expect{
			{"Z2", "ZzCtlEager › value-read site"},
			{"Z1", "NewStoreEx"},
		},
	})
}

const controlC19 = `package gkvlite

// positive controls for C19 (never part of /repo)
func (t *Collection) ZzCtlEager(iloc *itemLoc, it *Item) error { // unguarded value read
	return t.store.ItemValRead(t, it, t.store.file, 0, 1)
}

func zzCtlEagerLoad(s *Store) { // eager root-node load, spliced into NewStoreEx
	if s == nil {
		return
	}
	for _, c := range *s.getColl() {
		c.root.root.read(s)
	}
}
`

package main

import (
	"go/token"

	"golang.org/x/tools/go/ssa"
)

// singleAssigned: v is a load of a local cell (Alloc) that is stored exactly once in
// its function and never through a closure's free variable; returns the stored value.
func singleAssigned(v ssa.Value) ssa.Value {
	u, ok := v.(*ssa.UnOp)
	if !ok || u.Op != token.MUL {
		return nil
	}
	al, ok := u.X.(*ssa.Alloc)
	if !ok {
		return nil
	}
	var val ssa.Value
	n := 0
	refs := al.Referrers()
	if refs == nil {
		return nil
	}
	for _, rf := range *refs {
		switch x := rf.(type) {
		case *ssa.Store:
			if x.Addr == al {
				n++
				val = x.Val
			}
		case *ssa.MakeClosure:
			fn := x.Fn.(*ssa.Function)
			for i, b := range x.Bindings {
				if b != al {
					continue
				}
				if frefs := fn.FreeVars[i].Referrers(); frefs != nil {
					for _, fr := range *frefs {
						if st, ok := fr.(*ssa.Store); ok && st.Addr == ssa.Value(fn.FreeVars[i]) {
							return nil // assigned inside a closure
						}
					}
				}
			}
		}
	}
	if n != 1 {
		return nil
	}
	return val
}

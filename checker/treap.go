package main

// Treap typing (DESIGN §3.H): symbolic tree terms for the *nodeLoc values of union /
// split / join and their clients, order/priority facts from dominating guards, and a
// small closure prover for "all keys of T < k", "all keys of T > k", "all priorities of
// T <= p" and content linearity.  No solver: a few structural rules + transitive closure.

import (
	"fmt"
	"go/token"
	"sort"
	"strings"

	"golang.org/x/tools/go/ssa"
)

type tterm struct {
	kind string // param | E | L | R | SL | SM | SR | U | J | N | unknown
	a, b *tterm
	key  string // split key (SL/SM/SR) ; for N: key of its item
	item string // for N: item atom, e.g. "item(this)"
	prio string // for N: priority symbol of its item
	name string // param name
}

func (t *tterm) String() string {
	if t == nil {
		return "?"
	}
	switch t.kind {
	case "param":
		return t.name
	case "E":
		return "∅"
	case "L", "R":
		return t.kind + "(" + t.a.String() + ")"
	case "SL", "SM", "SR":
		return t.kind + "(" + t.a.String() + "," + t.key + ")"
	case "U", "J":
		return t.kind + "(" + t.a.String() + "," + t.b.String() + ")"
	case "N":
		return "N(" + t.item + "," + t.a.String() + "," + t.b.String() + ")"
	}
	return "?"
}

func tE() *tterm { return &tterm{kind: "E"} }

// rootOf: the parameter tree T is a part of (through L/R/SL/SM/SR), or nil.
func rootOf(t *tterm) *tterm {
	for t != nil {
		switch t.kind {
		case "param":
			return t
		case "L", "R", "SL", "SM", "SR":
			t = t.a
		default:
			return nil
		}
	}
	return nil
}

// ---- facts

type tfacts struct {
	keyLT   map[[2]string]bool // strict k1 < k2
	keyEQ   map[[2]string]bool
	prioLE  map[[2]string]bool // p1 <= p2
	empty   map[string]bool    // term string -> known empty
	nonEmp  map[string]bool
	hypLT   map[[2]string]bool // (param tree, key): all keys of tree < key
	hypGT   map[[2]string]bool
	hypPLE  map[[2]string]bool // (param tree, prio): all priorities <= prio
	sepHyp  [][2]string        // (A, B): every key of A < every key of B
	heapHyp bool               // inputs satisfy the heap property (root priority bounds the tree)
}

func newFacts() *tfacts {
	return &tfacts{keyLT: map[[2]string]bool{}, keyEQ: map[[2]string]bool{}, prioLE: map[[2]string]bool{}, empty: map[string]bool{}, nonEmp: map[string]bool{},
		hypLT: map[[2]string]bool{}, hypGT: map[[2]string]bool{}, hypPLE: map[[2]string]bool{}, heapHyp: true}
}

func (f *tfacts) clone() *tfacts {
	n := newFacts()
	for k, v := range f.keyLT {
		n.keyLT[k] = v
	}
	for k, v := range f.keyEQ {
		n.keyEQ[k] = v
	}
	for k, v := range f.prioLE {
		n.prioLE[k] = v
	}
	for k, v := range f.empty {
		n.empty[k] = v
	}
	for k, v := range f.nonEmp {
		n.nonEmp[k] = v
	}
	for k, v := range f.hypLT {
		n.hypLT[k] = v
	}
	for k, v := range f.hypGT {
		n.hypGT[k] = v
	}
	for k, v := range f.hypPLE {
		n.hypPLE[k] = v
	}
	n.sepHyp = append(n.sepHyp, f.sepHyp...)
	return n
}

// key order closure: le/lt by graph search over strict and equal edges.
func (f *tfacts) keyRel(a, b string, needStrict bool) bool {
	type st struct {
		k      string
		strict bool
	}
	if a == b && !needStrict {
		return true
	}
	seen := map[st]bool{}
	q := []st{{a, false}}
	for len(q) > 0 {
		x := q[0]
		q = q[1:]
		if seen[x] {
			continue
		}
		seen[x] = true
		if x.k == b && (x.strict || !needStrict) {
			return true
		}
		for e := range f.keyEQ {
			if e[0] == x.k {
				q = append(q, st{e[1], x.strict})
			}
			if e[1] == x.k {
				q = append(q, st{e[0], x.strict})
			}
		}
		for e := range f.keyLT {
			if e[0] == x.k {
				q = append(q, st{e[1], true})
			}
		}
	}
	return false
}

func (f *tfacts) prioRel(a, b string) bool { // a <= b
	if a == b {
		return true
	}
	seen := map[string]bool{}
	q := []string{a}
	for len(q) > 0 {
		x := q[0]
		q = q[1:]
		if seen[x] {
			continue
		}
		seen[x] = true
		if x == b {
			return true
		}
		for e := range f.prioLE {
			if e[0] == x {
				q = append(q, e[1])
			}
		}
	}
	return false
}

func keyOfTree(t *tterm) string {
	if t == nil {
		return "?"
	}
	if t.kind == "SM" {
		return t.key // contract of split: the middle carries the split key
	}
	if t.kind == "N" {
		return t.key
	}
	return "K(" + t.String() + ")"
}

func prioOfTree(t *tterm) string {
	if t == nil {
		return "?"
	}
	if t.kind == "N" {
		return t.prio
	}
	return "P(" + t.String() + ")"
}

type tprover struct {
	f     *tfacts
	depth int
	busy  map[string]bool
}

func (p *tprover) isEmpty(t *tterm) bool {
	return t != nil && (t.kind == "E" || p.f.empty[t.String()])
}

// lt: every key of t is < k (dir = -1) or > k (dir = +1).
func (p *tprover) bound(t *tterm, k string, dir int) bool {
	if t == nil || t.kind == "unknown" {
		return false
	}
	if p.isEmpty(t) {
		return true
	}
	goal := fmt.Sprintf("%d|%s|%s", dir, t.String(), k)
	if p.busy[goal] || p.depth > 40 {
		return false
	}
	p.busy[goal] = true
	p.depth++
	defer func() { p.depth--; delete(p.busy, goal) }()
	keyOK := func(k1 string, strict bool) bool { // k1 (<|<=) k for dir -1; k1 (>|>=) k for dir +1
		if dir < 0 {
			return p.f.keyRel(k1, k, strict)
		}
		return p.f.keyRel(k, k1, strict)
	}
	hyp := p.f.hypLT
	if dir > 0 {
		hyp = p.f.hypGT
	}
	// separation hypothesis (join): every key of A < every key of B
	for _, s := range p.f.sepHyp {
		r := rootOf(t)
		if r == nil {
			continue
		}
		if dir < 0 && r.String() == s[0] && keyInside(k, s[1]) {
			return true
		}
		if dir > 0 && r.String() == s[1] && keyInside(k, s[0]) {
			return true
		}
	}
	switch t.kind {
	case "param":
		if hyp[[2]string{t.String(), k}] {
			return true
		}
		// decompose a non-empty parameter tree: root key, left part, right part
		if p.f.nonEmp[t.String()] {
			l, r := &tterm{kind: "L", a: t}, &tterm{kind: "R", a: t}
			if keyOK(keyOfTree(t), true) && p.bound(l, k, dir) && p.bound(r, k, dir) {
				return true
			}
		}
		return false
	case "L":
		if dir < 0 && keyOK(keyOfTree(t.a), false) {
			return true // L(v) < K(v) <= k
		}
		return p.bound(t.a, k, dir)
	case "R":
		if dir > 0 && keyOK(keyOfTree(t.a), false) {
			return true // R(v) > K(v) >= k
		}
		return p.bound(t.a, k, dir)
	case "SL":
		if dir < 0 && keyOK(t.key, false) {
			return true
		}
		return p.bound(t.a, k, dir)
	case "SR":
		if dir > 0 && keyOK(t.key, false) {
			return true
		}
		return p.bound(t.a, k, dir)
	case "SM":
		if keyOK(t.key, true) {
			return true
		}
		return p.bound(t.a, k, dir)
	case "U", "J":
		return p.bound(t.a, k, dir) && p.bound(t.b, k, dir)
	case "N":
		return keyOK(t.key, true) && p.bound(t.a, k, dir) && p.bound(t.b, k, dir)
	}
	return false
}

// keyInside: key symbol k denotes a key stored in parameter tree named root
// ("K(<subtree of root>)").
func keyInside(k, root string) bool {
	if !strings.HasPrefix(k, "K(") {
		return false
	}
	inner := k[2 : len(k)-1]
	// strip L( R( SL( … wrappers textually: the innermost identifier is the root
	for {
		switch {
		case strings.HasPrefix(inner, "L(") || strings.HasPrefix(inner, "R("):
			inner = inner[2 : len(inner)-1]
		case strings.HasPrefix(inner, "SL(") || strings.HasPrefix(inner, "SR(") || strings.HasPrefix(inner, "SM("):
			inner = inner[3:]
			if i := strings.LastIndex(inner, ","); i >= 0 {
				inner = inner[:i]
			}
		default:
			return inner == root
		}
	}
}

// member rule: K(X) is a key of X; used by callers through facts added on demand.
func (p *tprover) addMemberFacts(trees []*tterm, keys []string) {
	// for every hypothesis lt(root,k): K(sub) < k for the subtrees we know non-empty
	for _, t := range trees {
		r := rootOf(t)
		if r == nil {
			continue
		}
		kt := keyOfTree(t)
		for _, k := range keys {
			if p.f.hypLT[[2]string{r.String(), k}] {
				p.f.keyLT[[2]string{kt, k}] = true
			}
			if p.f.hypGT[[2]string{r.String(), k}] {
				p.f.keyLT[[2]string{k, kt}] = true
			}
		}
	}
}

// ple: every priority of t is <= pr.
func (p *tprover) ple(t *tterm, pr string) bool {
	if t == nil || t.kind == "unknown" {
		return false
	}
	if p.isEmpty(t) {
		return true
	}
	switch t.kind {
	case "param":
		if p.f.hypPLE[[2]string{t.String(), pr}] {
			return true
		}
		return p.f.heapHyp && p.f.prioRel(prioOfTree(t), pr)
	case "L", "R", "SL", "SR", "SM":
		// a part of v: bounded by v's root priority (heap hypothesis on inputs), or by v's own bound
		if p.f.heapHyp && p.f.prioRel(prioOfTree(t.a), pr) {
			return true
		}
		return p.ple(t.a, pr)
	case "U", "J":
		return p.ple(t.a, pr) && p.ple(t.b, pr)
	case "N":
		return p.f.prioRel(t.prio, pr) && p.ple(t.a, pr) && p.ple(t.b, pr)
	}
	return false
}

// ---- content (linearity)

// atoms: the multiset of indivisible pieces a tree term is made of.
func atoms(t *tterm, out map[string]int, f *tfacts) {
	if t == nil {
		out["?"]++
		return
	}
	if t.kind == "E" || f.empty[t.String()] {
		return
	}
	switch t.kind {
	case "U", "J":
		atoms(t.a, out, f)
		atoms(t.b, out, f)
	case "N":
		out[t.item]++
		atoms(t.a, out, f)
		atoms(t.b, out, f)
	default:
		out[t.String()]++
	}
}

// normalise: apply the identities  p = item(p)+L(p)+R(p)  (decomposed parameter) and
// SL(t,k)+SM(t,k)+SR(t,k) = t  as far as they apply.
func normaliseAtoms(m map[string]int, decomposed map[string]bool) {
	changed := true
	for changed {
		changed = false
		// expand decomposed params / subtrees
		for a, n := range m {
			if n > 0 && decomposed[a] {
				m[a] -= n
				m["item("+a+")"] += n
				m["L("+a+")"] += n
				m["R("+a+")"] += n
				changed = true
			}
		}
		// fold complete splits back
		for a, n := range m {
			if n <= 0 || !strings.HasPrefix(a, "SL(") {
				continue
			}
			rest := a[3:]
			sm, sr := "SM("+rest, "SR("+rest
			i := strings.LastIndex(rest, ",")
			base := rest[:i]
			k := n
			if m[sr] < k {
				k = m[sr]
			}
			// the middle may be absent when known empty (handled by the caller's empty facts)
			if k > 0 && (m[sm] >= k) {
				m[a] -= k
				m[sm] -= k
				m[sr] -= k
				m[base] += k
				changed = true
			}
		}
	}
	for a, n := range m {
		if n == 0 {
			delete(m, a)
		}
	}
}

func atomString(m map[string]int) string {
	var ks []string
	for k, n := range m {
		if n == 1 {
			ks = append(ks, k)
		} else {
			ks = append(ks, fmt.Sprintf("%d×%s", n, k))
		}
	}
	sort.Strings(ks)
	return "{" + strings.Join(ks, ", ") + "}"
}

// ---- extraction from SSA

type textract struct {
	w     *World
	fn    *ssa.Function
	env   *Env // may be nil
	depth int
}

// isLoopHeaderPhi: the φ merges a value that depends on itself (loop-carried variable).
func isLoopHeaderPhi(ph *ssa.Phi) bool {
	b := ph.Block()
	for _, p := range b.Preds {
		if b.Dominates(p) {
			return true
		}
	}
	return false
}

func (x *textract) res(v ssa.Value) ssa.Value {
	if x.env != nil {
		return x.env.Resolve(v)
	}
	return v
}

// nodeTree: the tree whose root node the *node value v is.
func (x *textract) nodeTree(v ssa.Value) *tterm {
	v = x.res(v)
	switch y := v.(type) {
	case *ssa.Extract:
		if c, ok := y.Tuple.(*ssa.Call); ok && staticCalleeName(c) == "(*nodeLoc).read" && y.Index == 0 {
			return x.tree(c.Common().Args[0])
		}
	case *ssa.Call:
		if staticCalleeName(y) == "(*nodeLoc).Node" {
			return x.tree(y.Common().Args[0])
		}
	case *ssa.Phi:
		if isLoopHeaderPhi(y) {
			// a loop-carried node (`n, err = read(); for … { …; n, err = read() }`): the node
			// under the cursor of this iteration
			n := y.Comment
			if n == "" {
				n = y.Name()
			}
			return &tterm{kind: "param", name: n}
		}
		var first *tterm
		for _, e := range y.Edges {
			if isNilConst(e) {
				continue
			}
			t := x.nodeTree(e)
			if first == nil {
				first = t
			} else if t == nil || t.String() != first.String() {
				return nil
			}
		}
		return first
	}
	return nil
}

func (x *textract) tree(v ssa.Value) *tterm {
	x.depth++
	defer func() { x.depth-- }()
	if x.depth > 24 {
		return &tterm{kind: "param", name: "cursor"} // a loop-carried handle (iterative descent)
	}
	if ph, ok := v.(*ssa.Phi); ok && isLoopHeaderPhi(ph) {
		n := ph.Comment
		if n == "" {
			n = ph.Name()
		}
		return &tterm{kind: "param", name: n}
	}
	v = x.res(v)
	switch y := v.(type) {
	case *ssa.Parameter:
		return &tterm{kind: "param", name: y.Name()}
	case *ssa.Global:
		if y.Name() == "emptyNodeLoc" {
			return tE()
		}
	case *ssa.Const:
		if y.Value == nil {
			return tE()
		}
	case *ssa.FieldAddr:
		_, st, name, ok := fieldOf(y)
		if ok && st != nil && st.Obj().Name() == "node" && (name == "left" || name == "right") {
			if nt := x.nodeTree(y.X); nt != nil {
				k := "L"
				if name == "right" {
					k = "R"
				}
				return &tterm{kind: k, a: nt}
			}
		}
	case *ssa.UnOp:
		if y.Op == token.MUL {
			if base, ok := isLoadOfField(y, "rootNodeLoc", "root"); ok {
				_ = base
				return &tterm{kind: "param", name: "root"}
			}
		}
	case *ssa.Call:
		switch staticCalleeName(y) {
		case "(*nodeLoc).Copy":
			// fresh handle with the content of src
			if rc, ok := y.Common().Args[0].(*ssa.Call); ok && staticCalleeName(rc) == "(*Collection).mkNodeLoc" {
				return x.tree(y.Common().Args[1])
			}
		case "(*Collection).mkNodeLoc":
			arg := y.Common().Args[1]
			if isNilConst(arg) {
				return tE()
			}
			if mk, ok := x.res(arg).(*ssa.Call); ok && staticCalleeName(mk) == "(*Collection).mkNode" {
				return x.nodeTerm(mk)
			}
		}
	case *ssa.Extract:
		c, ok := y.Tuple.(*ssa.Call)
		if !ok {
			return nil
		}
		a := c.Common().Args
		switch staticCalleeName(c) {
		case "(*Store).split":
			kinds := []string{"SL", "SM", "SR"}
			if y.Index < 3 {
				return &tterm{kind: kinds[y.Index], a: x.tree(a[2]), key: x.key(a[3])}
			}
		case "(*Store).union":
			if y.Index == 0 {
				return &tterm{kind: "U", a: x.tree(a[2]), b: x.tree(a[3])}
			}
		case "(*Store).join":
			if y.Index == 0 {
				return &tterm{kind: "J", a: x.tree(a[2]), b: x.tree(a[3])}
			}
		}
	}
	return &tterm{kind: "unknown"}
}

// nodeTerm: N(item, left, right) of a mkNode call.
func (x *textract) nodeTerm(mk *ssa.Call) *tterm {
	a := mk.Common().Args // (t, item, left, right, num, bytes)
	it := x.itemTree(a[1])
	n := &tterm{kind: "N", a: x.tree(a[2]), b: x.tree(a[3])}
	if it == nil {
		n.item, n.key, n.prio = "newitem", "K(newitem)", "P(newitem)"
	} else {
		n.item, n.key, n.prio = "item("+it.String()+")", keyOfTree(it), prioOfTree(it)
	}
	return n
}

// itemTree: the tree whose root item handle v (&node.item) is.
func (x *textract) itemTree(v ssa.Value) *tterm {
	v = x.res(v)
	switch y := v.(type) {
	case *ssa.FieldAddr:
		if _, st, name, ok := fieldOf(y); ok && st != nil && st.Obj().Name() == "node" && name == "item" {
			return x.nodeTree(y.X)
		}
	case *ssa.Phi:
		var first *tterm
		for _, e := range y.Edges {
			if isNilConst(e) {
				continue
			}
			t := x.itemTree(e)
			if first == nil {
				first = t
			} else if t == nil || t.String() != first.String() {
				return nil
			}
		}
		return first
	}
	return nil
}

// itemOfValue: the tree whose root item the *Item value v is (result of handle.read).
func (x *textract) itemValTree(v ssa.Value) *tterm {
	v = x.res(v)
	if ex, ok := v.(*ssa.Extract); ok && ex.Index == 0 {
		if c, ok := ex.Tuple.(*ssa.Call); ok && staticCalleeName(c) == "(*itemLoc).read" {
			return x.itemTree(c.Common().Args[0])
		}
	}
	return nil
}

func (x *textract) key(v ssa.Value) string {
	v = x.res(v)
	switch y := v.(type) {
	case *ssa.Parameter:
		return "key:" + y.Name()
	case *ssa.UnOp:
		if base, ok := isLoadOfField(y, "Item", "Key"); ok {
			if t := x.itemValTree(base); t != nil {
				return keyOfTree(t)
			}
			if p, isP := base.(*ssa.Parameter); isP {
				return "K(" + p.Name() + ")"
			}
		}
	}
	return "?key"
}

func (x *textract) prio(v ssa.Value) string {
	v = x.res(v)
	if base, ok := isLoadOfField(v, "Item", "Priority"); ok {
		if t := x.itemValTree(base); t != nil {
			return prioOfTree(t)
		}
	}
	return "?prio"
}

// factsAtBlock translates the dominating guards of b into order / priority / emptiness facts.
func (x *textract) factsAtBlock(b *ssa.BasicBlock, base *tfacts) *tfacts {
	f := base.clone()
	for _, ft := range factsAt(b) {
		x.addFact(f, ft)
	}
	return x.finishBlockFacts(b, f)
}

// addFact translates one atomic guard into order / priority / emptiness knowledge.
func (x *textract) addFact(f *tfacts, ft Fact) {
	{
		switch c := ft.Cond.(type) {
		case *ssa.BinOp:
			// comparator result against zero
			if call, ok := cmpCallOf(c); ok {
				if tbl, ok2 := signTable(c, call); ok2 {
					k1, k2 := x.key(call.Common().Args[0]), x.key(call.Common().Args[1])
					// which signs remain possible given the polarity
					var poss [3]bool
					for i := range tbl {
						poss[i] = tbl[i] == ft.Pol
					}
					switch poss {
					case [3]bool{true, false, false}:
						f.keyLT[[2]string{k1, k2}] = true
					case [3]bool{false, false, true}:
						f.keyLT[[2]string{k2, k1}] = true
					case [3]bool{false, true, false}:
						f.keyEQ[[2]string{k1, k2}] = true
					}
					// two-sign knowledge (<=, >=) needs no fact for our rules; the third test narrows it
				}
				return
			}
			// priority comparison
			p1, p2 := x.prio(c.X), x.prio(c.Y)
			if p1 != "?prio" && p2 != "?prio" {
				gt := c.Op == token.GTR
				lt := c.Op == token.LSS
				ge := c.Op == token.GEQ
				le := c.Op == token.LEQ
				switch {
				case (gt && ft.Pol) || (le && !ft.Pol): // p1 > p2
					f.prioLE[[2]string{p2, p1}] = true
				case (gt && !ft.Pol) || (le && ft.Pol): // p1 <= p2
					f.prioLE[[2]string{p1, p2}] = true
				case (lt && ft.Pol) || (ge && !ft.Pol): // p1 < p2
					f.prioLE[[2]string{p1, p2}] = true
				case (lt && !ft.Pol) || (ge && ft.Pol): // p1 >= p2
					f.prioLE[[2]string{p2, p1}] = true
				}
				return
			}
			// node == nil
			if isNilConst(c.Y) && (c.Op == token.EQL || c.Op == token.NEQ) {
				if t := x.nodeTree(c.X); t != nil {
					isNil := (c.Op == token.EQL) == ft.Pol
					if isNil {
						f.empty[t.String()] = true
					} else {
						f.nonEmp[t.String()] = true
					}
				}
			}
		case *ssa.Call:
			if staticCalleeName(c) == "(*nodeLoc).isEmpty" {
				t := x.tree(c.Common().Args[0])
				if t != nil && t.kind != "unknown" {
					if ft.Pol {
						f.empty[t.String()] = true
					} else {
						f.nonEmp[t.String()] = true
					}
				}
			}
		}
	}
}

func (x *textract) finishBlockFacts(b *ssa.BasicBlock, f *tfacts) *tfacts {
	// the two-step narrowing of a three-way comparison: c == 0 false and c < 0 false ⇒ c > 0
	x.narrowThreeWay(b, f)
	// a block entered from several arms of an ||-chain (`if t.isEmpty() || node == nil`):
	// what every incoming edge establishes about emptiness holds in the block
	if len(b.Preds) > 1 {
		var common map[string]bool
		for _, p := range b.Preds {
			es := map[string]bool{}
			if len(p.Instrs) > 0 {
				if ifi, ok := p.Instrs[len(p.Instrs)-1].(*ssa.If); ok && p.Succs[0] != p.Succs[1] {
					pol := p.Succs[0] == b
					for _, cf := range condFacts(ifi.Cond, pol, 0) {
						switch c := cf.Cond.(type) {
						case *ssa.Call:
							if staticCalleeName(c) == "(*nodeLoc).isEmpty" && cf.Pol {
								if t := x.tree(c.Common().Args[0]); t != nil && t.kind != "unknown" {
									es[t.String()] = true
								}
							}
						case *ssa.BinOp:
							if isNilConst(c.Y) && (c.Op == token.EQL) == cf.Pol {
								if t := x.nodeTree(c.X); t != nil {
									es[t.String()] = true
								}
							}
						}
					}
				}
			}
			if common == nil {
				common = es
			} else {
				for k := range common {
					if !es[k] {
						delete(common, k)
					}
				}
			}
		}
		for k := range common {
			f.empty[k] = true
		}
	}
	return f
}

// narrowThreeWay combines several guards on the same comparator result.
func (x *textract) narrowThreeWay(b *ssa.BasicBlock, f *tfacts) {
	poss := map[*ssa.Call][3]bool{}
	for _, ft := range factsAt(b) {
		c, ok := ft.Cond.(*ssa.BinOp)
		if !ok {
			continue
		}
		call, ok := cmpCallOf(c)
		if !ok {
			continue
		}
		tbl, ok2 := signTable(c, call)
		if !ok2 {
			continue
		}
		cur, seen := poss[call]
		if !seen {
			cur = [3]bool{true, true, true}
		}
		for i := range cur {
			cur[i] = cur[i] && (tbl[i] == ft.Pol)
		}
		poss[call] = cur
	}
	for call, p := range poss {
		k1, k2 := x.key(call.Common().Args[0]), x.key(call.Common().Args[1])
		switch p {
		case [3]bool{true, false, false}:
			f.keyLT[[2]string{k1, k2}] = true
		case [3]bool{false, false, true}:
			f.keyLT[[2]string{k2, k1}] = true
		case [3]bool{false, true, false}:
			f.keyEQ[[2]string{k1, k2}] = true
		}
	}
}

package main

// C16, continued.
//
//	B3  a block visit that presents its blocks in rounds (one item of every block per
//	    round) decides per block whether that block still has an item to give; without any
//	    per-block decision the block that ends the collection, which is shorter than the
//	    round count whenever the size is not a multiple, delivers its last item again
//	B4  the block visits answer an empty collection without a made-up error: the sizes
//	    determineBlocks computes for a count of 0 are pushed through the callers' guards
//	    by constant evaluation

import (
	"fmt"
	"go/constant"
	"go/token"

	"golang.org/x/tools/go/ssa"
)

// ---------------------------------------------------------------- constant evaluation

type cval struct {
	isNil bool
	k     int64
}

type cassign map[ssa.Value]cval

func evalC(v ssa.Value, env *Env, as cassign, depth int) (cval, bool) {
	if depth > 12 {
		return cval{}, false
	}
	v = env.Resolve(v)
	if c, ok := as[v]; ok {
		return c, true
	}
	switch x := v.(type) {
	case *ssa.Const:
		if x.Value == nil {
			return cval{isNil: true}, true
		}
		if x.Value.Kind() == constant.Int {
			if k, exact := constant.Int64Val(x.Value); exact {
				return cval{k: k}, true
			}
		}
	case *ssa.Convert:
		return evalC(x.X, env, as, depth+1)
	case *ssa.ChangeType:
		return evalC(x.X, env, as, depth+1)
	case *ssa.BinOp:
		a, okA := evalC(x.X, env, as, depth+1)
		b, okB := evalC(x.Y, env, as, depth+1)
		if !okA || !okB || a.isNil || b.isNil {
			return cval{}, false
		}
		switch x.Op {
		case token.ADD:
			return cval{k: a.k + b.k}, true
		case token.SUB:
			return cval{k: a.k - b.k}, true
		case token.MUL:
			return cval{k: a.k * b.k}, true
		case token.QUO:
			if b.k != 0 {
				return cval{k: a.k / b.k}, true
			}
		case token.REM:
			if b.k != 0 {
				return cval{k: a.k % b.k}, true
			}
		}
	}
	return cval{}, false
}

// decideC: the truth value of a branch condition under the assignment, if determined.
func decideC(cond ssa.Value, env *Env, as cassign) (val, known bool) {
	neg := false
	for {
		if u, isU := cond.(*ssa.UnOp); isU && u.Op == token.NOT {
			cond, neg = u.X, !neg
			continue
		}
		break
	}
	b, ok := cond.(*ssa.BinOp)
	if !ok {
		return false, false
	}
	x, okX := evalC(b.X, env, as, 0)
	y, okY := evalC(b.Y, env, as, 0)
	if !okX || !okY {
		return false, false
	}
	var res bool
	switch {
	case x.isNil || y.isNil:
		if b.Op != token.EQL && b.Op != token.NEQ {
			return false, false
		}
		res = (x.isNil && y.isNil) == (b.Op == token.EQL)
	default:
		switch b.Op {
		case token.EQL:
			res = x.k == y.k
		case token.NEQ:
			res = x.k != y.k
		case token.LSS:
			res = x.k < y.k
		case token.LEQ:
			res = x.k <= y.k
		case token.GTR:
			res = x.k > y.k
		case token.GEQ:
			res = x.k >= y.k
		default:
			return false, false
		}
	}
	return res != neg, true
}

func constBranch(as cassign) func(env *Env, ifi *ssa.If) (bool, bool) {
	return func(env *Env, ifi *ssa.If) (bool, bool) {
		if v, known := decideC(ifi.Cond, env, as); known {
			return v, !v
		}
		return true, true
	}
}

// extractsOf maps the result tuple of call c to its Extract instructions by index.
func extractsOf(c *ssa.Call) map[int]*ssa.Extract {
	out := map[int]*ssa.Extract{}
	for _, ref := range *c.Referrers() {
		if ex, ok := ref.(*ssa.Extract); ok {
			out[ex.Index] = ex
		}
	}
	return out
}

// ---------------------------------------------------------------- B4

func ruleB4(w *World, r *Report) {
	const rule = "B4"
	db := w.Fn("(*Collection).determineBlocks")
	if db == nil {
		r.Unknown(rule, "anchor (*Collection).determineBlocks", "-", "block size helper not found")
		return
	}
	// what does it compute for a count of 0?
	var lenCall *ssa.Call
	eachInstr(db, func(in ssa.Instruction) {
		if c, ok := in.(*ssa.Call); ok && staticCalleeName(c) == "(*Collection).Len" {
			lenCall = c
		}
	})
	if lenCall == nil {
		r.Unknown(rule, "(*Collection).determineBlocks › sizes derive from Len()", w.Pos(db.Pos()), "no call of Len found")
		return
	}
	as := cassign{}
	ex := extractsOf(lenCall)
	if ex[0] == nil {
		r.Unknown(rule, "(*Collection).determineBlocks › sizes derive from Len()", w.InstrPos(lenCall), "the count returned by Len is not used")
		return
	}
	as[ex[0]] = cval{k: 0}
	if ex[1] != nil {
		as[ex[1]] = cval{isNil: true}
	}
	type sizes struct{ num, leng int64 }
	var got []sizes
	undecided := ""
	wk := &Walker{Fn: db, Branch: constBranch(as)}
	wk.OnInstr = func(env *Env, in ssa.Instruction, trail []*ssa.BasicBlock) bool {
		ret, ok := in.(*ssa.Return)
		if !ok {
			return false
		}
		if len(ret.Results) != 3 {
			undecided = "unexpected result shape"
			return true
		}
		if e, okE := evalC(ret.Results[2], env, as, 0); okE && !e.isNil || !okE && isNonNilErrorValue(env.Resolve(ret.Results[2])) {
			return true // an error return of the helper: propagated by the callers
		}
		a, okA := evalC(ret.Results[0], env, as, 0)
		b, okB := evalC(ret.Results[1], env, as, 0)
		if !okA || !okB {
			undecided = "sizes for a count of 0 are not constants at " + w.InstrPos(in)
			return true
		}
		got = append(got, sizes{a.k, b.k})
		return true
	}
	wk.Run(nil, nil)
	if undecided != "" || len(got) == 0 {
		r.Unknown(rule, "(*Collection).determineBlocks › sizes for an empty collection", w.Pos(db.Pos()), "could not evaluate the helper for a count of 0: "+undecided)
		return
	}
	for _, g := range got[1:] {
		if g != got[0] {
			r.Unknown(rule, "(*Collection).determineBlocks › sizes for an empty collection", w.Pos(db.Pos()), "several different results for a count of 0")
			return
		}
	}
	r.OK(rule, "(*Collection).determineBlocks › sizes for an empty collection", w.Pos(db.Pos()), fmt.Sprintf("count 0 ⇒ (numBlocks, lenBlock) = (%d, %d)", got[0].num, got[0].leng))
	for _, name := range []string{"(*Collection).VisitItemsAscendBlockEx", "(*Collection).VisitItemsRandom"} {
		fn := w.Fn(name)
		if fn == nil {
			r.Unknown(rule, "anchor "+name, "-", "exported API not found")
			continue
		}
		key := name + " › an empty collection is answered without a made-up error"
		var dc *ssa.Call
		eachInstr(fn, func(in ssa.Instruction) {
			if c, ok := in.(*ssa.Call); ok && c.Common().StaticCallee() == db {
				dc = c
			}
		})
		if dc == nil {
			r.Unknown(rule, key, w.Pos(fn.Pos()), "the function does not size its blocks through determineBlocks")
			continue
		}
		as2 := cassign{}
		ex2 := extractsOf(dc)
		if ex2[0] != nil {
			as2[ex2[0]] = cval{k: got[0].num}
		}
		if ex2[1] != nil {
			as2[ex2[1]] = cval{k: got[0].leng}
		}
		if ex2[2] != nil {
			as2[ex2[2]] = cval{isNil: true}
		}
		bad := ""
		var badAt ssa.Instruction
		wk2 := &Walker{Fn: fn, Branch: constBranch(as2)}
		wk2.OnInstr = func(env *Env, in ssa.Instruction, trail []*ssa.BasicBlock) bool {
			switch x := in.(type) {
			case *ssa.Return:
				if in.Block().Comment == "recover" {
					return true
				}
				if len(x.Results) == 1 && isNonNilErrorValue(env.Resolve(x.Results[0])) && bad == "" {
					bad, badAt = "with the sizes computed for an empty collection the function returns an error of its own making", in
				}
				return true
			case *ssa.Panic:
				if bad == "" {
					bad, badAt = "with the sizes computed for an empty collection the function panics", in
				}
				return true
			}
			return false
		}
		wk2.Run(nil, nil)
		if bad != "" {
			r.Bad(rule, key, w.InstrPos(badAt), fmt.Sprintf("%s (numBlocks=%d, lenBlock=%d): visiting nothing is the right answer for an empty collection", bad, got[0].num, got[0].leng))
		} else {
			r.OK(rule, key, w.Pos(fn.Pos()), "no definite error and no panic is reachable with the sizes of an empty collection")
		}
	}
	r.Floor(rule, 3)
}

// ---------------------------------------------------------------- B3

func ruleB3(w *World, r *Report) {
	const rule = "B3"
	n := 0
	for _, name := range []string{"(*Collection).VisitItemsAscendBlockEx", "(*Collection).VisitItemsRandom"} {
		fn := w.Fn(name)
		if fn == nil {
			r.Unknown(rule, "anchor "+name, "-", "exported API not found")
			continue
		}
		bind := closureBindings(fn)
		loops := loopsOf(fn)
		eachInstr(fn, func(in ssa.Instruction) {
			c, ok := in.(*ssa.Call)
			if !ok || c.Common().StaticCallee() == nil || !w.InLib(c.Common().StaticCallee()) {
				return
			}
			if nm := w.Name(c.Common().StaticCallee()); len(nm) < 24 || nm[:24] != "(*Collection).VisitItems" {
				return
			}
			// loops around the call: a rounds loop (counted) with a block loop inside?
			var around []*loopInfo
			for _, lp := range loops {
				if lp.body[in.Block()] {
					around = append(around, lp)
				}
			}
			if len(around) < 2 {
				return // one visit per block: a short last block simply ends early
			}
			n++
			inner := around[0]
			for _, lp := range around {
				if len(lp.body) < len(inner.body) {
					inner = lp
				}
			}
			key := fmt.Sprintf("%s › rounds over the blocks decide per block whether it still has an item", name)
			// cells the per-block visitor writes
			written := map[ssa.Value]bool{}
			for _, a := range c.Common().Args {
				v := a
				if ct, isCT := v.(*ssa.ChangeType); isCT {
					v = ct.X
				}
				if ld, isLd := v.(*ssa.UnOp); isLd && ld.Op == token.MUL {
					if al, isAl := ld.X.(*ssa.Alloc); isAl {
						if sv := singleStore(al); sv != nil {
							v = sv
							if ct, isCT := v.(*ssa.ChangeType); isCT {
								v = ct.X
							}
						}
					}
				}
				mc, isMc := v.(*ssa.MakeClosure)
				if !isMc {
					continue
				}
				cl := mc.Fn.(*ssa.Function)
				eachInstr(cl, func(ci ssa.Instruction) {
					if st, isSt := ci.(*ssa.Store); isSt {
						if fv, isFv := st.Addr.(*ssa.FreeVar); isFv {
							written[bind[fv]] = true
						}
					}
				})
			}
			// a branch inside the block loop whose condition looks at per-block state: a cell
			// the visitor writes, or an element of a slice (the range value of the block loop
			// included)
			// two halves: the loop looks at what the visit found (a cell the visitor writes),
			// and a test of per-block state ahead of the visit can skip it
			found, observed, skipped := "", false, false
			for b := range inner.body {
				iff, isIf := b.Instrs[len(b.Instrs)-1].(*ssa.If)
				if !isIf {
					continue
				}
				if dependsOnPerBlock(iff.Cond, written, 0) && !dependsOnPerBlock(iff.Cond, nil, 0) {
					observed = true
				}
				if dependsOnPerBlock(iff.Cond, nil, 0) && b.Dominates(in.Block()) && b != in.Block() {
					toCall := 0
					for _, s := range b.Succs {
						if s != inner.header && (s == in.Block() || s.Dominates(in.Block())) {
							toCall++
						}
					}
					if toCall == 1 {
						skipped = true
						found = w.InstrPos(iff)
					}
				}
			}
			if observed && skipped {
				r.OK(rule, key, found, "the block loop observes whether the visit found a further item and skips blocks that ran out")
			} else if observed != skipped {
				r.Bad(rule, key, w.InstrPos(in), fmt.Sprintf("only half of the retire protocol is present (outcome of the visit observed: %v, exhausted block skipped: %v): a block that ran out of items is still visited in the remaining rounds", observed, skipped))
			} else {
				r.Bad(rule, key, w.InstrPos(in), "every block is visited once per round no matter what the previous round found: the block that ends the collection is shorter than the round count whenever the size is not a multiple of the block length, and then presents its last item again")
			}
		})
	}
	r.Floor(rule, 1)
	_ = n
}

func dependsOnPerBlock(v ssa.Value, written map[ssa.Value]bool, depth int) bool {
	if depth > 8 || v == nil {
		return false
	}
	switch x := v.(type) {
	case *ssa.UnOp:
		if x.Op == token.MUL {
			if written[x.X] {
				return true
			}
			if _, isIdx := x.X.(*ssa.IndexAddr); isIdx {
				return true
			}
			return false
		}
		return dependsOnPerBlock(x.X, written, depth+1)
	case *ssa.BinOp:
		return dependsOnPerBlock(x.X, written, depth+1) || dependsOnPerBlock(x.Y, written, depth+1)
	case *ssa.Call:
		if _, isBuiltin := x.Common().Value.(*ssa.Builtin); !isBuiltin {
			return false // the visit's own error result says nothing about the block
		}
		for _, a := range x.Common().Args {
			if dependsOnPerBlock(a, written, depth+1) {
				return true
			}
		}
	case *ssa.Phi:
		for _, e := range x.Edges {
			if dependsOnPerBlock(e, written, depth+1) {
				return true
			}
		}
	case *ssa.Convert:
		return dependsOnPerBlock(x.X, written, depth+1)
	case *ssa.ChangeType:
		return dependsOnPerBlock(x.X, written, depth+1)
	}
	return false
}

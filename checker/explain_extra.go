package main

// Rules added to a property after the rounds of independently seeded changes
// (DESIGN §11.6); appended to the property's explanation in the evidence.
var explanationAddenda = map[string]string{
	"C01": " Added: O1/O2b — the statement includes Flush and re-open, so Flush must report success only through the root-record write, and that writer only after the write and the size advance.",
	"C02": " Added: O2b (the root-record writer succeeds only after write + size advance), O6 rejects every route from Flush into the tree writer other than write(pinned root), O6r (decoded versions start with the collection's own reference).",
	"C03": " Added: O2b, O5s (the backward scan steps by exactly one byte), T1 (scan loop discipline), Y4 (framing fields written are the ones validated), A-off/A-mono (every write goes to the current end; a root record is never overwritten in place).",
	"C04": " Added: P2 (tree handle read only from a pinned version), RC1 strict (chaining conditioned on the predecessor's holders only).",
	"C05": " Added: RC1 strict, P2, S1, F2, F6 (recycled objects fully re-initialised), O6 (Flush writes exactly the versions it pinned).",
	"C06": " Added: V1 requires the sign handed to the choice function to be the comparator's result on every path; V3b (a returned item carries its value whenever one is wanted).",
	"C07": " Added: E3b (mark-clearing walk covers both children), E4 (results used only on the success path), E5 (fallible reads fill objects private to the reading call, never a published cache entry), O3.",
	"C10": " Added: E3b, F6 (allocator re-initialises every field or the matching free routine wipes it), RC1 strict.",
	"C12": " Added: O1 (the name set becomes durable only through the root-record write, which a successful Flush never skips), O6r, F6.",
	"C15": " Added: V3b (the item reader returns cached items only when they satisfy the caller's value mode).",
	"C16": " Added: B1 (Len counts every item of a full visit; per-block visitor state is fresh per block), B2 (the collecting pass spaces block start keys exactly as far apart as the presenting pass walks from each: linear forms lenBlock+k compared).  The handling of the last, partial block remains undecided.",
	"C17": " Added: V5/V6 (wrappers transparent; the ascending order guard trips only on prev > cur, so a recycling ItemAlloc pool whose objects alias cannot change results).",
}

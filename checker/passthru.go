package main

import "golang.org/x/tools/go/ssa"

// passThroughCallee: the return hands a callee's (item, err) tuple on unchanged
// (`return f(...)`): both results are the extracts #0 and #1 of the same call.
func passThroughCallee(ret *ssa.Return) *ssa.Function {
	if len(ret.Results) != 2 {
		return nil
	}
	e0, ok0 := ret.Results[0].(*ssa.Extract)
	e1, ok1 := ret.Results[1].(*ssa.Extract)
	if !ok0 || !ok1 || e0.Tuple != e1.Tuple || e0.Index != 0 || e1.Index != 1 {
		return nil
	}
	c, ok := e0.Tuple.(*ssa.Call)
	if !ok {
		return nil
	}
	return c.Common().StaticCallee()
}

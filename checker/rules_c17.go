package main

// C17 — behaviourally neutral callbacks (DESIGN §4 C17) and C11 — CopyTo (DESIGN §4 C11).

import (
	"fmt"
	"go/token"
	"go/types"
	"strings"

	"golang.org/x/tools/go/ssa"
)

var valueWrappers = map[string]bool{"(*Item).NumValBytes": true, "(*Store).ItemValRead": true, "(*Store).ItemValWrite": true}

// K1: value bytes / value length are only touched inside the three dispatch wrappers.
func ruleK1(w *World, r *Report) {
	const rule = "K1"
	n := 0
	for _, fn := range w.Funcs {
		if !w.InLib(fn) {
			continue
		}
		eachInstr(fn, func(in ssa.Instruction) {
			ld, ok := in.(*ssa.UnOp)
			if !ok || ld.Op != token.MUL {
				return
			}
			if _, isVal := isFieldAddr(ld.X, "Item", "Val"); !isVal {
				return
			}
			n++
			key := fmt.Sprintf("%s › use of Item.Val#%d", w.Name(fn), n)
			if valueWrappers[w.Name(fn)] {
				r.OK(rule, key, w.InstrPos(in), "inside a value dispatch wrapper")
				return
			}
			bad := ""
			if refs := ld.Referrers(); refs != nil {
				for _, rf := range nonDebugRefs(*refs) {
					switch x := rf.(type) {
					case *ssa.BinOp:
						if (x.Op == token.EQL || x.Op == token.NEQ) && (isNilConst(x.X) || isNilConst(x.Y)) {
							continue
						}
						bad = "compared / computed with"
					case *ssa.Return:
						continue // handed to the user
					case *ssa.Store:
						if _, toVal := isFieldAddr(x.Addr, "Item", "Val"); toVal && x.Val == ssa.Value(ld) {
							continue // copied between items
						}
						bad = "stored somewhere else"
					case *ssa.Call:
						bad = "passed to " + describe(x)
					default:
						bad = fmt.Sprintf("used by %T", rf)
					}
				}
			}
			if bad != "" {
				r.Bad(rule, key, w.InstrPos(in), "the value bytes are "+bad+" outside Item.NumValBytes / Store.ItemValRead / Store.ItemValWrite: with value callbacks installed (values kept elsewhere, Val nil or chunked) the result differs")
			} else {
				r.OK(rule, key, w.InstrPos(in), "only nil-tested, copied between items or returned to the user")
			}
		})
	}
	r.Floor(rule, 5)
}

// K2: every call through a StoreCallbacks field is guarded by its nil test.
func ruleK2(w *World, r *Report) {
	const rule = "K2"
	n := 0
	for _, cb := range w.G.Callbacks {
		if cb.Kind != "store-callback" || !w.InLib(cb.Fn) {
			continue
		}
		n++
		key := fmt.Sprintf("%s › callback %s#%d nil-guarded", w.Name(cb.Fn), cb.Desc, n)
		ok := false
		for _, f := range factsAt(cb.Instr.Block()) {
			x, trueMeansNil, isNil := nilTest(f.Cond)
			if !isNil {
				continue
			}
			if callbackField(x) == cb.Desc && trueMeansNil != f.Pol {
				ok = true
			}
		}
		r.Check(ok, rule, key, w.InstrPos(cb.Instr), "called only where the callback field is known non-nil", "a StoreCallbacks field is called without its nil test: a store without that callback panics")
		// a default exists: the function can complete without calling the callback
		hit, _ := pathAvoiding(cb.Fn, nil, func(x ssa.Instruction) bool { _, isRet := x.(*ssa.Return); return isRet }, func(x ssa.Instruction) bool { return x == ssa.Instruction(cb.Instr) }, nil)
		r.Check(hit != nil, rule, fmt.Sprintf("%s › callback %s#%d has a default path", w.Name(cb.Fn), cb.Desc, n), w.InstrPos(cb.Instr), "the function can return without the callback (default behaviour)", "no path avoids the callback: nothing happens by default")
	}
	r.Floor(rule, 16)
}

// K3: items are allocated only by ItemAlloc (read path), Item.Copy and Set (user data).
func ruleK3(w *World, r *Report) {
	const rule = "K3"
	allowed := map[string]string{"(*Store).ItemAlloc": "the default allocator", "(*Item).Copy": "documented: not allocated through ItemAlloc", "(*Collection).Set": "wraps the caller's key/value"}
	n := 0
	for _, fn := range w.Funcs {
		if !w.InLib(fn) {
			continue
		}
		eachInstr(fn, func(in ssa.Instruction) {
			al, ok := in.(*ssa.Alloc)
			if !ok || !isLibType(al.Type(), "Item") {
				return
			}
			if _, isPtr := deref(al.Type()).Underlying().(*types.Struct); !isPtr {
				return
			}
			n++
			key := fmt.Sprintf("%s › allocates an Item#%d", w.Name(fn), n)
			if why, ok := allowed[w.Name(fn)]; ok {
				r.OK(rule, key, w.InstrPos(in), why)
			} else {
				r.Bad(rule, key, w.InstrPos(in), "an Item is allocated outside Store.ItemAlloc: an installed ItemAlloc callback (pooled / ref-counted items) is bypassed")
			}
		})
	}
	// the item-read function obtains its item from ItemAlloc
	if rd := w.Fn("(*itemLoc).read"); rd != nil {
		r.Check(len(callsOf(rd, "(*Store).ItemAlloc")) > 0, rule, "(*itemLoc).read › allocates through Store.ItemAlloc", w.Pos(rd.Pos()), "ItemAlloc(c, keyLength)", "the item reader does not allocate through ItemAlloc")
	}
	r.Floor(rule, 3)
}

// K4: after a before-write / after-read hook, only the hook's result is used.
func ruleK4(w *World, r *Report) {
	const rule = "K4"
	n := 0
	for _, cb := range w.G.Callbacks {
		if cb.Kind != "store-callback" || !w.InLib(cb.Fn) || (cb.Desc != "BeforeItemWrite" && cb.Desc != "AfterItemRead") {
			continue
		}
		n++
		call := cb.Instr.(*ssa.Call)
		orig := call.Common().Args[1]
		key := fmt.Sprintf("%s › after %s only its result is used", w.Name(cb.Fn), cb.Desc)
		var bad ssa.Instruction
		if refs := orig.Referrers(); refs != nil {
			for _, rf := range nonDebugRefs(*refs) {
				if rf == ssa.Instruction(call) {
					continue
				}
				if _, isPhi := rf.(*ssa.Phi); isPhi {
					continue // merged with the hook's result
				}
				// a use that can execute after the hook
				if hit, _ := pathAvoiding(cb.Fn, call, func(x ssa.Instruction) bool { return x == rf }, nil, nil); hit != nil {
					// uses on the error arm of the hook (releasing the item) are fine
					if c, isC := rf.(ssa.CallInstruction); isC && staticCalleeName(c) == fnDecRef {
						continue
					}
					bad = rf
				}
			}
		}
		if bad != nil {
			r.Bad(rule, key, w.InstrPos(bad), "the item handed to the hook is used again after the hook returned: a hook that returns a different item is ignored")
		} else {
			r.OK(rule, key, w.InstrPos(call), "every later use goes through the hook's result")
		}
	}
	r.Floor(rule, 2)
}

// K5: every collection gets a comparator: the per-collection callback if installed and
// non-nil, else bytes.Compare.
func ruleK5(w *World, r *Report) {
	const rule = "K5"
	isBytesCompare := func(v ssa.Value) bool {
		if ct, ok := v.(*ssa.ChangeType); ok {
			v = ct.X
		}
		f, ok := v.(*ssa.Function)
		return ok && f.String() == "bytes.Compare"
	}
	n := 0
	for _, st := range w.fieldStores("Collection", "compare") {
		n++
		fn := st.Parent()
		key := fmt.Sprintf("%s › store Collection.compare#%d", w.Name(fn), n)
		v := st.Val
		switch {
		case isBytesCompare(v):
			r.OK(rule, key, w.InstrPos(st), "default comparator bytes.Compare")
		case func() bool { _, ok := isLoadOfField(v, "Collection", "compare"); return ok }():
			r.OK(rule, key, w.InstrPos(st), "copied from another collection handle")
		case func() bool { c := callOfValue(v); return c != nil && callbackField(c.Common().Value) == "KeyCompareForCollection" }():
			r.OK(rule, key, w.InstrPos(st), "result of the KeyCompareForCollection callback (nil is replaced below)")
		default:
			// parameter that was defaulted: φ(param, bytes.Compare) guarded by param == nil
			okDef := false
			if ph, isPhi := v.(*ssa.Phi); isPhi {
				hasDefault, hasParam := false, false
				for _, e := range ph.Edges {
					if isBytesCompare(e) {
						hasDefault = true
					}
					if _, isP := e.(*ssa.Parameter); isP {
						hasParam = true
					}
				}
				okDef = hasDefault && hasParam
			}
			r.Check(okDef, rule, key, w.InstrPos(st), "the caller's comparator, defaulted to bytes.Compare when nil", "a collection comparator is stored that may be nil (no default applied)")
		}
	}
	// the loader: after the callback, a nil comparator is replaced by bytes.Compare
	var loader *ssa.Function
	for _, cb := range w.G.Callbacks {
		if cb.Desc == "KeyCompareForCollection" {
			loader = cb.Fn
		}
	}
	if loader == nil {
		r.Unknown(rule, "collection loader", "-", "no call of the KeyCompareForCollection callback found")
	} else {
		ok := false
		eachInstr(loader, func(in ssa.Instruction) {
			if st, _, isSt := isStoreToField(in, "Collection", "compare"); isSt && isBytesCompare(st.Val) {
				for _, f := range factsAt(in.Block()) {
					if x, trueMeansNil, isNil := nilTest(f.Cond); isNil && trueMeansNil == f.Pol {
						if _, isCmp := isLoadOfField(x, "Collection", "compare"); isCmp {
							ok = true
						}
					}
				}
			}
		})
		r.Check(ok, rule, w.Name(loader)+" › nil comparator replaced by bytes.Compare", w.Pos(loader.Pos()), "if t.compare == nil { t.compare = bytes.Compare }", "a loaded collection can end up with a nil comparator (callback absent or returning nil): the first lookup panics")
	}
	r.Floor(rule, 4)
}

// K6: sizes agree: aggregates use the same length source as the encoder.
func ruleK6(w *World, r *Report) {
	const rule = "K6"
	le := newLayEval(w)
	// Item.NumBytes = len(Key) + NumValBytes
	if fn := w.Fn("(*Item).NumBytes"); fn != nil {
		fr := &frame{fn: fn, env: map[ssa.Value]interface{}{}, bufs: map[ssa.Value]*symInt{}}
		ok := false
		eachInstr(fn, func(in ssa.Instruction) {
			if ret, isRet := in.(*ssa.Return); isRet {
				if s := le.evInt(fr, ret.Results[0]); s != nil && normSym(s.String()) == "NumValBytes+len(Item.Key)" {
					ok = true
				}
			}
		})
		r.Check(ok, rule, "(*Item).NumBytes = len(Key) + NumValBytes(c)", w.Pos(fn.Pos()), "key length plus the dispatched value length", "Item.NumBytes does not add the dispatched value length to the key length")
	}
	// itemLoc.NumBytes: in-memory → Item.NumBytes; persisted → loc.Length - 16
	if fn := w.Fn("(*itemLoc).NumBytes"); fn != nil {
		fr := &frame{fn: fn, env: map[ssa.Value]interface{}{}, bufs: map[ssa.Value]*symInt{}}
		got := map[string]bool{}
		eachInstr(fn, func(in ssa.Instruction) {
			if ret, isRet := in.(*ssa.Return); isRet {
				if s := le.evInt(fr, ret.Results[0]); s != nil {
					got[s.String()] = true
				}
			}
		})
		want := map[string]bool{"0": true, "(*Item).NumBytes()": true, "ploc.Length+-16": true}
		ok := len(got) == len(want)
		for k := range got {
			if !want[k] {
				ok = false
			}
		}
		r.Check(ok, rule, "(*itemLoc).NumBytes ∈ {0, Item.NumBytes, loc.Length-16}", w.Pos(fn.Pos()), fmt.Sprintf("%v", keysOf(got)), fmt.Sprintf("the byte total of an item is computed as %v: it no longer equals key length + dispatched value length of what was written", keysOf(got)))
	}
	// NumValBytes: callback result if installed else len(Val)
	if fn := w.Fn("(*Item).NumValBytes"); fn != nil {
		fr := &frame{fn: fn, env: map[ssa.Value]interface{}{}, bufs: map[ssa.Value]*symInt{}}
		got := map[string]bool{}
		eachInstr(fn, func(in ssa.Instruction) {
			if ret, isRet := in.(*ssa.Return); isRet {
				if c, isC := ret.Results[0].(*ssa.Call); isC && callbackField(c.Common().Value) == "ItemValLength" {
					got["callback"] = true
				} else if s := le.evInt(fr, ret.Results[0]); s != nil {
					got[s.String()] = true
				}
			}
		})
		ok := len(got) == 2 && got["callback"] && got["len(Item.Val)"]
		r.Check(ok, rule, "(*Item).NumValBytes ∈ {ItemValLength(c,i), len(Val)}", w.Pos(fn.Pos()), "dispatched value length", fmt.Sprintf("NumValBytes returns %v", keysOf(got)))
	}
	// the leaf created by SetItem carries len(Key)+NumValBytes
	if fn := w.Fn("(*Collection).SetItem"); fn != nil {
		fr := &frame{fn: fn, env: map[ssa.Value]interface{}{}, bufs: map[ssa.Value]*symInt{}}
		ok := false
		eachInstr(fn, func(in ssa.Instruction) {
			if c, isC := in.(*ssa.Call); isC && staticCalleeName(c) == "(*Collection).mkNode" {
				a := c.Common().Args
				nn, nb := le.evInt(fr, a[4]), le.evInt(fr, a[5])
				if nn != nil && nn.isConst() && nn.k == 1 && nb != nil && normSym(nb.String()) == "NumValBytes+len(Item.Key)" {
					ok = true
				}
			}
		})
		r.Check(ok, rule, "(*Collection).SetItem › leaf aggregates (1, len(Key)+NumValBytes)", w.Pos(fn.Pos()), "exact count and bytes for a single item", "the leaf node created for a new item does not carry (1, len(key)+dispatched value length)")
	}
	r.Floor(rule, 4)
}

func keysOf(m map[string]bool) []string {
	var out []string
	for k := range m {
		out = append(out, k)
	}
	return out
}

// ---- C11

func ruleCP(w *World, r *Report) {
	const rule = "CP"
	fn := w.Fn("(*Store).CopyTo")
	if fn == nil {
		r.Unknown(rule, "anchor (*Store).CopyTo", "-", "exported API not found")
		return
	}
	var flushEvery *ssa.Parameter
	for _, p := range fn.Params {
		if p.Type().String() == "int" {
			flushEvery = p
		}
	}
	// CP1: when flushEvery > 0 every nil-error return is preceded by dst.Flush() whose error is checked
	var bad string
	var badAt ssa.Instruction
	errIdx := errResultIndex(fn)
	wk := &Walker{Fn: fn}
	wk.OnInstr = func(env *Env, in ssa.Instruction, trail []*ssa.BasicBlock) bool {
		if c, ok := in.(*ssa.Call); ok && staticCalleeName(c) == "(*Store).Flush" {
			env.flags["flushed"] = true
		}
		if c, ok := in.(*ssa.Call); ok {
			// a destination mutation after the last flush makes it stale again
			if n := staticCalleeName(c); n == "(*Collection).SetItem" || n == "(*Store).SetCollection" || n == "(*Collection).VisitItemsAscendEx" {
				env.flags["flushed"] = false
			}
		}
		if ret, ok := in.(*ssa.Return); ok {
			if in.Block().Comment == "recover" {
				return true
			}
			v := env.Resolve(ret.Results[errIdx])
			if isNilConst(v) && !env.flags["fe<=0"] && !env.flags["flushed"] && bad == "" {
				bad, badAt = "with flushEvery > 0 a success return is reachable whose last action on the destination is not a Flush: the copy is not durable", in
			}
			return true
		}
		return false
	}
	wk.Branch = func(env *Env, ifi *ssa.If) (bool, bool) {
		if x, trueMeansNil, ok := nilTest(ifi.Cond); ok && isErrorType(x.Type()) {
			return trueMeansNil, !trueMeansNil // success arms only
		}
		return true, true
	}
	wk.OnEdge = func(env *Env, from, to *ssa.BasicBlock, idx int) bool {
		ifi, ok := from.Instrs[len(from.Instrs)-1].(*ssa.If)
		if !ok {
			return false
		}
		c, pol := Guard{Cond: ifi.Cond, Pol: idx == 0}.atom()
		if b, isB := c.(*ssa.BinOp); isB && env.Resolve(b.X) == ssa.Value(flushEvery) {
			if k, isK := constInt(b.Y); isK && k == 0 {
				gt := (b.Op == token.GTR && pol) || (b.Op == token.LEQ && !pol)
				le0 := (b.Op == token.GTR && !pol) || (b.Op == token.LEQ && pol)
				if gt {
					env.flags["fe>0"] = true
				}
				if le0 {
					env.flags["fe<=0"] = true
				}
			}
		}
		return false
	}
	wk.Run(nil, nil)
	// a success return that never tested flushEvery at all is also wrong when it did not flush
	if bad != "" {
		r.Bad(rule, "(*Store).CopyTo › flushEvery > 0 ⇒ final Flush before success", w.InstrPos(badAt), bad)
	} else {
		r.OK(rule, "(*Store).CopyTo › flushEvery > 0 ⇒ final Flush before success", w.Pos(fn.Pos()), "every success return on the flushEvery > 0 arm is preceded by dstStore.Flush() with nothing written after it")
	}
	// the final flush must itself be conditioned on flushEvery > 0 only (not on item counts)
	finalFlush := false
	eachInstr(fn, func(in ssa.Instruction) {
		if c, ok := in.(*ssa.Call); ok && staticCalleeName(c) == "(*Store).Flush" {
			for _, lp := range loopsOf(fn) {
				if lp.body[in.Block()] {
					return
				}
			}
			finalFlush = true
		}
	})
	r.Check(finalFlush, rule, "(*Store).CopyTo › a Flush after the copy loop", w.Pos(fn.Pos()), "final Flush outside the per-collection loop", "CopyTo has no Flush after its copy loop: items copied since the last periodic flush, and the collection set, are never made durable")
	// CP2: destination collections: same name, same comparator, all names
	var setc *ssa.Call
	eachInstr(fn, func(in ssa.Instruction) {
		if c, ok := in.(*ssa.Call); ok && staticCalleeName(c) == "(*Store).SetCollection" {
			setc = c
		}
	})
	if setc == nil {
		r.Bad(rule, "(*Store).CopyTo › creates destination collections", w.Pos(fn.Pos()), "CopyTo never calls SetCollection on the destination")
	} else {
		a := setc.Common().Args
		_, okCmp := isLoadOfField(a[2], "Collection", "compare")
		okName := false
		if ld, isLd := a[1].(*ssa.UnOp); isLd {
			if ia, isIA := ld.X.(*ssa.IndexAddr); isIA {
				if c := callOfValue(ia.X); c != nil && staticCalleeName(c) == "collNames" {
					okName = true
				}
			}
		}
		okRecv := false
		for _, rt := range w.Roots(a[0], true) {
			if rt.Kind == "call" && strings.HasPrefix(w.Name(rt.Fn), "NewStore") {
				okRecv = true
			}
		}
		r.Check(okCmp && okName && okRecv, rule, "(*Store).CopyTo › dst.SetCollection(name, src.compare) for every name", w.InstrPos(setc), "same name (from the sorted names of the source map), the source collection's comparator, on the new store", "destination collections are not created with the source's name and comparator on the new store")
		// every iteration creates it: no path round the loop avoiding SetCollection
		for _, lp := range loopsOf(fn) {
			if lp.body[setc.Block()] {
				p := cycleAvoiding(lp, func(x ssa.Instruction) bool { return x == ssa.Instruction(setc) })
				r.Check(p == nil, rule, "(*Store).CopyTo › no collection skipped", w.InstrPos(setc), "every iteration of the name loop creates the destination collection (empty ones included)", "an iteration of the collection loop can skip SetCollection: that collection is missing in the copy")
			}
		}
	}
	// CP3: items are read with their values and set into the destination unchanged
	okMin, okVisit, okSet := false, false, false
	// the visitor may be a closure of CopyTo or a method handed over as a method value
	visitors := boundMethodsPassedIn(fn)
	isVisitor := map[*ssa.Function]bool{}
	for _, v := range visitors {
		isVisitor[v] = true
	}
	for _, ff := range append(family(fn), visitors...) {
		eachInstr(ff, func(in ssa.Instruction) {
			c, ok := in.(*ssa.Call)
			if !ok {
				return
			}
			switch staticCalleeName(c) {
			case "(*Collection).MinItem":
				if k, isK := c.Common().Args[1].(*ssa.Const); isK && k.Value != nil && k.Value.String() == "true" {
					okMin = true
				}
			case "(*Collection).VisitItemsAscendEx":
				k, isK := c.Common().Args[2].(*ssa.Const)
				_, fromMin := isLoadOfField(c.Common().Args[1], "Item", "Key")
				if isK && k.Value != nil && k.Value.String() == "true" && fromMin {
					okVisit = true
				}
			case "(*Collection).SetItem":
				if p, isP := c.Common().Args[1].(*ssa.Parameter); isP && p.Parent() == ff && (ff.Parent() != nil || isVisitor[ff]) {
					okSet = true
				}
			}
		})
	}
	r.Check(okMin && okVisit && okSet, rule, "(*Store).CopyTo › copies every item with its value", w.Pos(fn.Pos()), "MinItem(true); VisitItemsAscendEx(min.Key, true, …); dst.SetItem(the visited item)", "CopyTo does not read items with values from the smallest key on, or does not set the visited item itself into the destination")
	// the visitor keeps going unless an error occurred
	for _, cl := range append(append([]*ssa.Function{}, fn.AnonFuncs...), visitors...) {
		if len(cl.Params) != 2 && !(isVisitor[cl] && len(cl.Params) == 3) {
			continue
		}
		okStop := true
		eachInstr(cl, func(in ssa.Instruction) {
			ret, isRet := in.(*ssa.Return)
			if !isRet {
				return
			}
			if k, isK := ret.Results[0].(*ssa.Const); isK && k.Value != nil && k.Value.String() == "false" {
				// must be on an error arm: guarded by (captured error) != nil
				onErr := false
				for _, f := range factsAt(in.Block()) {
					if x, trueMeansNil, isNil := nilTest(f.Cond); isNil && isErrorType(x.Type()) && trueMeansNil != f.Pol {
						onErr = true
					}
				}
				if !onErr {
					okStop = false
				}
			}
		})
		r.Check(okStop, rule, w.Name(cl)+" › the copy visitor stops only on error", w.Pos(cl.Pos()), "return false only where an error was recorded", "the copy visitor can stop the visit without an error: the remaining items are silently not copied")
	}
	r.Floor(rule, 5)
}

func init() {
	register(&Property{
		ID:    "C17",
		Level: "other",
		Rules: []Rule{{"K1", ruleK1}, {"K2", ruleK2}, {"K3", ruleK3}, {"K4", ruleK4}, {"K5", ruleK5}, {"K6", ruleK6}, {"V5", ruleV5}, {"V7", ruleV7}, {"E1h", ruleE1h}, {"Z4", ruleZ4}},
		Explanation: "K1 the value bytes and value length of an item are touched only inside the three dispatch wrappers (Item.NumValBytes, Store.ItemValRead, Store.ItemValWrite); elsewhere Item.Val is only nil-tested, copied between items or returned to the user. K2 every call through a StoreCallbacks field is dominated by its nil test and the function has a default path that does not call it. K3 items are allocated only by Store.ItemAlloc (plus the documented Item.Copy and Set). K4 after a before-write / after-read hook only the hook's result is used. K5 every collection comparator stored is a defaulted parameter, a copy, or the load-time callback's result, and the loader replaces a nil comparator by bytes.Compare. K6 sizes agree: Item.NumBytes = len(Key)+NumValBytes, itemLoc.NumBytes ∈ {0, Item.NumBytes, loc.Length-16}, the new leaf carries (1, len(Key)+NumValBytes), and the encoder uses the same wrapper (C14 Y6). These are the structural reasons a behaviourally neutral callback cannot change a result; identity of all results under every callback subset (every other property re-run under configurations) is NOT decided.",
		ControlSrc:  controlC17,
		Expect:      []Expect{{"K1", "ZzCtlValLen"}, {"K2", "ZzCtlCallUnguarded"}, {"K3", "ZzCtlNewItem"}},
	})
	register(&Property{
		ID:    "C11",
		Level: "other",
		Rules: []Rule{{"A-src", ruleASrc}, {"CP", ruleCP}, {"V7", ruleV7}, {"E1c", func(w *World, r *Report) {
			fn := w.Fn("(*Store).CopyTo")
			if fn == nil {
				return
			}
			for _, ff := range append(family(fn), boundMethodsPassedIn(fn)...) {
				for _, fc := range w.fallibleCalls(ff) {
					w.checkErrorFlow(r, "E1c", fc)
				}
			}
			r.Floor("E1c", 5)
		}}},
		Explanation: "A-src every call CopyTo makes on a receiver derived from the source store or its collections targets a function that neither writes the file nor publishes a version or collection map (the source and its file are left alone; eviction of cached items is allowed). CP1 with flushEvery > 0 every success return is preceded by dstStore.Flush() with nothing written to the destination after it, and a Flush exists after the copy loop. CP2 each destination collection is created on the new store with the source collection's name and comparator, for every name of the source map, none skipped. CP3 items are read with values from the smallest key on and the visited item itself is set into the destination; the copy visitor stops only where an error was recorded. E1c every fallible call in CopyTo propagates its error. NOT decided: equivalence of contents, compaction (only live data), behaviour with in-copy eviction.",
		ControlSrc:  "package gkvlite\n",
		ControlEdits: []ControlEdit{{"Store.CopyTo", "if flushEvery > 1000 { return nil, nil }"}},
		Expect:      []Expect{{"CP", "final Flush before success"}},
	})
}

const controlC17 = `package gkvlite

// positive controls for C17 (never part of /repo)
func (t *Collection) ZzCtlValLen(i *Item) int { return len(i.Val) } // value length outside the wrappers

func (s *Store) ZzCtlCallUnguarded(c *Collection, i *Item) { s.callbacks.ItemAddRef(c, i) } // no nil test

func (t *Collection) ZzCtlNewItem(k []byte) *Item { return &Item{Key: k} } // bypasses ItemAlloc
`

// boundMethodsPassedIn: library methods handed to a call inside fn as method values
// (`x.visit` passed where a visitor function is expected).  go/ssa represents the value as
// a closure over a synthetic wrapper that calls the method.
func boundMethodsPassedIn(fn *ssa.Function) []*ssa.Function {
	var out []*ssa.Function
	seen := map[*ssa.Function]bool{}
	for _, ff := range family(fn) {
		eachInstr(ff, func(in ssa.Instruction) {
			c, ok := in.(ssa.CallInstruction)
			if !ok {
				return
			}
			for _, a := range c.Common().Args {
				v := a
				if ct, isCT := v.(*ssa.ChangeType); isCT {
					v = ct.X
				}
				mc, isMC := v.(*ssa.MakeClosure)
				if !isMC {
					continue
				}
				wf, _ := mc.Fn.(*ssa.Function)
				if wf == nil || wf.Synthetic == "" || !strings.Contains(wf.Synthetic, "bound") {
					continue
				}
				eachInstr(wf, func(x ssa.Instruction) {
					if cc, isC := x.(ssa.CallInstruction); isC {
						if m := cc.Common().StaticCallee(); m != nil && m.Blocks != nil && !seen[m] {
							seen[m] = true
							out = append(out, m)
						}
					}
				})
			}
		})
	}
	return out
}

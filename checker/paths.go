package main

// Path predicates on SSA control-flow graphs (DESIGN §3.C).

import (
	"go/constant"
	"fmt"
	"go/token"
	"go/types"

	"golang.org/x/tools/go/ssa"
)

// Guard: condition value and the polarity with which it is known at some point.
type Guard struct {
	Cond ssa.Value
	Pol  bool
	If   *ssa.If
}

// edgeDominates: the CFG edge from→to dominates block b (to has the single predecessor
// from, or every other predecessor is dominated by to itself — loop back edges).
func edgeDominates(from, to, b *ssa.BasicBlock) bool {
	if !to.Dominates(b) {
		return false
	}
	for _, p := range to.Preds {
		if p == from {
			continue
		}
		if !to.Dominates(p) {
			return false
		}
	}
	return true
}

// guardsOf returns the branch conditions known on entry of block b.
func guardsOf(b *ssa.BasicBlock) []Guard {
	var out []Guard
	for d := b.Idom(); d != nil; d = d.Idom() {
		out = append(out, guardsFromBlock(d, b)...)
	}
	return out
}

func guardsFromBlock(d, b *ssa.BasicBlock) []Guard {
	var out []Guard
	if len(d.Instrs) == 0 {
		return nil
	}
	ifi, ok := d.Instrs[len(d.Instrs)-1].(*ssa.If)
	if !ok || d.Succs[0] == d.Succs[1] {
		return nil
	}
	if edgeDominates(d, d.Succs[0], b) {
		out = append(out, Guard{ifi.Cond, true, ifi})
	}
	if edgeDominates(d, d.Succs[1], b) {
		out = append(out, Guard{ifi.Cond, false, ifi})
	}
	return out
}

// flatten a guard into atomic facts: NOT is folded into polarity.
func (g Guard) atom() (ssa.Value, bool) {
	c, pol := g.Cond, g.Pol
	for {
		if u, ok := c.(*ssa.UnOp); ok && u.Op == token.NOT {
			c, pol = u.X, !pol
			continue
		}
		return c, pol
	}
}

// nilFact: the guard establishes v == nil (isNil=true) or v != nil.
func (g Guard) nilFact() (v ssa.Value, isNil bool, ok bool) {
	c, pol := g.atom()
	b, isBin := c.(*ssa.BinOp)
	if !isBin || (b.Op != token.EQL && b.Op != token.NEQ) {
		return nil, false, false
	}
	var other ssa.Value
	switch {
	case isNilConst(b.Y):
		other = b.X
	case isNilConst(b.X):
		other = b.Y
	default:
		return nil, false, false
	}
	eq := b.Op == token.EQL
	return other, eq == pol, true
}

// knownNil / knownNonNil at block b for value v (same SSA value).
func knownNonNil(b *ssa.BasicBlock, v ssa.Value) bool {
	for _, g := range guardsOf(b) {
		if x, isNil, ok := g.nilFact(); ok && sameVal(x, v) && !isNil {
			return true
		}
	}
	return false
}

func knownNil(b *ssa.BasicBlock, v ssa.Value) bool {
	for _, g := range guardsOf(b) {
		if x, isNil, ok := g.nilFact(); ok && sameVal(x, v) && isNil {
			return true
		}
	}
	return false
}

// sameVal: the ≡ relation of DESIGN §3.D (syntactic part).
func sameVal(a, b ssa.Value) bool {
	return sameValD(a, b, 0)
}

func sameValD(a, b ssa.Value, d int) bool {
	if a == b {
		return true
	}
	if a == nil || b == nil || d > 8 {
		return false
	}
	a, b = unwrap(a), unwrap(b)
	if a == b {
		return true
	}
	// two constants of the same numeric value (int64(52) and uint32(52) are one length)
	if ca, ok := a.(*ssa.Const); ok {
		if cb, ok := b.(*ssa.Const); ok && ca.Value != nil && cb.Value != nil && ca.Value.Kind() == constant.Int && cb.Value.Kind() == constant.Int {
			return constant.Compare(ca.Value, token.EQL, cb.Value)
		}
	}
	// a load of a local cell that is assigned exactly once (variables captured by a
	// closure live in such cells) is the value assigned
	if v := singleAssigned(a); v != nil && v != a {
		return sameValD(v, b, d+1)
	}
	if v := singleAssigned(b); v != nil && v != b {
		return sameValD(a, v, d+1)
	}
	switch x := a.(type) {
	case *ssa.FieldAddr:
		if y, ok := b.(*ssa.FieldAddr); ok {
			return x.Field == y.Field && types.Identical(x.X.Type(), y.X.Type()) && sameValD(x.X, y.X, d+1)
		}
	case *ssa.Field:
		if y, ok := b.(*ssa.Field); ok {
			return x.Field == y.Field && types.Identical(x.X.Type(), y.X.Type()) && sameValD(x.X, y.X, d+1)
		}
	case *ssa.Extract:
		if y, ok := b.(*ssa.Extract); ok {
			return x.Index == y.Index && x.Tuple == y.Tuple
		}
	case *ssa.Lookup:
		// m[k] read twice from the same map under the same key (`rnls[name]` spelled out at
		// two call sites): the same element as long as the map is not updated in between,
		// which holds for maps that are only filled before they are read
		if y, ok := b.(*ssa.Lookup); ok && x.CommaOk == y.CommaOk {
			return sameValD(x.X, y.X, d+1) && sameValD(x.Index, y.Index, d+1)
		}
	case *ssa.UnOp:
		if y, ok := b.(*ssa.UnOp); ok && x.Op == y.Op && x.Op == token.MUL {
			// loads of the same single-assignment cell / same address with no store analysis:
			// only accepted for allocs that are stored exactly once
			if al, ok := x.X.(*ssa.Alloc); ok && y.X == al {
				return storesTo(al) <= 1
			}
			if fv, ok := x.X.(*ssa.FreeVar); ok && y.X == fv {
				return true
			}
			// two loads of the same field of the same object, in a function that never
			// stores to that field (the repo has no CSE in SSA: `loc.Length` read twice)
			if fx, ok := x.X.(*ssa.FieldAddr); ok {
				if fy, ok := y.X.(*ssa.FieldAddr); ok && sameValD(fx, fy, d+1) && x.Parent() == y.Parent() {
					return !storesFieldIn(x.Parent(), fx)
				}
			}
		}
	case *ssa.Const:
		if y, ok := b.(*ssa.Const); ok {
			return types.Identical(x.Type(), y.Type()) && ((x.Value == nil && y.Value == nil) || (x.Value != nil && y.Value != nil && x.Value.ExactString() == y.Value.ExactString()))
		}
	case *ssa.Phi:
		// φ all of whose operands are ≡ b
		all := len(x.Edges) > 0
		for _, e := range x.Edges {
			if e == x {
				continue
			}
			if !sameValD(e, b, d+1) {
				all = false
			}
		}
		if all {
			return true
		}
	}
	if y, ok := b.(*ssa.Phi); ok {
		all := len(y.Edges) > 0
		for _, e := range y.Edges {
			if e == y {
				continue
			}
			if !sameValD(a, e, d+1) {
				all = false
			}
		}
		return all
	}
	return false
}

func storesTo(al *ssa.Alloc) int {
	n := 0
	if refs := al.Referrers(); refs != nil {
		for _, r := range *refs {
			if st, ok := r.(*ssa.Store); ok && st.Addr == al {
				n++
			}
		}
	}
	return n
}

// ---------------------------------------------------------------------------------
// instruction-level reachability inside one function

type ipos struct {
	b *ssa.BasicBlock
	i int
}

func posOf(in ssa.Instruction) ipos {
	b := in.Block()
	for i, x := range b.Instrs {
		if x == in {
			return ipos{b, i}
		}
	}
	return ipos{b, -1}
}

// pathAvoiding searches a CFG path that starts right after `from` (or at function
// entry if from == nil), reaches an instruction satisfying target, and never executes
// an instruction satisfying avoid.  It returns the target instruction and the block
// path, or nil.  edgeOK (optional) filters CFG edges (e.g. to follow only a success arm).
//
// The search follows the values of each path (Walker): an arm that the values assigned
// earlier on the path rule out (`err = errors.New(…)` … `if err != nil`) is not taken.  If
// that exploration exceeds its state budget the plain CFG search decides (conservative).
func pathAvoiding(fn *ssa.Function, from ssa.Instruction, target, avoid func(ssa.Instruction) bool, edgeOK func(from, to *ssa.BasicBlock) bool) (ssa.Instruction, []*ssa.BasicBlock) {
	if len(fn.Blocks) == 0 {
		return nil, nil
	}
	var hit ssa.Instruction
	var path []*ssa.BasicBlock
	wk := &Walker{Fn: fn}
	wk.OnInstr = func(env *Env, in ssa.Instruction, trail []*ssa.BasicBlock) bool {
		if hit != nil {
			return true
		}
		if target(in) {
			hit, path = in, append([]*ssa.BasicBlock{}, trail...)
			return true
		}
		return avoid != nil && avoid(in)
	}
	if edgeOK != nil {
		wk.OnEdge = func(env *Env, a, b *ssa.BasicBlock, k int) bool { return !edgeOK(a, b) }
	}
	wk.Run(from, nil)
	if !wk.Truncated {
		return hit, path
	}
	return pathAvoidingCFG(fn, from, target, avoid, edgeOK)
}

func pathAvoidingCFG(fn *ssa.Function, from ssa.Instruction, target, avoid func(ssa.Instruction) bool, edgeOK func(from, to *ssa.BasicBlock) bool) (ssa.Instruction, []*ssa.BasicBlock) {
	if len(fn.Blocks) == 0 {
		return nil, nil
	}
	type state struct {
		b     *ssa.BasicBlock
		start int
	}
	startB, startI := fn.Blocks[0], 0
	if from != nil {
		p := posOf(from)
		startB, startI = p.b, p.i+1
	}
	parent := map[*ssa.BasicBlock]*ssa.BasicBlock{}
	visited := map[*ssa.BasicBlock]bool{}
	scan := func(b *ssa.BasicBlock, i int) (hit ssa.Instruction, blocked bool) {
		for ; i < len(b.Instrs); i++ {
			in := b.Instrs[i]
			if target(in) {
				return in, false
			}
			if avoid != nil && avoid(in) {
				return nil, true
			}
		}
		return nil, false
	}
	mkPath := func(b *ssa.BasicBlock) []*ssa.BasicBlock {
		var rev []*ssa.BasicBlock
		onPath := map[*ssa.BasicBlock]bool{}
		for x := b; x != nil && !onPath[x]; x = parent[x] {
			onPath[x] = true
			rev = append(rev, x)
		}
		for i, j := 0, len(rev)-1; i < j; i, j = i+1, j-1 {
			rev[i], rev[j] = rev[j], rev[i]
		}
		return rev
	}
	// first partial block
	if hit, blocked := scan(startB, startI); hit != nil {
		return hit, []*ssa.BasicBlock{startB}
	} else if blocked {
		return nil, nil
	}
	queue := []*ssa.BasicBlock{}
	for _, s := range startB.Succs {
		if edgeOK != nil && !edgeOK(startB, s) {
			continue
		}
		if !visited[s] {
			visited[s] = true
			if s != startB {
				parent[s] = startB
			}
			queue = append(queue, s)
		}
	}
	for len(queue) > 0 {
		b := queue[0]
		queue = queue[1:]
		hit, blocked := scan(b, 0)
		if hit != nil {
			return hit, mkPath(b)
		}
		if blocked {
			continue
		}
		for _, s := range b.Succs {
			if edgeOK != nil && !edgeOK(b, s) {
				continue
			}
			if !visited[s] {
				visited[s] = true
				parent[s] = b
				queue = append(queue, s)
			}
		}
	}
	return nil, nil
}

func blockPathString(w *World, path []*ssa.BasicBlock) []string {
	var out []string
	for _, b := range path {
		pos := "-"
		for _, in := range b.Instrs {
			if in.Pos().IsValid() {
				pos = w.Pos(in.Pos())
				break
			}
		}
		out = append(out, fmt.Sprintf("block %d (%s) @ %s", b.Index, b.Comment, pos))
	}
	return out
}

// isReturn / error classification of a Return instruction.
type RetClass int

const (
	RetSuccess RetClass = iota // error result is the nil constant
	RetError                   // error result known non-nil
	RetUnknown                 // error result is a variable
	RetNoError                 // function has no error result
)

func errResultIndex(fn *ssa.Function) int {
	res := fn.Signature.Results()
	for i := res.Len() - 1; i >= 0; i-- {
		if isErrorType(res.At(i).Type()) {
			return i
		}
	}
	return -1
}

// dominates for instructions.
func instrDominates(a, b ssa.Instruction) bool {
	pa, pb := posOf(a), posOf(b)
	if pa.b == pb.b {
		return pa.i < pb.i
	}
	return pa.b.Dominates(pb.b)
}

// storesFieldIn: fn contains a store to the same field (of any object of that struct type).
func storesFieldIn(fn *ssa.Function, fa *ssa.FieldAddr) bool {
	found := false
	eachInstr(fn, func(in ssa.Instruction) {
		if st, ok := in.(*ssa.Store); ok {
			if g, ok := st.Addr.(*ssa.FieldAddr); ok && g.Field == fa.Field && types.Identical(deref(g.X.Type()), deref(fa.X.Type())) {
				found = true
			}
		}
	})
	return found
}

#!/bin/sh
# Builds the static checker from files on disk only (offline).
set -e
HERE="$(cd "$(dirname "$0")" && pwd)"
export GOFLAGS=-mod=mod GOPROXY=off GOSUMDB=off GOTOOLCHAIN=local
unset GOWORK
mkdir -p "$HERE/bin" "$HERE/evidence"
cd "$HERE/checker"
# build aside and rename: checks running in parallel never see a half-written binary
go build -o "$HERE/bin/gkvcheck.$$" . && mv -f "$HERE/bin/gkvcheck.$$" "$HERE/bin/gkvcheck"
echo "built $HERE/bin/gkvcheck"
